"""Trace validation of the stylesheet compiler's outputs against spec/OutMapTrace.tla (C19, also used by C01 / C08).

A trace is read off one REAL output: its text re-tokenised by cssparser (every token, white space included, in
order) interleaved with the decoded source-map entries in the order the map holds them.  TLC replays it through
OutMap: the write position is folded from the tokens' lengths, an entry must stand at the write position, be ordered,
point at a source token's start, and - where the reference transducer says what the token comes from - at that."""
import json
import os
import threading

import vlib

LINE_BASE = 100000
OPEN = ("{", "(", "[", "func")
CLOSE = ("}", ")", "]")


def enc(p):
    return p[0] * LINE_BASE + p[1]


def src_starts(itok):
    """start positions of the source's tokens (white space that goes through the token path - inside calc() - has
    entries of its own, pointing at the source's white space); a comment is nothing an entry may point at"""
    return sorted({t[4] * LINE_BASE + t[5] for t in itok if t[0] != "comment"})


def events(act_tokens, entries, exp_seq=None, pos=None, import_spans=None, cand_fn=None):
    """act_tokens: the harness's re-tokenisation [k, v, start, end, line, col, text] of one output;
    entries: [dl, dc, sl, sc, name, ..] in map order; exp_seq: the reference transducer's expected tokens
    (only used when it lines up with the output's non-white-space tokens)."""
    ev = []
    nonws = [t for t in act_tokens if t[0] != "ws"]
    use_exp = exp_seq is not None and len(nonws) == len(exp_seq)
    ei = 0
    j = 0
    for t in act_tokens:
        at = (t[4], t[5])
        while ei < len(entries) and (entries[ei][0], entries[ei][1]) <= at:
            en = entries[ei]
            ev.append([2, en[0], en[1], en[2] * LINE_BASE + en[3], 1 if en[4] else 0])
            ei += 1
        text = t[6]
        nl = text.count("\n")
        tail = len(text.rsplit("\n", 1)[-1].encode("utf-16-le")) // 2
        k = t[0]
        kind = 0 if k == "ws" else 1 if k in OPEN else 2 if k in CLOSE else 3
        raw, must, own, lo, hi, cands = 1, 0, 1, 1, 0, []
        if k != "ws":
            if use_exp:
                e = exp_seq[j]
                key = tuple(e["prov"])
                raw = 1 if e["raw"] else 0
                must = 1 if (e["name"] != "none" and not (e["tok"].get("bare") and text.lower().endswith("rpx"))) else 0
                own = 1 if (key, "x") in pos else 0
                cands = sorted({enc(p) for p in cand_fn(e, pos)})
                span = (import_spans or {}).get(key)
                if span:
                    lo, hi = enc(span[0]), enc(span[1])
            j += 1
        ev.append([3, kind, nl, tail, raw, must, own, lo, hi] + cands)
    while ei < len(entries):
        en = entries[ei]
        ev.append([2, en[0], en[1], en[2] * LINE_BASE + en[3], 1 if en[4] else 0])
        ei += 1
    ev.append([4])
    return ev


def validate(items, tag="outmap", parallel=12, max_rounds=8):
    """items: list of (starts, events).  -> (accepted, rejections [{item, event_no, event}], (states, transitions))"""
    nev = sum(len(ev) for _, ev in items)
    k = min(parallel, max(1, nev // 25000))
    if k <= 1:
        return _validate(items, tag, max_rounds)
    groups = [list(range(g, len(items), k)) for g in range(k)]
    out = [None] * k

    def work(g):
        try:
            out[g] = _validate([items[i] for i in groups[g]], "%s-g%d" % (tag, g), max_rounds)
        except Exception as e:  # noqa
            out[g] = e
    ths = [threading.Thread(target=work, args=(g,)) for g in range(k)]
    for t in ths:
        t.start()
    for t in ths:
        t.join()
    acc, rej, st, tr = 0, [], 0, 0
    for g, r in enumerate(out):
        if isinstance(r, Exception):
            raise r
        a, rj, (s1, t1) = r
        acc += a
        st += s1
        tr += t1
        for x in rj:
            rej.append(dict(x, item=groups[g][x["item"]]))
    return acc, rej, (st, tr)


def _validate(items, tag, max_rounds):
    os.makedirs(vlib.WORK, exist_ok=True)
    live = list(range(len(items)))
    rejections = []
    states = trans = 0
    rounds = 0
    while live and rounds < max_rounds:
        rounds += 1
        srcs_path = os.path.join(vlib.WORK, "%s-%d-srcs.ndjson" % (tag, os.getpid()))
        trace_path = os.path.join(vlib.WORK, "%s-%d-trace.ndjson" % (tag, os.getpid()))
        owner = []
        with open(srcs_path, "w") as fs, open(trace_path, "w") as ft:
            for k, i in enumerate(live):
                st, ev = items[i]
                fs.write(json.dumps(st) + "\n")
                ft.write("[1,%d]\n" % (k + 1))
                owner.append(i)
                for e in ev:
                    ft.write(json.dumps(e, separators=(",", ":")) + "\n")
                    owner.append(i)
        res = vlib.tlc("OutMapTrace", workers=1, deque=True, timeout=1800, xmx="4g",
                       env={"VERIF_SRCS": srcs_path, "VERIF_TRACE": trace_path}, tag="REJECT", keep_cases=False)
        states += res.distinct
        trans += res.generated
        rej = None
        for line in res.lines:
            if line.startswith('<<"REJECT"'):
                rej = line
        os.remove(srcs_path)
        os.remove(trace_path)
        if res.ok and rej is None:
            break
        if rej is None:
            inv = res.violated or ""
            if "is violated" in inv:
                lval = None
                for line in res.lines:
                    if line.strip().startswith("/\\ l = "):
                        lval = int(line.strip()[7:])
                if lval is None:
                    raise vlib.ToolError("OutMapTrace: invariant violated but no l: %s" % inv)
                n = lval - 1
                i = owner[n - 1] if 0 < n <= len(owner) else live[0]
                rejections.append({"item": i, "event_no": n, "event": "invariant: " + inv})
                live.remove(i)
                continue
            raise vlib.ToolError("OutMapTrace failed: rc=%s\n%s" % (res.rc, "\n".join(res.lines[-30:])))
        body = rej[len('<<"REJECT", '):]
        d = int(body.split(",")[0])
        i = owner[d - 1]
        # position of the event inside its own trace
        first = owner.index(i)
        rejections.append({"item": i, "event_no": d - first - 1, "event": body[body.index(",") + 1:].strip().rstrip(">")})
        live.remove(i)
    if live and rounds >= max_rounds and rejections and len(rejections) >= max_rounds:
        pass        # more rejections than rounds: the rest of the traces went unexamined in this run (reported ones suffice)
    return len(items) - len(rejections), rejections, (states, trans)


def explain(ev, n):
    """what OutMap refused: the event and the write position it met"""
    line = col = 0
    pend = 0
    for e in ev[:max(0, n - 1)]:
        if e[0] == 3:
            if e[2]:
                line += e[2]
                col = e[3]
            else:
                col += e[3]
            pend = 0
        elif e[0] == 2:
            pend += 1
    e = ev[n - 1] if 0 < n <= len(ev) else None
    if e is None:
        return "event %d" % n
    if e[0] == 2:
        return "entry (generated %d:%d -> source %d:%d%s) refused at write position %d:%d" % (
            e[1], e[2], e[3] // LINE_BASE, e[3] % LINE_BASE, ", named" if e[4] else "", line, col)
    if e[0] == 3:
        return "token of kind %s at %d:%d refused with %d pending entr%s (raw=%d, must be named=%d, provenance %s)" % (
            ["white space", "opening bracket", "closing bracket", "plain"][e[1]], line, col, pend, "y" if pend == 1 else "ies",
            e[4], e[5], ["%d:%d" % (c // LINE_BASE, c % LINE_BASE) for c in e[9:]])
    return "end of output refused with %d entries describing nothing" % pend
