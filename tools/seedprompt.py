#!/usr/bin/env python3
"""Development aid (not a registered command): write the prompts of one seeding round.
    tools/seedprompt.py <round> <outdir> <worktree-root> [ID ...]
Each prompt holds the text of one property (nothing else from /verif), the path of the scratch
worktree the sub-agent owns, and the one-line ideas of the earlier rounds so that it proposes
a different one."""
import glob
import json
import os
import sys

HERE = os.path.dirname(os.path.dirname(os.path.abspath(__file__)))

T = '''You are helping test a verification suite by proposing ONE realistic faulty change ("seeded bug") to an open-source Rust code base.

Code base: wechat-miniprogram/glass-easel compilers — a git worktree of it is at {wt} (Rust workspace with two crates: glass-easel-template-compiler, the WXML template compiler: parser, stringifier, JavaScript code generator; and glass-easel-stylesheet-compiler, the WXSS stylesheet compiler). Work ONLY inside {wt}. Do not read or write anything under /repo or /verif, and do not look for other verification material on this machine; you have no network. Build/test offline with: cd {wt} && CARGO_NET_OFFLINE=true cargo test --workspace --no-fail-fast --offline  (84 tests, about 1 minute the first time).

The semantic property under test ({id}: {title}):
"""
{statement}

Quantification: {quant}
"""

Your task: make a small change to the compiler SOURCE (not to tests) in {wt} that
  1. still compiles and still passes the whole existing test suite (run it and confirm: all 84 tests pass), and
  2. BREAKS the property above for some inputs, in the way a plausible developer mistake, an over-eager optimisation or a botched refactoring would (an off-by-one, a wrong precedence level, a forgotten case, a dropped dependency, a swapped argument, a wrong default, an early return, a cache keyed too coarsely, a condition inverted for one variant ...), and
  3. needs something SPECIFIC to manifest — a particular input shape, operator combination, option combination, nesting, character class or update sequence — rather than breaking the property for nearly every input. Prefer subtle over blatant. Do not simply revert one of the recent "fix:" commits in the git history wholesale, and do not touch code guarded by cfg(glass_easel_verif).

{prior}
Then DEMONSTRATE it: write a demonstration that can be run from {wt} (for instance a small Rust test file or example you add under the crate, or a shell script driving `cargo run`/`cargo test`), which shows on a concrete input (a) the behaviour on the unmodified code (use `git stash` or a second build to get it) and (b) the different, property-violating behaviour with your change. Explain in words why (b) violates the property as stated.

Deliverables (all inside {wt}):
  - {wt}/SEED/patch.diff  : `git diff` of your source change ONLY (no demo files, no SEED directory in it), applying cleanly with `git apply` to a clean checkout of HEAD
  - {wt}/SEED/demo/       : the demonstration files and a run.sh (or instructions)
  - {wt}/SEED/meta.json   : {{"property": "{id}", "summary": "<one line>", "files": [...], "trigger": "<what input is needed to see it>", "expected_before": "...", "observed_after": "...", "tests_pass": true}}
Leave the source change applied in the worktree's working tree when you finish. While reading the code, if you notice behaviour of the UNMODIFIED code that already seems to violate the property, mention it briefly at the end as a side observation (input and what happens). In your final answer, give the summary, the trigger input, and the before/after behaviour.
'''

PRIOR = '''NOTE: other engineers already proposed the following changes for this property; propose a clearly DIFFERENT one (different part of the code base, different mechanism, different kind of trigger), and look for places the obvious tests would not think of - option combinations, unusual but legal spellings, interactions between two features, boundary sizes, repeated or empty constructs, update sequences of two or three steps, rarely used API entry points:
{items}
'''


def main():
    rnd, outdir, root = int(sys.argv[1]), sys.argv[2], sys.argv[3]
    want = sys.argv[4:]
    os.makedirs(outdir, exist_ok=True)
    props = [json.loads(l) for l in open(os.path.join(HERE, "properties.jsonl")) if l.strip()]
    prior = {}
    for m in sorted(glob.glob(os.path.join(HERE, "seeded", "*", "meta.json"))):
        meta = json.load(open(m))
        if meta.get("round", 1) < rnd:
            prior.setdefault(meta["property"], []).append(meta.get("short") or meta["summary"][:160])
    for p in props:
        if want and p["id"] not in want:
            continue
        wt = os.path.join(root, p["id"])
        items = "".join("  - %s\n" % s for s in prior.get(p["id"], []))
        text = T.format(wt=wt, id=p["id"], title=p["title"], statement=p["statement"], quant=p["quantifier"]["text"],
                        prior=PRIOR.format(items=items) if items else "")
        open(os.path.join(outdir, p["id"] + ".txt"), "w").write(text)
    print("wrote", outdir)


if __name__ == "__main__":
    main()
