"""Replay of spec/MCCss.tla cases into the real stylesheet compiler: concretise the abstract sheet,
transform it, re-tokenise both outputs with cssparser and compare with the reference transducer's
token sequences, gap requirements, numbers, provenance (source maps) and warnings."""
import json
from fractions import Fraction

import outmap
import vlib

POOL = {1: "0", 2: "2", 3: "75", 4: "50", 5: "0.3", 6: "7", 7: "750", 8: "-75", 9: "+75", 10: ".5", 11: "1.5", 12: "1e3", 13: "999999",
        14: "1000000", 15: "1000001", 16: "16777215", 17: "16777217", 18: "2147483647", 19: "-2147483648", 20: "0.1", 21: "1e-7",
        22: "1.234567", 23: "100.5", 24: "33.3333333", 25: "+.5", 26: "-0", 27: "+26", 28: "1E2", 29: "2", 30: "+1", 31: "1e37", 32: "3000000000", 33: "-99999999999", 34: "+0"}
PLACEHOLDERS = {"~E~": "é", "~Z~": "字", "~M~": "😀", "~L~": "«", "~R~": "»", "~B~": "\ufeff", "~N~": "\u00a0", "~I~": "\u3000", "~T~": "\t"}
F32_EPS = Fraction(1, 2 ** 23)
F32_MAX = Fraction(2 ** 128 - 2 ** 104)


def spell_unit(u, escaped=False):
    """a unit that would read as an exponent after the number (e5, E-2, e) is spelled with its first letter escaped; with
    `escaped`, every unit of the sheet has one letter written as an escape (the tokenizer resolves it: `r\\70x` is rpx)"""
    import re
    if re.match(r"^[eE]([0-9-]|$)", u):
        return "\\%x " % ord(u[0]) + u[1:]
    if escaped and len(u) >= 2 and u.isalpha():
        return u[0] + "\\%x " % ord(u[1]) + u[2:]
    return u


def unplace(obj):
    s = json.dumps(obj)
    for k, v in PLACEHOLDERS.items():
        s = s.replace(k, json.dumps(v)[1:-1])
    return json.loads(s)


def num_value(spelling):
    s = spelling.lower()
    return Fraction(s) if "e" not in s else Fraction(s.split("e")[0] if s.split("e")[0] not in ("", "+", "-") else s.split("e")[0] + "0") * Fraction(10) ** int(s.split("e")[1])


def is_int_spelling(sp):
    s = sp.lstrip("+-")
    return s.isdigit()


class Concretiser:
    def __init__(self, rnd, multiline=True):
        self.rnd = rnd
        self.out = []
        self.line = 0
        self.col = 0
        self.pos = {}
        self.multiline = multiline
        self.escape_units = rnd.random() < 0.12      # a sheet in which no unit is written plainly
        self.caps_rpx = rnd.choice(["RPX", "Rpx", "rPX"]) if rnd.random() < 0.12 else None   # units are ASCII case-insensitive

    def emit(self, s):
        self.out.append(s)
        for ch in s:
            if ch == "\n":
                self.line += 1
                self.col = 0
            else:
                self.col += 2 if ord(ch) >= 0x10000 else 1

    def mark(self, key):
        self.pos[key] = (self.line, self.col)

    def ws(self, w):
        if w:
            choices = [" ", " ", "  ", "\t"] + (["\n", "\n  ", " /* c */ ", " /*é😀*/\n", " /*a*//*b*/", "/*a*/ /*😀*//**/ ", "\n/*a*//* b\n*/"]
                                                if self.multiline else [" /* c */ ", " /*a*//*b*/"])
            self.emit(self.rnd.choice(choices))
        elif self.rnd.random() < 0.1:
            # comments without white space: one, or several in a row (each must be skipped before the token's position is taken)
            self.emit(self.rnd.choice(["/**/", "/**/", "/*a*//*b*/", "/*é*//*😀*//**/"]))

    def free_ws(self, p=0.3):
        """optional whitespace where the abstract syntax does not care (before `{`, after `{`, around `:`/`;`)"""
        if self.rnd.random() < p:
            self.emit(self.rnd.choice([" ", "\n", "  "] if self.multiline else [" "]))

    def ident(self, v):
        """an identifier token with the escapes its value needs (`sm:flex` -> `sm\:flex`, `10px` -> `\31 0px`)"""
        out = []
        for i, ch in enumerate(v):
            if ch.isascii() and ch.isdigit() and (i == 0 or (i == 1 and v[0] == "-")):
                out.append("\\%x " % ord(ch))
            elif ch.isalnum() or ch in "-_" or ord(ch) >= 0x80:
                out.append(ch)
            else:
                out.append("\\" + ch)
        return "".join(out)

    def string(self, v):
        q = self.rnd.choice(['"', "'"])
        body = v.replace("\\", "\\\\").replace(q, "\\" + q)
        return q + body + q

    def url(self, v):
        body = "".join("\\9 " if c == "\t" else "\\" + c if c in " ()'\"\\" else c for c in v)
        return "url(" + body + ")"

    def tok(self, t):
        self.ws(t["w"])
        key = tuple(t["id"])
        self.mark((key, "t"))
        k = t["k"]
        if k in ("func", "paren", "brack", "curly"):
            self.emit({"func": t["v"] + "(", "paren": "(", "brack": "[", "curly": "{"}[k])
            self.toks(t["a"])
            self.free_ws(0.2)
            self.mark((key, "x"))
            self.emit({"brack": "]", "curly": "}"}.get(k, ")"))
            return
        if k == "ident":
            self.emit(self.ident(t["v"]))
        elif k == "delim":
            self.emit(t["v"])
        elif k == "idhash" or k == "hash":
            self.emit("#" + self.ident(t["v"]))
        elif k == "colon":
            self.emit(":")
        elif k == "comma":
            self.emit(",")
        elif k == "semi":
            self.emit(";")
        elif k == "string":
            self.emit(self.string(t["v"]))
        elif k == "url":
            self.emit(self.url(t["v"]))
        elif k == "dim":
            if t["unit"] == "rpx" and self.caps_rpx:
                self.emit(POOL[t["n"]] + self.caps_rpx)
            else:
                self.emit(POOL[t["n"]] + spell_unit(t["unit"], self.escape_units))
        elif k == "num":
            self.emit(POOL[t["n"]])
        elif k == "pct":
            self.emit(POOL[t["n"]] + "%")
        else:
            raise vlib.ToolError("css concretiser: token kind %r" % k)

    def toks(self, ts):
        for t in ts:
            self.tok(t)

    def decls(self, ds):
        for d in ds:
            self.free_ws()
            key = tuple(d["id"])
            self.mark((key, "t"))
            self.emit(d["p"])
            self.free_ws(0.2)
            self.mark((key, "c"))
            self.emit(":")
            self.toks(d["v"])
            self.free_ws(0.2)
            if d["semi"]:
                self.mark((key, "s"))
                self.emit(";")
        self.free_ws()

    def block_open(self, key):
        self.free_ws(0.4)
        self.mark((key, "o"))
        self.emit("{")

    def block_close(self, key):
        self.mark((key, "x"))
        self.emit("}")
        self.free_ws(0.4)

    def items(self, its):
        for it in its:
            self.item(it)

    def item(self, it):
        key = tuple(it["id"])
        t = it["t"]
        if t == "rule":
            self.toks(it["sel"])
            self.block_open(key)
            self.decls(it["decls"])
            self.block_close(key)
        elif t == "at":
            self.mark((key, "t"))
            self.emit("@" + it["name"])
            self.toks(it["pre"])
            if it["kind"] == "stmt":
                self.mark((key, "s"))
                self.emit(";")
                self.free_ws(0.4)
                return
            self.block_open(key)
            if it["kind"] == "rules":
                self.items(it["body"])
            elif it["kind"] == "decls":
                self.decls(it["body"])
            else:
                for f in it["body"]:
                    fk = tuple(f["id"])
                    self.free_ws()
                    self.toks(f["sel"])
                    self.block_open(fk)
                    self.decls(f["decls"])
                    self.block_close(fk)
            self.block_close(key)
        elif t == "import":
            self.mark((key, "t"))
            self.emit("@IMPORT " if it["form"] == "STRING" else "@import ")
            self.mark((key, "p"))
            if it["form"] == "URLSTR":
                self.emit("Url(" + self.rnd.choice(["", " "]) + self.string(it["path"]) + self.rnd.choice(["", " "]) + ")")
            else:
                self.emit(self.url(it["path"]) if it["form"] == "url" else self.string(it["path"]))
            caps = it["form"] == "STRING"
            if it["layer"] != "none":
                kw = "LAYER" if caps else "layer"
                name = it["layer"] + ("." + it["sub"] if it.get("sub") else "")
                self.emit(" " + kw if it["layer"] == "" else " %s(%s)" % (kw, name))
            if it["supports"]:
                self.emit(" SUPPORTS(" if caps else " supports(")
                self.toks(it["supports"])
                self.emit(")")
            self.toks(it["media"])
            if it.get("semi", True):
                self.mark((key, "s"))
                self.emit(";")
            elif self.rnd.random() < 0.5:
                self.emit(self.rnd.choice([" ", "\n", " /* end */"]))
            self.mark((key, "e"))
            self.free_ws(0.4)

    def text(self):
        return "".join(self.out)


def concretise(sheet, rnd, multiline=True):
    c = Concretiser(rnd, multiline)
    c.items(sheet)
    return c.text(), c.pos


def opts_json(o, ratio):
    r = {"rpx_ratio": ratio, "convert_host": bool(o["host"])}
    if o["prefix"] != "none":
        r["class_prefix"] = o["prefix"]
    if o["sign"] != "none":
        r["class_prefix_sign"] = o["sign"]
    if o["hostIs"] != "none":
        r["host_is"] = o["hostIs"]
    if o["importSign"] != "none":
        r["import_sign"] = o["importSign"]
    return r


def flat(tokens):
    """re-tokenised output -> non-whitespace tokens with ws_before"""
    out = []
    ws = False
    for t in tokens:
        if t[0] == "ws":
            ws = True
            continue
        out.append({"k": t[0], "v": t[1], "ws": ws, "start": t[2], "col": t[5], "line": t[4], "text": t[6]})
        ws = False
    return out


def percent_decode(s):
    from urllib.parse import unquote
    return unquote(s)


def tok_matches(exp, act, ratio, findings, where):
    """kind/value comparison of one expected token against one actual token; numbers per C10"""
    k = exp["k"]
    ak = act["k"]
    if k in ("dim", "num", "pct"):
        if ak != k:
            if exp.get("conv") and ak in ("num", "pct"):
                # a converted length is a length in vw whatever its value (C10): `0rpx` is `0vw`, not the number 0
                findings.append(("numbers", where, "rpx dimension %s emitted as a %s token, not a dimension in vw: %s" % (POOL[exp["n"]], ak, act["text"])))
            return "kind %s vs %s" % (k, ak)
        sp = POOL[exp["n"]]
        vin = num_value(sp)
        v = act["v"]
        got = Fraction(v["v"]) if not isinstance(v["v"], str) else None
        if exp.get("conv") and abs(vin * 100 / Fraction(ratio)) > F32_MAX:
            return None          # the converted length is beyond single precision: no value to compare with
        if got is None:
            return "non-finite number"
        if exp.get("conv"):
            want = vin * 100 / Fraction(ratio)
            if exp.get("bare") and (v.get("unit") or "").lower() == "rpx":
                findings.append(("numbers:bare-prelude", where, "%srpx standing bare in an at-rule prelude is not converted: %s" % (sp, act["text"])))
                return None
            if (v.get("unit") or "") != "vw":
                findings.append(("numbers", where, "rpx dimension %s emitted with unit %r" % (sp, v.get("unit"))))
            tol = abs(want) * F32_EPS * 2
            if abs(got - want) > tol:
                cls = "six-digit" if abs(got - want) <= abs(want) * Fraction(51, 10 ** 7) else "wrong"
                findings.append(("numbers:" + cls, where, "%srpx at ratio %s emitted as %s, expected %s" % (sp, ratio, act["text"], float(want))))
            if (want < 0) != (got < 0) and want != 0:
                findings.append(("numbers", where, "sign of %srpx lost: %s" % (sp, act["text"])))
        else:
            unit = exp.get("unit", "")
            aunit = v.get("unit") or ("%" if k == "pct" else "")
            if k == "dim" and aunit != unit:
                return "unit %r vs %r" % (unit, aunit)
            if k == "pct":
                got = got * 100
            if sp.startswith("+") and v.get("sign") is False:
                # an explicit sign is part of the token (has_sign) and of the An+B micro-syntax (`2n +0` / `2n 0`)
                findings.append(("numbers", where, "the explicit sign of %s%s is lost: %s" % (sp, unit, act["text"])))
                return "signed number %s%s written without its sign (%r)" % (sp, unit, act["text"])
            if is_int_spelling(sp) and -2 ** 31 <= vin < 2 ** 31:
                # integers are preserved *as tokens*: the re-tokenised output must be the same integer
                ai = v.get("int")
                if ai is not None:
                    got = Fraction(ai)
                if ai is None or got != vin:
                    findings.append(("numbers:int", where, "integer %s%s emitted as %s" % (sp, unit, act["text"])))
            else:
                tol = abs(vin) * F32_EPS * 2
                if abs(got - vin) > tol:
                    cls = "six-digit" if abs(got - vin) <= abs(vin) * Fraction(51, 10 ** 7) else "wrong"
                    findings.append(("numbers:" + cls, where, "number %s%s emitted as %s" % (sp, unit, act["text"])))
        return None
    kmap = {"colon": "colon", "comma": "comma", "semi": "semi", "ident": "ident", "delim": "delim", "idhash": "idhash", "hash": "hash",
            "string": "string", "url": "url", "func": "func", "at": "at", "comment": "comment",
            "(": "(", "[": "[", "{": "{", ")": ")", "]": "]", "}": "}"}
    if k == "importcomment":
        if ak != "comment":
            return "expected the import placeholder comment, got %s %r" % (ak, act["text"])
        body = act["v"]
        want_prefix = exp["sign"] + " "
        if not body.startswith(want_prefix):
            findings.append(("import", where, "placeholder %r does not start with the sign %r" % (body, exp["sign"])))
        elif percent_decode(body[len(want_prefix):]) != exp["path"]:
            findings.append(("import", where, "placeholder decodes to %r, the import path is %r" % (percent_decode(body[len(want_prefix):]), exp["path"])))
        if "*/" in body:
            findings.append(("import", where, "placeholder body contains */"))
        return None
    if kmap.get(k) != ak:
        # hash vs idhash: both spell `#v`; equal value is what matters
        if {k, ak} == {"hash", "idhash"} and exp.get("v") == act["v"]:
            return None
        return "kind %s vs %s (%r)" % (k, ak, act["text"])
    if k in ("ident", "delim", "idhash", "hash", "string", "url", "func", "at", "comment"):
        if exp.get("v") != act["v"]:
            return "%s %r vs %r" % (k, exp.get("v"), act["v"])
    return None


def compare_output(exp_seq, act_tokens, ratio, which):
    """-> findings [(aspect, where, message)], and index alignment ok flag"""
    findings = []
    act = flat(act_tokens)
    n = min(len(exp_seq), len(act))
    for i in range(n):
        e = exp_seq[i]
        a = act[i]
        where = "%s[%d]" % (which, i)
        m = tok_matches(e["tok"], a, ratio, findings, where)
        if m is not None:
            aspect = "prefix" if (e["name"] != "none" and e["tok"]["k"] == "ident") or (a["k"] == "ident" and e["tok"]["k"] == "ident") else "tokens"
            ctx = " ".join(x["text"] for x in act[max(0, i - 3):i + 3])
            findings.append((aspect, where, "token %d: %s; output around: %s" % (i, m, ctx)))
            return findings, False
        if e["gap"] == "req" and not a["ws"]:
            findings.append(("gaps", where, "meaningful whitespace lost before %r: ...%s" % (a["text"], "".join(x["text"] for x in act[max(0, i - 3):i + 1]))))
        if e["gap"] == "forbid" and a["ws"]:
            findings.append(("gaps", where, "whitespace inserted before %r where the source had none: it changes the meaning" % a["text"]))
    if len(exp_seq) != len(act):
        findings.append(("tokens", "%s[%d]" % (which, n), "%d tokens expected, %d emitted; next expected %s, next emitted %s" % (
            len(exp_seq), len(act), json.dumps(exp_seq[n]["tok"]) if n < len(exp_seq) else "-", act[n]["text"] if n < len(act) else "-")))
        return findings, False
    return findings, True


def expected_src_positions(e, pos):
    """acceptable source positions for the source-map entry of an expected output token: the start of the input
    token it was copied / rewritten from; a closing bracket may point at its opening bracket; punctuation of a
    declaration / rule / at-rule at its own place; a synthesised token anywhere on the construct that triggered it"""
    key = tuple(e["prov"])
    k = e["tok"]["k"]
    roles = {"colon": ["c"], "semi": ["s"], "{": ["o"], "}": ["x", "o"], ")": ["x", "t"], "]": ["x", "t"]}.get(k, ["t"])
    if k == "}" and (key, "o") not in pos:
        roles = ["x", "t"]           # a {..} block inside a value: its opening bracket is the token's own start
    cands = [pos[(key, r)] for r in roles if (key, r) in pos]
    if not cands or (k in ("[", "]", "ident", "delim", "string", "comma", "at", "(", ")", "importcomment") and (key, "o") in pos):
        cands += [p for (kk, r), p in pos.items() if kk == key]
    return cands


def check_srcmap(exp_seq, act_tokens, entries, pos, which, import_spans, name_checks=None):
    findings = []
    act = flat(act_tokens)
    if len(act) != len(exp_seq):
        return findings      # token-level mismatch is reported elsewhere
    by_col = {}
    prev = (-1, -1)
    for en in entries:
        dl, dc, sl, sc, name, _ = en
        if (dl, dc) < prev:
            findings.append(("srcmap", which, "entries out of order at generated column %d" % dc))
        prev = (dl, dc)
        by_col.setdefault((dl, dc), []).append(en)
    stack = []          # open brackets of the output: the source positions their entries point at (None: not mapped)
    for e, a in zip(exp_seq, act):
        tk = e["tok"]["k"]
        is_open = tk in ("{", "(", "[", "func")
        is_close = tk in ("}", ")", "]")
        if e["raw"]:
            if is_open:
                stack.append(None)
            elif is_close and stack:
                stack.pop()
            continue
        ens = by_col.get((a["line"], a["col"]))
        if not ens:
            findings.append(("srcmap", which, "no entry at the generated column %d of token %r" % (a["col"], a["text"])))
            if is_open:
                stack.append(None)
            elif is_close and stack:
                stack.pop()
            continue
        cands = expected_src_positions(e, pos)
        key = tuple(e["prov"])
        span = import_spans.get(key)
        opener = None
        if is_open:
            stack.append([(en[2], en[3]) for en in ens])
        elif is_close and stack:
            opener = stack.pop()
        ok = False
        for en in ens:
            p = (en[2], en[3])
            if p in cands or (span and span[0] <= p <= span[1]):
                ok = True
        if ok and is_close and opener and (key, "x") not in pos:
            # a closing bracket without a place of its own in the source (synthesised by a rewrite) points at ITS opening
            # bracket - the one it closes in the output, not another block's
            if not any((en[2], en[3]) in opener for en in ens):
                ok = False
                cands = opener
        if not ok and cands:
            findings.append(("srcmap", which, "token %r at column %d maps to source %s, its source construct is at %s" % (
                a["text"], a["col"], [(en[2], en[3]) for en in ens], cands)))
        if e["name"] != "none" and not (e["tok"].get("bare") and a["text"].lower().endswith("rpx")):
            # (a bare prelude length that was not converted is not a rewritten token: reported under C10)
            names = [en[4] for en in ens]
            if not any(nm for nm in names):
                findings.append(("srcmap", which, "rewritten token %r carries no name (original spelling)" % a["text"]))
            elif name_checks is not None:
                # the name must SPELL the source token: read as CSS it is that token again
                nen = [en for en in ens if en[4]][0]
                name_checks.append((which, a["text"], nen[4], e, (nen[2], nen[3])))
    return findings


def evaluate(cases, rnd, ratios=(750,), multiline=True, variants=1, trace=None):
    """cases: MCCss CASE records.  -> list of {case, src, opts, findings: [(aspect, where, msg)], panic}
    trace: a dict; when given, both outputs of every case are also validated as traces against spec/OutMapTrace.tla
    (rejections become `srcmap` findings) and the dict receives the counts"""
    units = []
    for ci, c0 in enumerate(cases):
        c = unplace(c0)
        for v in range(variants):
            for ratio in ratios:
                src, pos = concretise(c["sheet"], rnd, multiline)
                units.append({"ci": ci, "case": c, "src": src, "pos": pos, "ratio": ratio, "opts": opts_json(c["opt"], ratio)})
    vres = vlib.run_vh("css", [{"id": i, "src": u["src"], "opts": u["opts"]} for i, u in enumerate(units)])
    # micro-syntax oracle (C08): the value of every unicode-range descriptor must denote the same range before and
    # after, by cssparser's own UnicodeRange parser (an input the parser rejects has nothing to preserve)
    import re
    ur = re.compile(r"unicode-range\s*:([^;}]*)")
    uq = []
    for i, (u, r) in enumerate(zip(units, vres)):
        if "unicode-range" in u["src"] and not r.get("panic"):
            a = ur.findall(u["src"])
            b = ur.findall(r.get("normal") or "")
            if a and len(a) == len(b):
                for x, y in zip(a, b):
                    for part_in, part_out in zip(x.split(","), y.split(",")) if x.count(",") == y.count(",") else [(x, y)]:
                        uq.append((i, part_in.strip(), part_out.strip()))
    ures = vlib.run_vh("css", [{"id": k, "urange": t} for k, (_, a, b) in enumerate(uq) for t in (a, b)], jobs=1) if uq else []
    urange_findings = {}
    for k, (i, a, b) in enumerate(uq):
        ra, rb = ures[2 * k].get("urange"), ures[2 * k + 1].get("urange")
        if ra is not None and ra != rb:
            urange_findings.setdefault(i, []).append(("urange", "normal", "unicode-range %r denotes %s, the output %r denotes %s" % (
                a, "U+%X-%X" % tuple(ra), b, ("U+%X-%X" % tuple(rb)) if rb else "nothing (not a valid range)")))
    out = []
    pending_names = []
    titems = []          # (starts, events) per output, for OutMapTrace
    towner = []
    for ui, (u, r) in enumerate(zip(units, vres)):
        c = u["case"]
        rec = {"case": u["ci"], "src": u["src"], "opts": u["opts"], "findings": [], "panic": r.get("panic") or [], "normal": r.get("normal"), "low": r.get("low")}
        out.append(rec)
        if rec["panic"]:
            continue
        rec["findings"] += urange_findings.get(ui, [])
        f1, ok1 = compare_output(c["normal"], r["ntok"], u["ratio"], "normal")
        f2, ok2 = compare_output(c["low"], r["ltok"], u["ratio"], "low")
        rec["findings"] += f1 + f2
        # warnings
        want = sorted(w["kind"] for w in c["warn"] if not w["kind"].endswith("?"))
        optional = [w["kind"][:-1] for w in c["warn"] if w["kind"].endswith("?")]
        names = {0x10001: "UnexpectedCharacter", 0x10002: "IllegalImportPosition", 0x10003: "HostSelectorCombination"}
        got = sorted(names.get(w[0], str(w[0])) for w in r["warn"])
        rest = list(got)
        missing = []
        for k in want:
            if k in rest:
                rest.remove(k)
            else:
                missing.append(k)
        for k in optional:
            if k in rest:
                rest.remove(k)
        if missing or rest:
            rec["findings"].append(("warnings", "warn", "warnings %s, expected %s (optional %s)" % (got, want, optional)))
        else:
            # where each diagnostic points (CssRewrite!Warn): an empty location inside the source text, at the place the
            # specification names for the item it is about
            lines = u["src"].split("\n")
            used = set()
            for w in r["warn"]:
                kind = names.get(w[0], str(w[0]))
                loc = ((w[2], w[3]), (w[4], w[5]))
                bad = None
                for q in loc:
                    if q[0] >= len(lines) or q[1] > len(lines[q[0]].encode("utf-16-le")) // 2:
                        bad = "location %s lies outside the source text" % (loc,)
                if not bad and loc[0] > loc[1]:
                    bad = "location %s ends before it starts" % (loc,)
                if not bad:
                    hit = None
                    for xi, x in enumerate(c["warn"]):
                        if xi in used or x["kind"].rstrip("?") != kind or "where" not in x:
                            continue
                        key, frm = tuple(x["id"]), tuple(x["from"])
                        if x["where"] == "afterkeyword":
                            t = u["pos"].get((frm, "t"))
                            okp = t is not None and loc[0] == (t[0], t[1] + 7) and loc[1] == loc[0]
                        else:
                            a, b = u["pos"].get((frm, "t")), u["pos"].get((key, "o"))
                            okp = a is not None and b is not None and a <= loc[0] <= loc[1] <= b
                        if okp:
                            hit = xi
                            break
                    if hit is None:
                        bad = "%s at %s: not at the place of any item the specification flags (%s)" % (
                            kind, loc, [(x["kind"], x.get("where"), u["pos"].get((tuple(x.get("from", ())), "t"))) for x in c["warn"]])
                    else:
                        used.add(hit)
                if bad:
                    rec["findings"].append(("warnings", "warnpos", bad))
        # source maps
        spans = {}
        for (key, role), p in u["pos"].items():
            if role == "e":
                spans[key] = (u["pos"][(key, "t")], p)
        nchecks = []
        if ok1:
            rec["findings"] += check_srcmap(c["normal"], r["ntok"], r["nmap"], u["pos"], "normal", spans, nchecks)
        if ok2:
            rec["findings"] += check_srcmap(c["low"], r["ltok"], r["lmap"], u["pos"], "low", spans, nchecks)
        ipos = {(t[4], t[5]): t for t in r.get("itok", [])}
        for x in nchecks:
            pending_names.append((rec, x + (ipos.get(x[4]),)))
        if trace is not None and "itok" in r:
            starts = outmap.src_starts(r["itok"])
            for which, okx, tk, mp in (("normal", ok1, "ntok", "nmap"), ("low", ok2, "ltok", "lmap")):
                titems.append((starts, outmap.events(r[tk], r[mp], c[which] if okx else None, u["pos"], spans, expected_src_positions)))
                towner.append((rec, which))
        if not r.get("map_rt", True):
            rec["findings"].append(("srcmap", "json", "source map does not survive its JSON serialisation"))
        # the input itself must tokenise to the abstract sheet (sanity of the concretiser)
    if titems:
        cap = 12000
        if len(titems) > cap:
            # (thorough tier: trace validation runs at about 15 000 events a second and TLC run; a seeded sample of the traces)
            pick = sorted(rnd.sample(range(len(titems)), cap))
            titems = [titems[i] for i in pick]
            towner = [towner[i] for i in pick]
            trace["sampled"] = trace.get("sampled", 0) + 1
        acc, rej, (st, tr) = outmap.validate(titems)
        trace["traces"] = trace.get("traces", 0) + len(titems)
        trace["accepted"] = trace.get("accepted", 0) + acc
        trace["events"] = trace.get("events", 0) + sum(len(ev) + 1 for _, ev in titems)
        trace["states"] = trace.get("states", 0) + st
        trace["transitions"] = trace.get("transitions", 0) + tr
        for x in rej:
            rec, which = towner[x["item"]]
            rec["findings"].append(("srcmap", which, "OutMapTrace refuses the output's trace at event %d: %s" % (
                x["event_no"], outmap.explain(titems[x["item"]][1], x["event_no"]))))
    if pending_names:
        uniq = sorted({x[2] for _, x in pending_names})
        tk = {n: r_.get("tok") for n, r_ in zip(uniq, vlib.run_vh("css", [{"id": i, "tokenize": n} for i, n in enumerate(uniq)], jobs=2))}
        for rec, (which, text, name, e, spos, stok) in pending_names:
            toks = [t for t in (tk.get(name) or []) if t[0] != "ws"]
            ok = len(toks) == 1
            if ok and e["name"] == "rpx":
                ok = toks[0][0] == "dim" and str((toks[0][1] or {}).get("unit", "")).lower() == "rpx"
                if ok and stok is not None and stok[0] == "dim":
                    # "the original spelling": read as CSS the name is the source token again - the same value, the same
                    # unit letter for letter (75RPX is not 75rpx), the same explicit sign
                    a_, b_ = toks[0][1], stok[1]
                    if (a_.get("unit"), a_.get("sign")) != (b_.get("unit"), b_.get("sign")) or a_.get("v") != b_.get("v"):
                        rec["findings"].append(("srcmap:name-respelled", which, "the name %r of the rewritten token %r is not the source token %r (unit %r / %r, value %r / %r)" % (
                            name, text, stok[6], a_.get("unit"), b_.get("unit"), a_.get("v"), b_.get("v"))))
            elif ok:
                ok = toks[0][0] == "ident" and toks[0][1] == e["name"]
            if not ok:
                rec["findings"].append(("srcmap", which, "the name %r of the rewritten token %r does not spell its source token (%s)" % (
                    name, text, "an rpx length" if e["name"] == "rpx" else "the identifier %r" % e["name"])))
    return out
