"""Trace validation of the template compiler's binding-map collectors against spec/BindMapTrace.tla (C07).

A trace is what the cfg-guarded hook in binding_map.rs recorded while one group was parsed and emitted: every
add_field (with the slot it handed out), disable_field, disable_all and list_fields (with what it yielded), per collector.
TLC replays the calls through BindMap's operators: each slot handed out and each listing must be the specification's."""
import json
import os

import vlib


def validate(traces, tag="bindmap", max_rounds=6):
    """traces: list of event lists (one per compiled group).  -> (accepted, rejections [{item, event_no, event}], (states, transitions))"""
    os.makedirs(vlib.WORK, exist_ok=True)
    live = [i for i, t in enumerate(traces) if t]
    rejections = []
    states = trans = 0
    rounds = 0
    while live and rounds < max_rounds:
        rounds += 1
        path = os.path.join(vlib.WORK, "%s-%d-trace.ndjson" % (tag, os.getpid()))
        owner = []
        with open(path, "w") as ft:
            for i in live:
                ft.write("[0]\n")
                owner.append(i)
                for e in traces[i]:
                    ft.write(json.dumps(e, separators=(",", ":")) + "\n")
                    owner.append(i)
        res = vlib.tlc("BindMapTrace", workers=1, deque=True, timeout=1800, xmx="4g", env={"VERIF_TRACE": path}, tag="REJECT", keep_cases=False)
        states += res.distinct
        trans += res.generated
        rej = None
        for line in res.lines:
            if line.startswith('<<"REJECT"'):
                rej = line
        os.remove(path)
        if res.ok and rej is None:
            break
        if rej is None:
            raise vlib.ToolError("BindMapTrace failed: rc=%s\n%s" % (res.rc, "\n".join(res.lines[-30:])))
        body = rej[len('<<"REJECT", '):]
        d = int(body.split(",")[0])
        i = owner[d - 1]
        first = owner.index(i)
        rejections.append({"item": i, "event_no": d - first - 1, "event": body[body.index(",") + 1:].strip().rstrip(">")})
        live.remove(i)
    return len([t for t in traces if t]) - len(rejections), rejections, (states, trans)


def explain(trace, n):
    """the rejected event, and the calls made before it on the same collector and field"""
    if not (0 < n <= len(trace)):
        return "event %d" % n
    e = trace[n - 1]
    names = {1: "new", 2: "add_field", 3: "disable_field", 4: "disable_all", 5: "list_fields"}
    hist = []
    for x in trace[:n - 1]:
        if x[1] != e[1]:
            continue
        if x[0] in (2, 3) and (e[0] == 5 or (len(e) > 2 and x[2] == e[2])):
            hist.append("%s(%s)%s" % (names[x[0]], x[2], (" -> %s" % x[3]) if x[0] == 2 else ""))
        elif x[0] == 4:
            hist.append("disable_all")
    what = "%s%s" % (names.get(e[0], e[0]), "(%s) -> %s" % (e[2], e[3]) if e[0] == 2 else (" -> %s" % json.dumps(e[2]) if e[0] == 5 else ""))
    return "%s on collector %d is not what BindMap gives after %s" % (what, e[1], ", ".join(hist[-8:]) or "nothing")
