"""Replay of WxmlSem / Instance behaviours into the real compiler + reference runtime."""
import json

import concretise
import vlib


def prefix_files(files, pre):
    out = []
    for f in files:
        out.append(dict(f, path=pre + f["path"]))
    return out


def case_scripts(case):
    """external scripts of a case: given explicitly, or implied by `<wxs src>` entries of its files"""
    out = list(case.get("scripts", []))
    for f in case["files"]:
        for w in f.get("wxs", []):
            key = w.get("key", w.get("src"))          # `key`: the path the spelling `src` resolves to
            if "src" in w and not any(p == key for p, _ in out):
                out.append([key, concretise.wxs_source(w["members"], concretise.FN_TABLE)])
    return out


def case_post_ops(case, pre=""):
    """group operations applied after the files were added: inline modules set by name afterwards"""
    ops = []
    for f in case["files"]:
        for w in f.get("wxs", []):
            if w.get("late") or w.get("reset"):
                # late: a module the source does not hold; reset: the content of a module of the source, set again as it is
                ops.append(["set_inline", pre + f["path"], w["n"], concretise.wxs_source(w["members"], concretise.FN_TABLE)])
    return ops


def build_sources(case, rnd, nvariants, plain_first=True):
    """-> list of (variant_no, [(path, text)], scripts)"""
    out = []
    for v in range(nvariants):
        c = concretise.Concretiser(rnd, plain=(v == 0 and plain_first))
        srcs = [(f["path"], c.file(f, concretise.FN_TABLE)) for f in case["files"]]
        out.append((v, srcs))
    return out


def replay(cases, rnd, nvariants=2, chunk=150, want_extra=None, main="a", jobs=None, units=None, prefix=True, dev=False, incremental=False):
    """cases: [{files, data, tree, steps?, scripts?}] (spec JSON).  Returns a list of records
    {case, variant, sources, problems, panic, warn, bkeys} — one per (case, variant).
    `units` (optional): pre-built [{ci, v, srcs}] instead of fresh concretisations."""
    if units is None:
        units = []
        for ci, case in enumerate(cases):
            for v, srcs in build_sources(case, rnd, nvariants):
                units.append({"ci": ci, "v": v, "srcs": srcs})
    if not prefix:
        chunk = 1          # absolute references need the group root: one group per unit, no path prefix
    chunks = [units[i:i + chunk] for i in range(0, len(units), chunk)]
    vcases = []
    for k, ch in enumerate(chunks):
        files = []
        scripts = []
        post = []
        for ui, u in enumerate(ch):
            pre = ("u%d/" % ui) if prefix else ""
            u["pre"] = pre
            for p, t in u["srcs"]:
                files.append([pre + p, t])
            for p, t in case_scripts(cases[u["ci"]]):
                scripts.append([pre + p, t])
            post += case_post_ops(cases[u["ci"]], pre)
        vcases.append({"id": k, "files": files, "scripts": scripts, "post_ops": post, "dev": dev, "want": ["groups"] + (want_extra or [])})
    vres = vlib.run_vh("tmpl", vcases, jobs=jobs)
    # a panic or an unparsable bundle must not hide the rest of its chunk: retry such chunks unit by unit
    retry = []
    for k, (ch, r) in enumerate(zip(chunks, vres)):
        if r["panic"] and len(ch) > 1:
            retry.append(k)
    if retry:
        new_chunks = []
        new_vcases = []
        for k in retry:
            for u in chunks[k]:
                files = [[u["pre"] + p, t] for p, t in u["srcs"]]
                scripts = [[u["pre"] + p, t] for p, t in case_scripts(cases[u["ci"]])]
                new_chunks.append([u])
                new_vcases.append({"id": len(chunks) + len(new_chunks), "files": files, "scripts": scripts, "dev": dev,
                                   "post_ops": case_post_ops(cases[u["ci"]], u["pre"]), "want": ["groups"] + (want_extra or [])})
        nres = vlib.run_vh("tmpl", new_vcases, jobs=jobs)
        chunks = [c for k, c in enumerate(chunks) if k not in retry] + new_chunks
        vres = [r for k, r in enumerate(vres) if k not in retry] + nres
    jobs_ = []
    records = []
    for ch, r in zip(chunks, vres):
        warn_by_path = {w["path"]: (w["w"] or []) for w in r["warn"]}
        if r["panic"]:
            for u in ch:
                records.append({"case": u["ci"], "variant": u["v"], "sources": u["srcs"], "panic": r["panic"],
                                "problems": [], "warn": [], "skipped": True})
            continue
        jcases = []
        for ui, u in enumerate(ch):
            c = cases[u["ci"]]
            jcases.append({"id": len(records), "path": u["pre"] + c.get("main", main), "data": c["data"], "tree": c.get("tree"),
                           "steps": c.get("steps", []), "tmpl": c.get("tmpl", ""), "paths": c.get("paths", False), "mergeText": c.get("mergeText", False),
                           "pre": u["pre"], "dev": dev})
            ws = []
            for p, _ in u["srcs"]:
                ws += warn_by_path.get(u["pre"] + p, [])
            records.append({"case": u["ci"], "variant": u["v"], "sources": u["srcs"], "panic": [], "problems": None,
                            "warn": ws, "vh": r if want_extra else None, "pre": u["pre"]})
        # incremental: the bundle assembled from per-file objects, each generated when its file was added (want_extra holds "incrgroups")
        jobs_.append({"bundle": r["incrgroups"] if incremental else r["groups"], "fns": concretise.FN_TABLE, "cases": jcases})
    nres = vlib.run_node("drive_tmpl.js", jobs_, jobs=min(vlib.NCPU, max(1, len(jobs_))), timeout=3000)
    for job, r in zip(jobs_, nres):
        if r["errors"]:
            for jc in job["cases"]:
                records[jc["id"]]["problems"] = [{"step": -1, "what": "bundle does not evaluate", "msg": r["errors"][0]["msg"]}]
            continue
        for jr in r["results"]:
            rec = records[jr["id"]]
            rec["problems"] = jr["problems"]
            rec["bkeys"] = jr.get("bkeys")
            rec["bmDisabled"] = jr.get("bmDisabled")
            rec["bmApplied"] = jr.get("bmApplied", 0)
            rec["bmSkipped"] = jr.get("bmSkipped", 0)
            rec["pathSites"] = jr.get("pathSites", 0)
            rec["pathsGiven"] = jr.get("pathsGiven", 0)
            rec["getput"] = jr.get("getput", 0)
    return records


def src_text(rec):
    return "\n".join("--- %s\n%s" % (p, t) for p, t in rec["sources"])
