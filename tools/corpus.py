"""Harvest the repository's own test inputs at check time (the CCF lesson: existing tests
exercise paths whose assertions are too weak).  Nothing is cached: /repo is read on every run."""
import os
import re

from vlib import REPO

_SIMPLE_ESC = {"n": "\n", "r": "\r", "t": "\t", "\\": "\\", "0": "\0", '"': '"', "'": "'"}


def _rust_str_at(s, i):
    """Parse a Rust string literal starting at s[i]; return (value, end) or None."""
    if s.startswith('r', i):
        j = i + 1
        h = 0
        while j < len(s) and s[j] == '#':
            h += 1
            j += 1
        if j >= len(s) or s[j] != '"':
            return None
        j += 1
        close = '"' + '#' * h
        k = s.find(close, j)
        if k < 0:
            return None
        return s[j:k], k + len(close)
    if s[i] != '"':
        return None
    j = i + 1
    out = []
    while j < len(s):
        c = s[j]
        if c == '"':
            return "".join(out), j + 1
        if c == '\\':
            n = s[j + 1]
            if n in _SIMPLE_ESC:
                out.append(_SIMPLE_ESC[n])
                j += 2
            elif n == 'x':
                out.append(chr(int(s[j + 2:j + 4], 16)))
                j += 4
            elif n == 'u':
                k = s.index('}', j)
                out.append(chr(int(s[j + 3:k], 16)))
                j = k + 1
            elif n == '\n':
                j += 2
                while j < len(s) and s[j] in " \t\n\r":
                    j += 1
            else:
                out.append(n)
                j += 2
        else:
            out.append(c)
            j += 1
    return None


def _first_string_after(s, i):
    while i < len(s) and s[i] in " \t\r\n":
        i += 1
    return _rust_str_at(s, i) if i < len(s) else None


def wxml_snippets():
    """Every first and second string argument of case!(..) in the template compiler's sources, plus
    the templates of tests/*.rs."""
    out = []
    base = os.path.join(REPO, "glass-easel-template-compiler")
    files = []
    for root, _, fs in os.walk(os.path.join(base, "src")):
        files += [os.path.join(root, f) for f in fs if f.endswith(".rs")]
    for root, _, fs in os.walk(os.path.join(base, "tests")):
        files += [os.path.join(root, f) for f in fs if f.endswith(".rs")]
    for f in sorted(files):
        s = open(f, encoding="utf-8").read()
        for m in re.finditer(r"\bcase!\s*\(", s):
            r = _first_string_after(s, m.end())
            if r is None:
                continue
            out.append(r[0])
            j = r[1]
            while j < len(s) and s[j] in " \t\r\n,":
                j += 1
            r2 = _rust_str_at(s, j) if j < len(s) else None
            if r2 is not None:
                out.append(r2[0])
        for m in re.finditer(r"\b(?:add_tmpl|check_with_mangling|parse::parse)\s*\(", s):
            # take every string literal argument up to the closing of the statement
            j = m.end()
            end = s.find(";", j)
            while j < end:
                if s[j] == '"' or (s[j] == 'r' and s[j + 1] in '#"'):
                    r = _rust_str_at(s, j)
                    if r is None:
                        break
                    if "<" in r[0] or "{{" in r[0]:
                        out.append(r[0])
                    j = r[1]
                else:
                    j += 1
    seen = set()
    res = []
    for x in out:
        if x not in seen:
            seen.add(x)
            res.append(x)
    return res


def css_snippets():
    """Every stylesheet passed to from_css in the stylesheet compiler's tests, with the expected
    outputs too (they are stylesheets as well)."""
    f = os.path.join(REPO, "glass-easel-stylesheet-compiler", "src", "lib.rs")
    s = open(f, encoding="utf-8").read()
    out = []
    for m in re.finditer(r'r#"(.*?)"#', s, re.S):
        out.append(m.group(1))
    seen = set()
    res = []
    for x in out:
        if x not in seen:
            seen.add(x)
            res.append(x)
    return res


if __name__ == "__main__":
    w = wxml_snippets()
    c = css_snippets()
    print(len(w), "wxml snippets;", len(c), "css snippets")
    for x in w[:5]:
        print(repr(x))
