#!/usr/bin/env python3
"""Regenerates MANIFEST.json from the table below (kept in one place so it is always valid)."""
import json
import os

HERE = os.path.dirname(os.path.dirname(os.path.abspath(__file__)))

TRUSTED = ("TLC 1.8.0 + CommunityModules; node 20 as JavaScript oracle; the reference runtime runtime/refrt.js "
           "(hand port of glass-easel/src/tmpl/*.ts, which cannot be built offline); cssparser's tokenizer for "
           "re-tokenising outputs; the harness's concretiser/projection")

CHECKS = {}


def check(pid, technique, text, ref, note=TRUSTED):
    CHECKS[pid] = dict(technique=technique, text=text, ref=ref, note=note)


check("C16", "TLC model check of Cursor + trace validation of ParseState events + AST (incl. tag punctuation) / source-map conformance",
      "MCCursor is model-checked exhaustively (all sources over 5 character kinds up to length 3-4, all "
      "consume/try/commit/rollback/warn interleavings); the cursor trace of every input is validated event by "
      "event against CursorTrace (line/col = fold of the text, rollbacks restore saved triples, whole input "
      "consumed); every located AST node is sliced out of the source and compared with its spelling, nesting "
      "and order; stringifier source-map tokens are checked against output and source text.",
      "DESIGN.md §4.1, §6 C16")


check("C03", "TLC enumeration of WxmlExpr/Literals + replay through compiler and node against tree oracle",
      "TLC enumerates every tree of spec/WxmlExpr.tla (each operator at each operand position of each operator, "
      "literals at each operand position, redundant-parenthesis variants), proving print/parse round trip for each, and "
      "every literal spelling of spec/Literals.tla up to length 4-5; each case is compiled by the real compiler, run "
      "under the reference runtime for edge-value environments (exhaustive 14^n pool in the thorough tier) and compared "
      "by Object.is-deep equality with the tree's reference value (node supplies each primitive operator).",
      "DESIGN.md §4.2, §6 C03")


check("C04", "TLC enumeration of WxmlSem families with Render attached + replay through compiler and reference runtime",
      "TLC enumerates template families F1-F5 of spec/MCWxmlSem.tla (every attribute family x value kind, nested "
      "structural pairs, text piece sequences, if-chains, list kinds x keys x scope names) x a data pool, computes the "
      "tree Render denotes and checks the comment/block insensitivity laws; each case is concretised in 2-6 syntactic "
      "variants, compiled, created under the reference runtime, projected and compared node by node.",
      "DESIGN.md §4.3, §6 C04")


check("C05", "TLC enumeration of scope family F6 (creation) and MCInstance F6 (updates of shadowed fields) + replay",
      "TLC enumerates nested for/slot/wxs scope shapes with colliding names and every identifier position of every "
      "expression form, with distinct sentinels per scope and data field; Render/Resolve give the value each occurrence "
      "must show; replayed in creation and after updates that change only shadowed data fields (exact/coarse/true "
      "coverings), where the values must not move.",
      "DESIGN.md §4.3, §6 C05")
check("C06", "TLC exploration of Instance histories (edits x coverings, covering soundness asserted) + replay with two oracles",
      "TLC explores create/update histories over nine template families with the edit menu of spec/Instance.tla (all "
      "subsets of leaf toggles, list growth/shrinkage/reversal/duplicate keys/kind changes, object replacement) and "
      "exact/coarsened/true coverings, asserting that every covering covers Diff and that the reference instance equals "
      "a fresh render; every behaviour (seeded 1/12 sample of the big families in the quick tier, all of them plus "
      "random length-3 histories in the thorough tier) is replayed: after each step the projected tree must equal the "
      "spec's tree and a fresh creation.",
      "DESIGN.md §4.4, §6 C06")


check("C07", "TLC exploration of BMUpdate histories (families UB, UC, UL) + Ineligible computed by the spec + replay of advertised updaters + trace validation of the collector's recorded calls against BindMap (BindMapTrace)",
      "TLC explores create(D0); bm(f, v) histories over family UB (eligible bindings on every channel, every "
      "unreachable position holding a field through several expression forms) and computes Ineligible(file); the "
      "harness requires the advertised keys of B to be disjoint from Ineligible and, for every advertised field, runs "
      "exactly B[f] with the new data and compares with the spec's tree and a fresh creation. spec/BindMap.tla is the collector as a machine "
      "(add_field / disable_field / disable_all / list_fields; MCBindMap: what is advertised depends on the SETS of registered and withdrawn "
      "fields only, slots are dense, a withdrawal is final - MCBindMapDefect shows a lenient disable_field violating it); the calls the real "
      "collectors make while every group is parsed and emitted are recorded by a cfg-guarded hook and replayed through the specification's "
      "operators by TLC: every slot handed out and every listing must be the specification's.",
      "DESIGN.md §4.4, §6 C07, §13.1")


check("C11", "TLC check of get-put on LPath + replay comparing every emitted path argument with LPath",
      "TLC checks the get-put law Eval(e, SetAt(D, LPath(e,D), w)) = w on the specification for every case of family F7 "
      "and attaches LPath to every model:/event/change:/event-like/slot-value/wx:for site; the harness compares each "
      "path argument the generated code hands to the runtime with it (model, 0-data, 1-script, 2-inline-script "
      "conventions), requires no path for non-assignable expressions, and repeats get-put on the real code.",
      "DESIGN.md §4.3, §6 C11")


check("C14", "TLC check of Reprint laws (stutter, idempotence) + replay of printed text against spec trees/histories + differential",
      "TLC checks on every case of families F1-F6 that the normal form a print/parse round produces renders like the "
      "original (Render(Norm t) = Render t) and is a fix-point (Norm(Norm t) = Norm t); the real stringifier's output "
      "(plain and mangled) for every concretised case and for update histories must re-parse without diagnostics "
      "above Note, print to itself, and satisfy the specification's trees after every step; the expression trees of "
      "WxmlExpr, the repository's test inputs and hand-picked spellings are checked by an original-vs-printed "
      "differential on generated data.",
      "DESIGN.md §4.8, §6 C14")


check("C15", "TLC enumeration of Defects injections with documented levels + replay; CursorTrace validation of every diagnostic location",
      "spec/Defects.tla enumerates single-defect injections (missing end tag, unterminated tag, unterminated {{, trailing "
      "garbage, unknown directive/prefix, duplicated attribute per family, children under childless elements, missing "
      "src/module/is) with acceptable kinds and the documented minimum level; the real parser must flag each; every "
      "concretised clean case of families F1-F7 must produce nothing at Warn or above; every diagnostic of every input "
      "(also repository snippets and seeded mutations) is validated as a Warn event of CursorTrace (start <= end, both "
      "ends in the text).",
      "DESIGN.md §4.8, §6 C15")


check("C13", "TLC check of Paths laws + enumeration of (base, rel) pairs and multi-file groups, replayed through resolver, dependency queries and rendering",
      "TLC checks the laws of the reference resolver spec/Paths.tla on every (base, rel) pair over {a,b,.,..,''} and "
      "emits the resolved path; replayed against path::resolve (hook), against direct_dependencies / script_dependencies "
      "of templates holding an import, include and wxs-src for every pair, and by rendering family F8 (reference "
      "spellings, local vs imported definitions, nested includes) in every insertion order of the files.",
      "DESIGN.md §4.6, §6 C13")


check("C20", "TLC check of Group (order independence, import = add) + replay of every history in fresh processes",
      "TLC checks on spec/Group.tla that a canonical emitter's artefact is independent of the map walk order and of the "
      "history (a non-canonical one is shown to violate it: config GroupDefect), and that importing a group equals adding "
      "its files; every history of MCGroup (add / re-add / remove / import-group over 3 paths x 2 contents) is replayed "
      "into the real TmplGroup in 4-8 fresh processes and all artefacts must be byte-identical per final map; stylesheet "
      "outputs and source maps likewise across processes.",
      "DESIGN.md §4.6, §6 C20")


check("C02", "TLC check of the observed identifier table and allocator (IdentTable/IdentGen) and of EmitSites + node parse of every artefact",
      "TLC checks every identifier of the table observed through the hook (ids up to 2.1*10^5: identifier syntax, not "
      "reserved/relied-upon/preserved, injective), the allocator machine (fresh w.r.t. enclosing scopes), and that every "
      "class deliverable at a paste site is holdable by its embedding form; every artefact (object, bundle, wx bundle, "
      "runtime, globals, scripts; normal and dev mode) of the EmitSites corpus, the WxmlSem families, the Defects "
      "injections, the literal spellings and a size sweep is parsed by node in sloppy and strict mode.",
      "DESIGN.md §4.5, §6 C02")


check("C12", "TLC check of JsString (reader automaton, round trip with observed encoder forms) + escape table evaluated back + per-context replay",
      "TLC checks Decode(Encode(s)) = s on JavaScript's string-literal reader (sloppy and strict) for every class string "
      "up to length 2-3 with the encoder forms observed from the real gen_lit_str; the real encoder's literal for every "
      "Unicode scalar (thorough) or a boundary-rich sample (quick) followed by 9 critical successors is evaluated back "
      "by node in both modes; 35 class representatives in raw / entity / escape spellings are placed at 16 embedding "
      "sites, compiled and executed, and the string reaching the runtime must be the denoted code points.",
      "DESIGN.md §4.5, §6 C12")


CSS_NOTE = TRUSTED + "; python fractions for value*100/ratio"

check("C08", "TLC enumeration of MCCss families against the CssRewrite reference transducer + re-tokenised outputs compared token by token with gap requirements",
      "spec/CssRewrite.tla is a reference transducer over css-syntax tokens written from the documented rewrites; MCCss "
      "enumerates selectors (every pair of 9 compounds joined in every way, nested in selector functions to depth 3, under "
      "every rule-bearing at-rule), values (5 numeric kinds x 28 spellings x 10 value shapes incl. calc with nested "
      "parentheses) and spelling-sensitive tokens x option sets, TLC checking bracket balance of both expected outputs; each "
      "case is concretised with seeded whitespace/comments/line breaks, transformed by the real compiler, both outputs "
      "re-tokenised by cssparser and compared token by token; required gaps must hold whitespace, forbidden gaps none.",
      "DESIGN.md §4.6, §6 C08", CSS_NOTE)

check("C09", "TLC enumeration of MCCss selector families x prefix option sets + per-token provenance comparison of class-name rewrites",
      "Same transducer and replay as C08, restricted to the prefix aspect over PrefixOpts (prefix none / empty / ascii / "
      "non-ASCII x sign on/off): every ident after a class dot at every nesting depth and in every rule-bearing at-rule "
      "carries prefix--, preceded by the sign comment when configured; no other ident changes; source-map names hold the "
      "original spelling.",
      "DESIGN.md §4.6, §6 C09", CSS_NOTE)

check("C10", "TLC enumeration of numeric tokens x value shapes (MCCss val) + exact rational oracle for rpx conversion and integer preservation",
      "MCCss family val places each of 28 pool spellings (i32 boundaries, 2^24 neighbours, exponents, signed zero, leading "
      "+ and .) as rpx / px / em / number / percentage in 10 value shapes, media queries, @font-face, @keyframes and "
      "z-index; the harness compares re-tokenised numbers against exact fractions: rpx -> value*100/ratio vw within 2 "
      "eps_f32 for ratios 750, 375, 0.5, 1e6 (thorough); integers exactly; other numbers within 2 eps_f32.",
      "DESIGN.md §4.6, §6 C10", CSS_NOTE)

check("C17", "TLC check of the :host partition invariant on CssRewrite + replay of host families with both outputs, the flagged items and the places of their diagnostics (CssRewrite!Warn) compared",
      "TLC checks on every case of family host that rule ids partition between the normal output, the low-priority "
      "output and the HostSelectorCombination warnings; the real compiler's two outputs and warnings are compared with "
      "the expected ones (wrapper chains replayed in the low-priority output, [wx-host] / [is] attribute selectors).",
      "DESIGN.md §4.6, §6 C17", CSS_NOTE)

check("C18", "TLC enumeration of import forms x conditions x positions (MCCss import) + placeholder decoded back, wrapper nesting and the place of the position diagnostic (CssRewrite!Warn) compared",
      "10 paths (spaces, quotes, */, percent, non-ASCII, astral) x string/url() x layer none/bare/(x) x supports x media "
      "x sign on/off x prefix, plus imports after rules and after imports; the comment's percent-decoded body must equal "
      "the path, contain no */, stand inside the expected @layer/@supports/@media blocks; position warnings compared; "
      "without a sign the rule must re-tokenise to itself.",
      "DESIGN.md §4.6, §6 C18", CSS_NOTE)

check("C19", "TLC enumeration of MCCss families with provenance ids + trace validation of both real outputs against the output machine (OutMap / OutMapTrace: write position folded from the tokens, entries at the cursor, ordered, at source token starts, at their provenance) + source-map entries checked against the concretiser's recorded positions",
      "Every expected output token carries the id of the input token it comes from; the concretiser records the line / "
      "UTF-16 column where it spelled that token (after comments, across line breaks, after astral characters); each "
      "generated token must have a source-map entry at its generated column that points at that position, entries are "
      "ordered, names carry the original spelling of rewritten tokens, and the map survives JSON serialisation. "
      "spec/OutMap.tla is the output machine (Entry / Write / Close; model-checked by MCOutMap); every real output is turned into a trace "
      "(re-tokenised text interleaved with the decoded map, in map order) and validated event by event by TLC (OutMapTrace): every ENTRY of "
      "the map - not only those of expected tokens - must stand at the true UTF-16 write position, in order, and point at the start of a "
      "source token (never into a comment); closing brackets synthesised by a rewrite point at the bracket they close.",
      "DESIGN.md §4.6, §6 C19, §13.8", CSS_NOTE)


check("C01", "TLC enumeration of the WxmlGen / CssGen generator machines (all paths to a length bound, simulation walks) replayed through every entry point (incl. a hot update of the inline scripts followed by every emitter) in isolated workers with parser-event fuel + CursorTrace validation of recorded parser traces + growth sweep",
      "TLC checks the two generator machines well formed and connected and enumerates every path (every prefix is an input: end of "
      "input in every lexical context; classes include non-ASCII white space, NUL, astral characters, stray closers, literals around "
      "2^63 in three radices, unterminated strings/comments/urls), plus 120-step simulation walks and a nesting family to depth 64; "
      "each spelled input runs through add_tmpl (normal and dev), every emitter, dependency queries, stringify with and without "
      "mangling twice, and the stylesheet transformer under 192 cycling option sets, in worker processes with an address-space limit, "
      "a wall-clock budget and a per-input parser-event fuel (cfg-guarded hook); outcome ok / panic / hang / abort.  Recorded parser "
      "traces of a sample are validated against CursorTrace.  Repository test inputs and seeded mutations are added.  33 shape families "
      "at doubling sizes bound CPU, peak memory, parser events and output size growth.",
      "DESIGN.md §4.1, §6 C01")


def main():
    props = [json.loads(l) for l in open(os.path.join(HERE, "properties.jsonl"))]
    ids = [p["id"] for p in props]
    na_path = os.path.join(HERE, "tools", "not_applicable.json")
    na = json.load(open(na_path)) if os.path.exists(na_path) else {}
    checks = []
    for pid in ids:
        if pid not in CHECKS:
            continue
        c = CHECKS[pid]
        checks.append({
            "property_id": pid,
            "quick_cmd": "bin/check %s --tier quick" % pid,
            "thorough_cmd": "bin/check %s --tier thorough" % pid,
            "evidence_file": "evidence/%s.json" % pid,
            "replay_cmd_template": "bin/check %s --replay {path}" % pid,
            "engine": "tla-conformance",
            "level_claimed": {"category": "model_checking", "text": c["text"], "design_ref": c["ref"]},
            "level_note": c["note"],
            "technique": c["technique"],
        })
    not_app = []
    for pid in ids:
        if pid not in CHECKS:
            not_app.append({"property_id": pid,
                            "reason": na.get(pid, "check under construction in this session: not yet claimed (see DESIGN.md §11 for the construction order)")})
    m = {
        "version": 1,
        "setup_cmd": "cd harness && cp /repo/Cargo.lock . && CARGO_NET_OFFLINE=true cargo build --offline --quiet",
        "hooks": {
            "guard": "glass_easel_verif",
            "enable": "RUSTFLAGS --cfg glass_easel_verif via harness/.cargo/config.toml (the harness has path dependencies on /repo's two crates)",
            "baseline_off_cmd": "cd /repo && cargo test --workspace --no-fail-fast --offline",
            "source_commits": ["8372a55", "f196eab", "24c3002"],
            "add_only": True,
        },
        "engines": [{
            "name": "tla-conformance",
            "path": "bin/check",
            "serves_properties": [c["property_id"] for c in checks],
            "kind_free_text": "TLA+ specification (spec/*.tla) model-checked by TLC; TLC-generated behaviours replayed into the real compilers (harness/, runtime/) and traces recorded from the real code validated against the specification",
        }],
        "checks": checks,
        "not_applicable": not_app,
        "notes": "Exit codes: 0 held, 1 with a VIOLATION line, 2 tool error. Known findings: known_findings.json.",
    }
    with open(os.path.join(HERE, "MANIFEST.json"), "w") as f:
        json.dump(m, f, indent=1)
        f.write("\n")


if __name__ == "__main__":
    main()
