#!/usr/bin/env python3
"""Development aid: regenerate the seeded-change table of DESIGN.md (between the SEEDED-TABLE markers) from seeded/*/meta.json."""
import glob, json, os, re
rows = []
for d in sorted(glob.glob("/verif/seeded/*/meta.json")):
    m = json.load(open(d))
    rows.append((m.get("round", 1), os.path.basename(os.path.dirname(d)), m))
rows.sort(key=lambda r: (r[0], r[1]))
out = ["| round | `seeded/<id>/` | change (still compiles, 84 tests pass) | caught by | as first run |", "|---|---|---|---|---|"]
stats = {}
for rnd, name, m in rows:
    missed = m.get("note", "").startswith("MISSED")
    stats.setdefault(rnd, [0, 0])[1 if missed else 0] += 1
    out.append("| %d | `%s` | %s | %s | %s |" % (rnd, name, m.get("short") or m["summary"][:160].replace("|", "\\|"), ", ".join(m["caught_by"]),
                                            "**missed**, closed by strengthening" if missed else "caught"))
out.append("")
out.append("Totals: " + "; ".join("round %d: %d caught as they stood, %d missed and closed" % (r, c, mi) for r, (c, mi) in sorted(stats.items())) + ".")
p = "/verif/DESIGN.md"
s = open(p).read()
s = re.sub(r"<!-- SEEDED-TABLE-BEGIN -->.*?<!-- SEEDED-TABLE-END -->", lambda m: "<!-- SEEDED-TABLE-BEGIN -->\n" + "\n".join(out) + "\n<!-- SEEDED-TABLE-END -->", s, flags=re.S)
open(p, "w").write(s)
print("\n".join(out[-3:]))
