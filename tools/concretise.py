"""Abstract WXML (spec/WxmlSem.tla node records, as TLC prints them in JSON) -> source text.

Everything the abstract syntax does not fix is drawn from a seeded RNG: quote style, self-closing
vs paired tags, entity spelling, whitespace inside tags and bindings, where wx:if / wx:for sit
(on the element itself or on a wrapping <block>), whitespace-only text between non-text nodes."""

UNOPS = {"!", "~", "+", "-", "typeof", "void"}
BINPREC = {}
for _o in ("*", "/", "%"):
    BINPREC[_o] = 13
for _o in ("+", "-"):
    BINPREC[_o] = 12
for _o in ("<<", ">>", ">>>"):
    BINPREC[_o] = 11
for _o in ("<", ">", "<=", ">=", "instanceof"):
    BINPREC[_o] = 10
for _o in ("==", "!=", "===", "!=="):
    BINPREC[_o] = 9
BINPREC.update({"&": 8, "^": 7, "|": 6, "&&": 5, "||": 4, "??": 4})
NUMLITS = {"0", "1", "2", "1.5", "0x1F", "017", "1e3"}


def prec(e):
    k = e["k"]
    if k == "bin":
        return BINPREC[e["o"]]
    if k == "un":
        return 15
    if k == "cond":
        return 3
    return 18


def mixes(o, c):
    return c["k"] == "bin" and ((o == "??" and c["o"] in ("||", "&&")) or (o in ("||", "&&") and c["o"] == "??"))


def par(e, mn, force, extra):
    if prec(e) < mn or force or (extra and e["k"] not in ("id", "lit")):
        return ["("] + pr(e, extra) + [")"]
    return pr(e, extra)


def pr_seq(xs, extra):
    out = []
    n = len(xs)
    for i, x in enumerate(xs):
        last = i == n - 1
        sep = [] if last else [","]
        if x["t"] == "hole":
            out += [","] if last else sep
        elif x["t"] == "spread":
            out += ["..."] + par(x["e"], 3, False, extra) + sep
        else:
            out += par(x["e"], 3, False, extra) + sep
    return out


def pr_fields(fs, extra):
    out = []
    n = len(fs)
    for i, f in enumerate(fs):
        sep = [] if i == n - 1 else [","]
        if f["t"] == "spread":
            out += ["..."] + par(f["e"], 3, False, extra) + sep
        elif f["t"] == "short":
            out += [f["n"]] + sep
        else:
            out += [f["n"], ":"] + par(f["e"], 3, False, extra) + sep
    return out


def pr(e, extra=False):
    """Port of WxmlExpr!Pr (tools/selftest checks it token for token against TLC's output)."""
    k = e["k"]
    if k == "id":
        return [e["n"]]
    if k == "lit":
        return [e["v"]]
    if k == "un":
        return [e["o"]] + par(e["x"], 15, False, extra)
    if k == "bin":
        p = BINPREC[e["o"]]
        return par(e["l"], p, mixes(e["o"], e["l"]), extra) + [e["o"]] + par(e["r"], p + 1, mixes(e["o"], e["r"]), extra)
    if k == "cond":
        return par(e["c"], 4, False, extra) + ["?"] + par(e["a"], 3, False, extra) + [":"] + par(e["b"], 3, False, extra)
    if k == "mem":
        return par(e["e"], 18, e["e"]["k"] == "lit" and e["e"]["v"] in NUMLITS, extra) + [".", e["n"]]
    if k == "idx":
        return par(e["e"], 18, False, extra) + ["["] + par(e["i"], 3, False, extra) + ["]"]
    if k == "call":
        return par(e["f"], 18, False, extra) + ["("] + pr_seq([{"t": "item", "e": a} for a in e["as"]], extra) + [")"]
    if k == "arr":
        return ["["] + pr_seq(e["xs"], extra) + ["]"]
    if k == "obj":
        return ["{"] + pr_fields(e["fs"], extra) + ["}"]
    raise ValueError("unknown expr kind %r" % k)


WORD = set("abcdefghijklmnopqrstuvwxyzABCDEFGHIJKLMNOPQRSTUVWXYZ0123456789_$")
OPCH = set("+-*/%<>=!&|^?~.:")


# a line break chosen by the concretiser (layout, not content): file() writes it as LF or, for some files, as CR LF
LNL = "\ue0ff\ue0fe"


def join_tokens(toks, rnd, style):
    """style 0: single spaces; 1: minimal; 2: random whitespace and comments"""
    if style == 0:
        return " ".join(toks)
    out = []
    prev = ""
    for t in toks:
        if prev:
            a, b = prev[-1], t[0]
            need = (a in WORD and b in WORD) or (a in OPCH and b in OPCH) or (a.isdigit() and b == ".") or (a == "." and b.isdigit())
            if style == 1:
                if need:
                    out.append(" ")
            else:
                r = rnd.random()
                if need or r < 0.4:
                    out.append(rnd.choice([" ", "  ", LNL, "\t"]) if prev[-1] not in "*/" or True else " ")
                elif r < 0.5 and prev[-1] not in "*/":
                    out.append("/* c */")
        out.append(t)
        prev = t
    return "".join(out)


ENT_VARIANTS = {"<": ["&lt;", "&#60;", "&#x3c;", "&#x3C;"], "&": ["&amp;", "&#38;"], '"': ["&quot;", "&#34;"],
                "'": ["&#39;", "&apos;"], ">": ["&gt;", ">"]}


def num_ref(c, rnd):
    """a numeric character reference for c in one of its spellings"""
    o = ord(c)
    return rnd.choice(["&#%d;", "&#x%x;", "&#X%X;", "&#x0%x;", "&#0%d;"]) % o


def esc_text(s, rnd):
    out = []
    for c in s:
        if c not in "{}" and rnd.random() < 0.04:
            out.append(num_ref(c, rnd))
        elif c == "<" or c == "&":
            out.append(rnd.choice(ENT_VARIANTS[c]))
        elif c == ">" and rnd.random() < 0.3:
            out.append("&gt;")
        else:
            out.append(c)
    return "".join(out)


def esc_attr(s, q, rnd):
    out = []
    for c in s:
        if c not in "{}" and rnd.random() < 0.04:
            out.append(num_ref(c, rnd))
        elif c == "&":
            out.append(rnd.choice(ENT_VARIANTS["&"]))
        elif c == q:
            out.append(rnd.choice(ENT_VARIANTS[c]))
        elif c == "<" and rnd.random() < 0.5:
            out.append(rnd.choice(ENT_VARIANTS["<"]))
        else:
            out.append(c)
    return "".join(out)


class Concretiser:
    def __init__(self, rnd, plain=False):
        self.rnd = rnd
        self.plain = plain      # canonical variant: no random choices

    def ch(self, seq):
        return seq[0] if self.plain else self.rnd.choice(seq)

    def chance(self, p):
        return (not self.plain) and self.rnd.random() < p

    # ---- expressions and values
    def expr(self, e, object_inner=False):
        toks = pr(e, extra=self.chance(0.15))
        if object_inner and e["k"] == "obj" and self.chance(0.7) is False:
            pass
        if object_inner and e["k"] == "obj" and (self.plain or Concretiser.data_form % 4 != 2):
            toks = toks[1:-1]     # `data="{{ a: 1 }}"`: the braces of the binding are the object's
        if object_inner and e["k"] == "id":
            toks = ["("] + toks + [")"]        # `data="{{ o }}"` would be the object literal {o: o}
        style = 0 if self.plain else self.rnd.choice([0, 0, 1, 2])
        return join_tokens(toks, self.rnd, style)

    def binding(self, e, object_inner=False, dx=None):
        s = self.expr(e, object_inner)
        if dx == "unterminated":
            return "{{" + self.ch([" ", ""]) + s + self.ch([" ", "", " }"])
        if dx == "garbage":
            Concretiser.garbage_no += 1
            g = [" zz", " )", " ]", " 1", " 'x'", " ? "][Concretiser.garbage_no % 6]       # (every kind in turn)
            if e["k"] == "obj" and s.rstrip().endswith("}"):
                # inside the object, after its last field (`{k: a zz}`), or in the form without braces (`{{ k: a zz }}`)
                body = s.rstrip()[:-1]
                s = (body + g + "}") if Concretiser.garbage_no % 2 else (body.lstrip()[1:] + g)
            else:
                s = s + g
        pad = self.ch([" ", "", "  ", LNL])
        if s.startswith("{") or s.endswith("}"):
            pad = pad or " "
        return "{{" + pad + s + pad + "}}"

    def value_in_attr(self, v, q, object_inner=False):
        t = v["t"]
        if t == "s":
            return esc_attr(v["s"], q, self.rnd)
        if t == "e":
            return self.binding(v["e"], object_inner, v.get("dx"))
        if t == "m":
            return "".join(esc_attr(p["s"], q, self.rnd) if p["t"] == "s" else self.binding(p["e"]) for p in v["ps"])
        raise ValueError(t)

    def _has_quote(self, v, q):
        def e_has(e):
            return q in " ".join(pr(e))
        if v["t"] == "e":
            return e_has(v["e"])
        if v["t"] == "m":
            return any(p["t"] == "e" and e_has(p["e"]) for p in v["ps"])
        return False

    def attr_text(self, name, v, object_inner=False):
        if v["t"] == "none":
            return name
        q = '"'
        if self._has_quote(v, '"'):
            q = "'"
        elif not self._has_quote(v, "'") and self.chance(0.25):
            q = "'"
        if object_inner and not self.plain:
            Concretiser.data_form += 1        # template data: quoted / unquoted, with / without the object's own braces, in turn
        if v["t"] == "e" and not v.get("dx") and not self.plain and (Concretiser.data_form % 2 == 1 if object_inner else self.rnd.random() < 0.08):
            return "%s=%s" % (name, self.value_in_attr(v, '"', object_inner))       # a lone binding may stand without quotes
        return "%s=%s%s%s" % (name, q, self.value_in_attr(v, q, object_inner), q)

    def attr(self, a):
        f = a["f"]
        n = a["n"]
        if f == "plain":
            name = n
        elif f in ("class", "style", "id", "slot"):
            name = f
        elif f == "data-":
            name = "data-" + n
        elif f == "slot:":
            v = a["v"]
            if v["t"] == "s" and v["s"] == "":
                v = {"t": "none"}
            return self.attr_text("slot:" + n, v)
        elif f == "wx:bad":
            name = "wx:" + n
        elif f == "badprefix":
            name = "foo:" + n
        elif f == "twoprefix":
            name = "mark:x:" + n
        elif f == "wxif":
            name = "wx:if"
        elif f.endswith(":"):
            name = f + n
        else:
            name = f + ":" + n      # event families
        return self.attr_text(name, a["v"])

    def tag_open(self, tag, attrs, selfclose):
        parts = [tag] + attrs
        sep = " "
        s = "<" + parts[0]
        for p in parts[1:]:
            s += self.ch([" ", " ", LNL, "  ", "\t"]) + p
        if selfclose:
            s += self.ch(["/>", " />"])
        else:
            s += self.ch([">", ">", " >"])
        return s

    def element(self, tag, attrs, children_text, allow_selfclose=True):
        if children_text == "" and allow_selfclose and (self.plain or self.rnd.random() < 0.6):
            return self.tag_open(tag, attrs, True)
        if children_text == "" and self.chance(0.4):
            # nothing but template white space between the tags: no child (the text node is dropped)
            children_text = self.rnd.choice([" ", LNL, LNL + "  ", "\t", " " + LNL])
        return self.tag_open(tag, attrs, False) + children_text + "</" + tag + self.ch([">", ">", " >"])

    def childless(self, tag, attrs):
        """an element that takes no children (import, external wxs): self-closing, or paired with nothing or white space between"""
        if self.plain or self.rnd.random() < 0.5:
            return "<%s %s/>" % (tag, " ".join(attrs))
        return "<%s %s>%s</%s>" % (tag, " ".join(attrs), self.rnd.choice(["", " ", LNL, LNL + "  ", "\t"]), tag)

    # ---- nodes
    def nodes(self, ns):
        out = []
        prev_text = True
        for i, n in enumerate(ns):
            is_text = n["t"] == "text"
            if not is_text and not prev_text and self.chance(0.3):
                out.append(self.rnd.choice([LNL, " ", LNL + "  ", "\t"]))
            out.append(self.node(n))
            prev_text = is_text
        return "".join(out)

    def node(self, n):
        t = n["t"]
        if t == "text":
            return "".join(esc_text(p["s"], self.rnd) if p["t"] == "s" else self.binding(p["e"], dx=p.get("dx")) for p in n["ps"])
        if t == "comment":
            return "<!--" + n["s"] + "-->"
        if t == "elem" and n.get("dx"):
            return self.defective(n)
        if t == "elem":
            return self.element(n["tag"], [self.attr(a) for a in n["at"]], self.nodes(n["ch"]))
        if t == "block":
            return self.element("block", [], self.nodes(n["ch"]), allow_selfclose=False)
        if t == "blockslot":
            return self.element("block", [self.attr_text("slot", n["slot"])], self.nodes(n["ch"]), allow_selfclose=False)
        if t == "if":
            out = []
            for i, b in enumerate(n["brs"]):
                name = "wx:if" if i == 0 else "wx:elif"
                out.append(self.wrap_dir([self.attr_text(name, b["c"])], b["ch"]))
                # only BETWEEN branches: after the last one the filler would join a following text node
                if not self.plain and self.rnd.random() < 0.3 and (i < len(n["brs"]) - 1 or n["hasElse"]):
                    # (several comments in a row keep their order wherever the parser puts them)
                    out.append(self.rnd.choice([LNL, " ", "<!-- between -->", "<!-- one --><!-- two -->", "<!-- one -->" + LNL + "<!-- two -->" + LNL + "<!--3-->"]))
            if n["hasElse"]:
                out.append(self.wrap_dir(["wx:else"], n["els"]))
            return "".join(out)
        if t == "for":
            at = [self.attr_text("wx:for", n["list"])]
            if n["item"] != "item" or self.chance(0.2):
                at.append('wx:for-item="%s"' % n["item"])
            if n["index"] != "index" or self.chance(0.2):
                at.append('wx:for-index="%s"' % n["index"])
            if n["key"]:
                at.append('wx:key="%s"' % n["key"])
            if not self.plain:
                self.rnd.shuffle(at)
            return self.wrap_dir(at, n["ch"])
        if t == "tmplis":
            at = self.take_dir() + [self.attr_text("is", n["target"])]
            if n["data"]["t"] != "none":
                at.append(self.attr_text("data", n["data"], object_inner=True))
            return self.element("template", at, "")
        if t == "include":
            if "src" in n:
                return self.element("include", self.take_dir() + ['src="%s"' % n["src"]], "")
            p = n["path"]
            return self.element("include", self.take_dir() + ['src="%s"' % (p + (".wxml" if self.chance(0.3) else ""))], "")
        if t == "slot":
            at = self.take_dir()
            if n["name"]["t"] != "none":
                at.append(self.attr_text("name", n["name"]))
            at += [self.attr(a) for a in n["at"]]
            return self.element("slot", at, "")
        raise ValueError("unknown node kind %r" % t)

    CUT = "\x00CUT\x00"

    def defective(self, n):
        """defect injections of spec/Defects.tla"""
        dx = n["dx"]
        attrs = [self.attr(a) for a in n["at"]]
        if dx == "noend":
            return self.tag_open(n["tag"], attrs, False) + self.nodes(n["ch"])
        if dx == "cutend":
            return self.tag_open(n["tag"], attrs, False) + self.nodes(n["ch"]) + "</" + n["tag"] + self.ch(["", " ", LNL]) + self.CUT
        if dx == "cut":
            s = "<" + n["tag"] + "".join(" " + a for a in attrs)
            return s + self.ch(["", " ", LNL]) + self.CUT
        fixed = {
            "dup-wx:if": '<v wx:if="{{a}}" wx:if="{{b}}"/>',
            "dup-wx:for": '<v wx:for="{{l}}" wx:for="{{l}}"/>',
            "dup-wx:key": '<v wx:for="{{l}}" wx:key="a" wx:key="b"/>',
            "dup-wx:for-item": '<v wx:for="{{l}}" wx:for-item="x" wx:for-item="y"/>',
            "dup-wx:for-index": '<v wx:for="{{l}}" wx:for-index="x" wx:for-index="y"/>',
            "dup-is": '<template is="a" is="b"/>',
            "dup-data": '<template is="a" data="{{x:1}}" data="{{y:2}}"/>',
            "dup-src": '<include src="a" src="b"/>',
            "dup-module": '<wxs module="m" module="n">var a = 1</wxs>',
            "dup-name": '<template name="a" name="b"><v/></template>',
            "dup-slotname": '<slot name="a" name="b"/>',
            "dup-wx:elif": '<v wx:if="{{a}}"/><v wx:elif="{{a}}" wx:elif="{{b}}"/>',
            "dup-wx:else": '<v wx:if="{{a}}"/><v wx:else wx:else/>',
            "kids-include": '<include src="b"><v/></include>',
            "kids-import": '<import src="b"><v/></import>',
            "kids-slot": '<slot><v/></slot>',
            "kids-template-is": '<template is="t"><v/></template>',
            "kids-wxs-src": '<wxs module="m" src="s">var a = 1</wxs>',
            "nosrc-include": '<include/>',
            "nosrc-import": '<import/>',
            "nomodule-wxs": '<wxs>var a = 1</wxs>',
            "nois-template": '<template data="{{a:1}}"/>',
        }
        if ":" in dx and dx.split(":")[0] in fixed and dx.startswith("kids-"):
            base, form = dx.split(":")
            kids = {"elem": "<v/>", "text": "t", "binding": "{{a}}", "comment-elem": "<!-- c --><v/>", "comment-text": "<!----> t",
                    "ws-elem": "\n  <v/>", "comment-comment-elem": "<!--a--><!--b--><v></v>", "elem-comment": "<v/><!-- c -->"}[form]
            s = fixed[base].replace("<v/>", kids)
        else:
            s = fixed[dx]
        if not self.plain and self.rnd.random() < 0.5:
            s = s.replace('" ', '"\n ').replace("/>", " />")
        return s

    pending_dir = None
    garbage_no = 0
    data_form = 0

    def take_dir(self):
        d = self.pending_dir or []
        self.pending_dir = None
        return d

    def wrap_dir(self, dir_attrs, ch):
        """wx:if / wx:for on the single child element itself, or on a wrapping <block>"""
        if len(ch) == 1 and ch[0]["t"] in ("include", "tmplis", "slot") and not self.plain and self.rnd.random() < 0.5:
            # the directive on the <include> / <template is> / <slot> tag itself
            self.pending_dir = list(dir_attrs)
            out = self.node(ch[0])
            assert self.pending_dir is None
            return out
        if len(ch) == 1 and ch[0]["t"] == "elem" and not ch[0].get("dx") and not any(a["f"] == "slot:" for a in ch[0]["at"]) \
                and not self.plain and self.rnd.random() < 0.5:
            e = ch[0]
            attrs = [self.attr(a) for a in e["at"]]
            k = self.rnd.randint(0, len(attrs))
            attrs = attrs[:k] + dir_attrs + attrs[k:]
            return self.element(e["tag"], attrs, self.nodes(e["ch"]))
        return self.element("block", dir_attrs, self.nodes(ch), allow_selfclose=False)

    # ---- files
    def file(self, f, fn_table):
        out = []
        for p in f.get("importSrcs", f.get("imports", [])):
            out.append(self.childless("import", ['src="%s"' % p]))
        n_head = len(out)
        for w in f.get("wxs", []):
            if w.get("late"):
                continue          # set through the group API after parsing (semrun.case_post_ops)
            if "src" in w:
                out.append(self.childless("wxs", ['module="%s"' % w["n"], 'src="%s"' % w["src"]]))
            else:
                body = wxs_source(w["members"], fn_table)
                out.append('<wxs module="%s">%s</wxs>' % (w["n"], body))
        n_wxs = len(out)
        for d in f.get("defs", []):
            if not d["ch"] and self.chance(0.5):
                out.append('<template name="%s"%s/>' % (d["n"], self.ch(["", " "])))      # a definition without children
            else:
                out.append('<template name="%s">%s</template>' % (d["n"], self.nodes(d["ch"])))
        if n_wxs > n_head and len(out) > n_wxs and self.chance(0.35):
            # script modules belong to the file wherever their tags stand: here behind the template definitions
            out = out[:n_head] + out[n_wxs:] + out[n_head:n_wxs]
        out.append(self.nodes(f["root"]))
        sep = LNL if self.chance(0.3) else ""
        # (a line break in front of content that starts with text would become part of that text)
        text = sep.join(out[:-1]) + (sep if (len(out) > 1 and out[-1].startswith("<")) else "") + out[-1]
        if self.CUT in text:
            text = text[:text.index(self.CUT)]       # the source ends inside the tag
        # line ends: LF, or CR LF throughout the file (a Windows checkout) - CR is template white space like LF
        return text.replace(LNL, "\r\n" if self.chance(0.15) else "\n")


def js_value(v, fn_table):
    k = v["k"]
    if k == "undef":
        return "undefined"
    if k == "null":
        return "null"
    if k == "bool":
        return "true" if v["b"] else "false"
    if k == "int":
        return str(v["i"])
    if k == "str":
        import json
        return json.dumps(v["s"])
    if k == "arr":
        return "[" + ",".join("" if x["k"] == "hole" else js_value(x, fn_table) for x in v["xs"]) + "]"
    if k == "obj":
        import json
        return "{" + ",".join(json.dumps(kk) + ":" + js_value(vv, fn_table) for kk, vv in v["kv"]) + "}"
    if k == "fn":
        return fn_table[v["id"]]
    raise ValueError(k)


def wxs_source(members, fn_table):
    return "".join("exports.%s = %s;\n" % (k, js_value(v, fn_table)) for k, v in members)


# functions known to spec and harness by id (pure; `this` must be undefined: plain call)
FN_TABLE = {
    "f1": "function (x, y) { 'use strict'; return [this === undefined ? 'plain' : 'method', x, y]; }",
    "f2": "function (x) { 'use strict'; return x; }",
}
