#!/usr/bin/env python3
"""Development aid: regenerate the findings tables of DESIGN.md (between the FINDINGS markers) from known_findings.json."""
import json, re
k = json.load(open("/verif/known_findings.json"))["findings"]
fixed = [e for e in k if e["status"] == "fixed"]
known = [e for e in k if e["status"] == "known"]


def clean(what, e):
    t = what
    t = re.sub(r"^fixed: property=C\d+ [0-9a-f]{7} ", "", t)
    t = re.sub(r"\s*\(replay: [^)]*\)\s*$", "", t)
    return t.replace("|", "\\|")


by_commit = {}
for e in fixed:
    by_commit.setdefault(e["commit"], []).append(e)
out = ["| property | commit | what failed |", "|---|---|---|"]
for c, es in by_commit.items():
    props = ", ".join(sorted({e["property"] for e in es}))
    out.append("| %s | `%s` | %s |" % (props, c, clean(es[0]["what"], es[0]) if len(es) == 1 else " / ".join(clean(e["what"], e) for e in es)))
out.append("")
out.append("%d repairs (%d `fix:` commits)." % (len(fixed), len(by_commit)))
out2 = ["| id | what fails, and why it is not repaired |", "|---|---|"]
for e in known:
    out2.append("| `%s` | %s |" % (e["id"], clean(e["what"], e)))
p = "/verif/DESIGN.md"
s = open(p).read()
s = re.sub(r"<!-- FIXED-TABLE-BEGIN -->.*?<!-- FIXED-TABLE-END -->", lambda m: "<!-- FIXED-TABLE-BEGIN -->\n" + "\n".join(out) + "\n<!-- FIXED-TABLE-END -->", s, flags=re.S)
s = re.sub(r"<!-- KNOWN-TABLE-BEGIN -->.*?<!-- KNOWN-TABLE-END -->", lambda m: "<!-- KNOWN-TABLE-BEGIN -->\n" + "\n".join(out2) + "\n<!-- KNOWN-TABLE-END -->", s, flags=re.S)
open(p, "w").write(s)
print(out[-1], len(known), "known")
