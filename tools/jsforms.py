"""Lex the real encoder's output for a representative of each character class into the symbols of
spec/JsString.tla (observed encoding forms)."""
import json

import vlib

REPS = {"NUL": "\0", "DIG0": "0", "DIG7": "5", "DIG9": "9", "HEX": "c", "LETX": "x", "LETU": "u", "LETN": "n", "LET": "z",
        "DQ": '"', "SQ": "'", "BS": "\\", "LF": "\n", "CR": "\r", "LS": " ", "CTRL": "\x01", "DEL": "\x7f",
        "PRINT": "é", "ASTRAL": "😀", "LBRACE": "{", "RBRACE": "}"}


def cls_of(ch):
    for k, v in REPS.items():
        if v == ch:
            return k
    return None


def sym_raw(ch):
    o = ord(ch)
    table = {'"': "DQ", "'": "SQ", "\\": "BS", "x": "x", "u": "u", "{": "LB", "}": "RB", "0": "0", "\n": "LF", "\r": "CR",
             " ": "LS", " ": "LS", "\x7f": "DEL"}
    if ch in table:
        return table[ch]
    if ch in "1234567":
        return "d"
    if ch in "89":
        return "9"
    if ch in "abcdefABCDEF":
        return "h"
    if ch in "ntrbfv":
        return "n"
    if ch.isalpha() and o < 128:
        return "l"
    if o < 0x20:
        return "C"
    if o >= 0x10000:
        return "A"
    return "P"


def lex(lit):
    """literal text (with its double quotes) -> list of symbol records"""
    assert lit[0] == '"' and lit[-1] == '"', lit
    body = lit[1:-1]
    out = []
    i = 0
    hexd = "0123456789abcdefABCDEF"
    while i < len(body):
        ch = body[i]
        if ch == "\\" and i + 1 < len(body):
            n = body[i + 1]
            if n == "x" and i + 3 < len(body) + 0 and all(c in hexd for c in body[i + 2:i + 4]) and len(body[i + 2:i + 4]) == 2:
                c = cls_of(chr(int(body[i + 2:i + 4], 16))) or "PRINT"
                out += [{"k": "BS"}, {"k": "x"}, {"k": "HX", "c": c}]
                i += 4
                continue
            if n == "u" and body[i + 2:i + 3] == "{":
                j = body.index("}", i)
                c = cls_of(chr(int(body[i + 3:j], 16))) or "PRINT"
                out += [{"k": "BS"}, {"k": "u"}, {"k": "LB"}, {"k": "HU", "c": c}, {"k": "RB"}]
                i = j + 1
                continue
            if n == "u" and len(body[i + 2:i + 6]) == 4 and all(c in hexd for c in body[i + 2:i + 6]):
                c = cls_of(chr(int(body[i + 2:i + 6], 16))) or "PRINT"
                out += [{"k": "BS"}, {"k": "u"}, {"k": "HU4", "c": c}]
                i += 6
                continue
            out.append({"k": "BS"})
            out.append({"k": sym_raw(n)})
            i += 2
            continue
        out.append({"k": sym_raw(ch)})
        i += 1
    return out


def observed_forms():
    inp = "".join(json.dumps({"s": v}) + "\n" for v in REPS.values())
    out = vlib.run_vh_raw(["tables", "lit"], inp).split("\n")
    forms = {}
    lits = {}
    for (k, v), line in zip(REPS.items(), out):
        lit = json.loads(line)["lit"]
        lits[k] = lit
        forms[k] = lex(lit)
    return forms, lits
