#!/bin/bash
# Development aid (not a registered command): run quick checks against a seeded change.
#   tools/seedrun.sh <patch.diff> <ID> [<ID> ...]
# Applies the patch to /repo, runs the checks, and restores /repo (and the committed evidence files)
# whatever happens.  Replays of the violations are copied to /tmp/seedout/<name>/.
set -u
patch="$1"; shift
name=$(basename "$(dirname "$(dirname "$patch")")")
cd /verif
if [ -n "$(git -C /repo status --porcelain)" ]; then echo "/repo is not clean"; exit 2; fi
git -C /repo apply "$patch" 2>/dev/null || git -C /repo apply --3way "$patch" || { echo "patch does not apply"; git -C /repo reset -q --hard HEAD; exit 2; }
restore() {
  git -C /repo reset -q --hard HEAD
  git -C /verif checkout -- evidence/ 2>/dev/null
  git -C /repo status --porcelain
}
trap restore EXIT
mkdir -p "/tmp/seedout/$name"
for id in "$@"; do
  out=$(timeout 1800 bin/check "$id" --tier quick 2>&1)
  rc=$?
  echo "== $id rc=$rc"
  echo "$out" > "/tmp/seedout/$name/$id.out"
  echo "$out" | grep -E "^(VIOLATION|KNOWN-FINDING|OK|TOOL-ERROR)|violation:" | cut -c1-420 | head -8
  rp=$(echo "$out" | grep -E "^VIOLATION" | sed 's/.*replay=//')
  if [ -n "$rp" ] && [ -f "$rp" ]; then cp "$rp" "/tmp/seedout/$name/$id.replay.json"; fi
done
