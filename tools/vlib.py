"""Shared machinery of the checks: build, TLC runs, harness/node drivers, evidence, findings.

Exit-code contract (bin/check): 0 held, 1 only with a `VIOLATION property=<id> replay=<path>` line,
2 tool error / timeout of our own machinery.
"""
import hashlib
import json
import os
import re
import subprocess
import sys
import time

VERIF = os.path.dirname(os.path.dirname(os.path.abspath(__file__)))
REPO = os.environ.get("VERIF_REPO", "/repo")
HARNESS = os.path.join(VERIF, "harness")
SPEC = os.path.join(VERIF, "spec")
RUNTIME = os.path.join(VERIF, "runtime")
WORK = os.path.join(VERIF, ".work")
EVID = os.path.join(VERIF, "evidence")
VH = os.path.join(HARNESS, "target", "debug", "vh")
NCPU = os.cpu_count() or 4


class ToolError(Exception):
    pass


def log(*a):
    print(*a, file=sys.stderr, flush=True)


# ---------------------------------------------------------------------------------------------
# build

_built = False


def build():
    """Incremental build of the harness against /repo's current working tree (hooks on)."""
    global _built
    if _built:
        return VH
    lock = os.path.join(HARNESS, "Cargo.lock")
    if not os.path.exists(lock):
        subprocess.check_call(["cp", os.path.join(REPO, "Cargo.lock"), lock])
    env = dict(os.environ, CARGO_NET_OFFLINE="true")
    t0 = time.time()
    p = subprocess.run(
        ["cargo", "build", "--offline", "--quiet"],
        cwd=HARNESS, env=env, stdout=subprocess.PIPE, stderr=subprocess.PIPE, text=True)
    if p.returncode != 0:
        # a stale lock copy is the usual reason after a restore: refresh it once
        subprocess.check_call(["cp", os.path.join(REPO, "Cargo.lock"), lock])
        p = subprocess.run(
            ["cargo", "build", "--offline", "--quiet"],
            cwd=HARNESS, env=env, stdout=subprocess.PIPE, stderr=subprocess.PIPE, text=True)
    if p.returncode != 0:
        log(p.stderr[-4000:])
        raise ToolError("harness build failed (does /repo still compile with --cfg glass_easel_verif?)")
    log("[build] harness ok in %.1fs" % (time.time() - t0))
    _built = True
    return VH


# ---------------------------------------------------------------------------------------------
# TLC

_STATS_RE = re.compile(r"(\d+) states generated, (\d+) distinct states found")


class TlcResult:
    def __init__(self):
        self.generated = 0
        self.distinct = 0
        self.cases = []          # parsed CASE payloads
        self.ncases = 0          # CASE lines printed by TLC (before sampling)
        self.lines = []          # other output lines
        self.ok = False
        self.violated = None     # invariant / property name reported by TLC
        self.rc = None
        self.wall = 0.0
        self.coverage = {}


def tlc(module, cfg=None, workers=8, env=None, timeout=600, simulate=None, depth=None,
        seed=None, deque=False, xmx="6g", coverage=False, on_case=None, tag="CASE", extra=None,
        keep_cases=True, sample=None, tables=None):
    """Run TLC on spec/<module>.tla with spec/<cfg>.cfg.  CASE lines are parsed (and streamed to
    `on_case` if given)."""
    os.makedirs(WORK, exist_ok=True)
    meta = os.path.join(WORK, "tlc-%s-%d-%d" % (cfg or module, os.getpid(), int(time.time() * 1000) % 100000))
    cmd = ["timeout", str(timeout), "java", "-Xss1g", "-Xmx" + xmx, "-XX:+UseParallelGC"]
    if deque:
        cmd.append("-Dtlc2.tool.queue.IStateQueue=StateDeque")
    cmd += ["-cp", "/opt/veriftools/tla/tla2tools.jar:/opt/veriftools/tla/CommunityModules-deps.jar",
            "tlc2.TLC", "-workers", str(workers), "-metadir", meta, "-cleanup",
            "-noGenerateSpecTE", "-config", (cfg or module) + ".cfg"]
    if simulate is not None:
        cmd += ["-simulate", "num=%d" % simulate]
    if depth is not None:
        cmd += ["-depth", str(depth)]
    if seed is not None:
        cmd += ["-seed", str(seed)]
    if coverage:
        cmd += ["-coverage", "1"]
    if extra:
        cmd += extra
    cmd.append(module + ".tla")
    e = dict(os.environ)
    e.pop("JAVA_TOOL_OPTIONS", None)
    if env:
        e.update({k: str(v) for k, v in env.items()})
    r = TlcResult()
    t0 = time.time()
    p = subprocess.Popen(cmd, cwd=SPEC, env=e, stdout=subprocess.PIPE, stderr=subprocess.STDOUT,
                         text=True, bufsize=1 << 20)
    prefix = '<<"%s", "' % tag
    tprefix = '<<"TABLE", "'
    for line in p.stdout:
        line = line.rstrip("\n")
        if tables is not None and line.startswith(tprefix) and line.endswith('">>'):
            tables.append(json.loads(json.loads(line[len(tprefix) - 1:-2])))
            continue
        if line.startswith(prefix) and line.endswith('">>'):
            r.ncases += 1
            if sample is not None:
                # seeded sub-sampling decided on the raw line, before any JSON parsing
                import zlib
                if zlib.crc32(line.encode()) % sample[0] != sample[1] % sample[0]:
                    continue
            payload = line[len(prefix) - 1:-2]
            try:
                obj = json.loads(json.loads(payload))
            except Exception as ex:  # malformed: tool error
                raise ToolError("cannot parse TLC case line: %s (%s)" % (line[:200], ex))
            if on_case:
                on_case(obj)
            if keep_cases:
                r.cases.append(obj)
            continue
        m = _STATS_RE.search(line)
        if m:
            r.generated, r.distinct = int(m.group(1)), int(m.group(2))
        if "is violated" in line or "Error:" in line:
            if r.violated is None:
                r.violated = line
        if line.startswith("<") and "line" in line and "col" in line and ": " in line:
            # coverage line
            pass
        r.lines.append(line)
    p.wait()
    r.rc = p.returncode
    r.wall = time.time() - t0
    shell_rm(meta)
    if r.rc == 124:
        raise ToolError("TLC timed out on %s/%s after %ss" % (module, cfg, timeout))
    r.ok = (r.rc == 0 and r.violated is None)
    return r


def tlc_many(runs, parallel=3):
    """runs: list of kwargs dicts for tlc(); executed `parallel` at a time; results in order."""
    import threading
    out = [None] * len(runs)
    sem = threading.Semaphore(parallel)

    def work(i):
        with sem:
            try:
                out[i] = tlc(**runs[i])
            except Exception as e:  # noqa
                out[i] = e
    ths = [threading.Thread(target=work, args=(i,)) for i in range(len(runs))]
    for t in ths:
        t.start()
    for t in ths:
        t.join()
    for r in out:
        if isinstance(r, Exception):
            raise r
    return out


def tlc_expect_ok(res, what):
    if not res.ok:
        tail = "\n".join(res.lines[-40:])
        raise ToolError("TLC failed on %s (rc=%s):\n%s" % (what, res.rc, tail))


def shell_rm(path):
    subprocess.call(["rm", "-rf", path])


def sany(module):
    p = subprocess.run(["tla-sany", module + ".tla"], cwd=SPEC, stdout=subprocess.PIPE,
                       stderr=subprocess.STDOUT, text=True)
    return p.returncode == 0, p.stdout


# ---------------------------------------------------------------------------------------------
# harness / node drivers

def run_vh(cmd, cases, jobs=None, timeout=600, args=None):
    """Run `vh <cmd>` over a list of JSON-serialisable cases, in parallel chunks; results in order."""
    build()
    if not cases:
        return []
    jobs = jobs or min(NCPU, max(1, len(cases) // 8))
    chunks = [cases[i::jobs] for i in range(jobs)]
    procs = []
    for ch in chunks:
        data = "\n".join(json.dumps(c) for c in ch) + "\n"
        p = subprocess.Popen([VH, cmd] + (args or []), stdin=subprocess.PIPE, stdout=subprocess.PIPE,
                             stderr=subprocess.PIPE)
        procs.append((p, data, ch))
    outs = []
    import threading
    results = [None] * len(procs)

    def work(i):
        p, data, ch = procs[i]
        try:
            o, e = p.communicate(data.encode(), timeout=timeout)
        except subprocess.TimeoutExpired:
            p.kill()
            results[i] = ToolError("vh %s timed out" % cmd)
            return
        if p.returncode != 0:
            results[i] = ToolError("vh %s exited %s: %s" % (cmd, p.returncode, e.decode(errors="replace")[-2000:]))
            return
        results[i] = [json.loads(l) for l in o.decode().split("\n") if l.strip()]

    ths = [threading.Thread(target=work, args=(i,)) for i in range(len(procs))]
    for t in ths:
        t.start()
    for t in ths:
        t.join()
    for r in results:
        if isinstance(r, Exception):
            raise r
    out = [None] * len(cases)
    for j, r in enumerate(results):
        if len(r) != len(chunks[j]):
            raise ToolError("vh %s returned %d results for %d cases" % (cmd, len(r), len(chunks[j])))
        for k, x in enumerate(r):
            out[j + k * jobs] = x
    return out


def run_vh_raw(args, stdin_text=None, timeout=600):
    build()
    p = subprocess.run([VH] + args, input=(stdin_text or "").encode(), stdout=subprocess.PIPE,
                       stderr=subprocess.PIPE, timeout=timeout)
    if p.returncode != 0:
        raise ToolError("vh %s exited %s: %s" % (args, p.returncode, p.stderr.decode(errors="replace")[-2000:]))
    return p.stdout.decode()


def run_node(script, cases, jobs=None, timeout=900, args=None):
    """Run `node runtime/<script>` over ndjson cases in parallel chunks; results in order."""
    if not cases:
        return []
    jobs = jobs or min(NCPU, max(1, len(cases) // 4))
    chunks = [cases[i::jobs] for i in range(jobs)]
    import threading
    results = [None] * jobs

    def work(i):
        data = "\n".join(json.dumps(c) for c in chunks[i]) + "\n"
        try:
            p = subprocess.run(["node", "--stack-size=8000", os.path.join(RUNTIME, script)] + (args or []),
                               input=data.encode(), stdout=subprocess.PIPE, stderr=subprocess.PIPE,
                               timeout=timeout)
        except subprocess.TimeoutExpired:
            results[i] = ToolError("node %s timed out" % script)
            return
        if p.returncode != 0:
            results[i] = ToolError("node %s exited %s: %s" % (script, p.returncode, p.stderr.decode(errors="replace")[-3000:]))
            return
        results[i] = [json.loads(l) for l in p.stdout.decode().split("\n") if l.strip()]

    ths = [threading.Thread(target=work, args=(i,)) for i in range(jobs)]
    for t in ths:
        t.start()
    for t in ths:
        t.join()
    for r in results:
        if isinstance(r, Exception):
            raise r
    out = [None] * len(cases)
    for j, r in enumerate(results):
        if len(r) != len(chunks[j]):
            raise ToolError("node %s returned %d results for %d cases" % (script, len(r), len(chunks[j])))
        for k, x in enumerate(r):
            out[j + k * jobs] = x
    return out


# ---------------------------------------------------------------------------------------------
# findings, verdicts, evidence

def load_findings(pid):
    path = os.path.join(VERIF, "known_findings.json")
    if not os.path.exists(path):
        return []
    with open(path) as f:
        data = json.load(f)
    return [e for e in data.get("findings", []) if e.get("property") == pid and e.get("status") == "known"]


class Check:
    """Collects what one run of one property's check covered and decides the exit code."""

    def __init__(self, pid, tier, seed):
        self.pid = pid
        self.tier = tier
        self.seed = seed
        self.t0 = time.time()
        self.states = 0
        self.transitions = 0
        self.traces = 0
        self.evaluations = 0
        self.distinct = set()
        self.distinct_count = 0
        self.samples = []
        self.violations = []      # (signature-less) new violations: dict
        self.known_hits = {}      # finding id -> count
        self.findings = load_findings(pid)
        self.notes = []
        self.assumptions = []
        self.rule = ""
        self.exhaustive = False
        self.extra = {}

    # -- accounting
    def add_tlc(self, res):
        self.states += res.distinct
        self.transitions += res.generated

    def sample(self, obj, limit=4):
        if len(self.samples) < limit:
            s = json.dumps(obj)
            if len(s) > 4000:
                s = s[:4000] + "...(truncated)"
                self.samples.append(s)
            else:
                self.samples.append(obj)

    def nontrivial(self, key):
        """Count a distinct non-trivial case (key: any hashable / str)."""
        h = hashlib.blake2b(json.dumps(key, sort_keys=True).encode() if not isinstance(key, (str, bytes)) else (key.encode() if isinstance(key, str) else key), digest_size=8).digest()
        self.distinct.add(h)

    # -- verdicts
    def classify(self, case, matcher_ctx=None):
        """Return the known finding a disagreement matches, or None."""
        for f in self.findings:
            fn = MATCHERS.get(f.get("matcher"))
            if fn and fn(f, case):
                return f
        return None

    def report(self, case, what):
        """Report a disagreement: known finding or new violation. `case` must be JSON-serialisable
        and contain everything needed to replay."""
        f = self.classify(case)
        if f is not None:
            self.known_hits[f["id"]] = self.known_hits.get(f["id"], 0) + 1
            return False
        if len(self.violations) < 50:
            self.violations.append({"what": what, "case": case})
        else:
            self.violations.append(None)
        return True

    def finish(self):
        os.makedirs(os.path.join(EVID, "replay"), exist_ok=True)
        wall = time.time() - self.t0
        for f in self.findings:
            if self.known_hits.get(f["id"]):
                print("KNOWN-FINDING: property=%s %s (%d cases this run)" % (self.pid, f["what"], self.known_hits[f["id"]]))
        nviol = len(self.violations)
        replay_paths = []
        for v in self.violations[:5]:
            if v is None:
                continue
            blob = json.dumps({"property": self.pid, "tier": self.tier, "seed": self.seed, **v}, indent=1, sort_keys=True)
            h = hashlib.sha1(blob.encode()).hexdigest()[:12]
            path = os.path.join(EVID, "replay", "%s-%s.json" % (self.pid, h))
            with open(path, "w") as fp:
                fp.write(blob)
            replay_paths.append(path)
        cov = {
            "states": self.states,
            "transitions": self.transitions,
            "traces_validated_against_impl": self.traces,
            "evaluations": self.evaluations,
            "distinct_nontrivial": len(self.distinct) + self.distinct_count,
            "rule": self.rule,
            "samples": self.samples if self.samples else ["(none)"],
            "exhaustive": self.exhaustive,
            "known_findings_matched": self.known_hits,
            "notes": self.notes,
        }
        cov.update(self.extra)
        ev = {
            "property_id": self.pid,
            "tier": self.tier,
            "seed": self.seed,
            "level": "model_checking",
            "coverage": cov,
            "assumptions": self.assumptions,
            "wall_s": round(wall, 2),
            "violations": nviol,
        }
        # (a replay run explores one case only: it must not overwrite the evidence of the registered check)
        evpath = os.path.join(EVID, "replay", "%s.last-replay.json" % self.pid) if REPLAY_MODE else os.path.join(EVID, "%s.json" % self.pid)
        with open(evpath, "w") as fp:
            json.dump(ev, fp, indent=1)
        if nviol:
            for v, pth in zip([x for x in self.violations if x][:5], replay_paths):
                log("[%s] violation: %s" % (self.pid, v["what"]))
            print("VIOLATION property=%s replay=%s" % (self.pid, replay_paths[0] if replay_paths else "-"))
            return 1
        print("OK property=%s tier=%s states=%d traces=%d evaluations=%d distinct=%d wall=%.1fs" % (
            self.pid, self.tier, self.states, self.traces, self.evaluations, cov["distinct_nontrivial"], wall))
        return 0


MATCHERS = {}
REPLAY_MODE = False


def matcher(name):
    def deco(fn):
        MATCHERS[name] = fn
        return fn
    return deco


@matcher("field_regex")
def _m_field_regex(f, case):
    """finding: {"field": "src", "regex": "..."}: case[field] (str) matches."""
    v = case
    for part in f["field"].split("."):
        if not isinstance(v, dict) or part not in v:
            return False
        v = v[part]
    if not isinstance(v, str):
        v = json.dumps(v)
    return re.search(f["regex"], v, re.S) is not None


@matcher("sig")
def _m_sig(f, case):
    """finding: {"sig": "..."}: case["sig"] equals (check computed a minimal signature)."""
    return case.get("sig") == f["sig"]


@matcher("all_regex")
def _m_all_regex(f, case):
    """finding: {"all": [[field, regex], ...]}: every listed field of the case matches its regex."""
    for field, rx in f["all"]:
        v = case
        for part in field.split("."):
            if not isinstance(v, dict) or part not in v:
                return False
            v = v[part]
        if not isinstance(v, str):
            v = json.dumps(v)
        if re.search(rx, v, re.S) is None:
            return False
    return True


@matcher("cls_only")
def _m_cls_only(f, case):
    """finding: {"cls": [...]}: the case's attribution classes are non-empty and all listed."""
    c = case.get("cls")
    return bool(c) and all(x in f["cls"] for x in c)


def rng(seed, salt=""):
    import random
    return random.Random("%s/%s" % (seed, salt))


def main_wrap(fn):
    """Run a check function(tier, seed, replay) -> exit code with the exit-code contract."""
    import argparse
    ap = argparse.ArgumentParser()
    ap.add_argument("--tier", default=os.environ.get("VERIF_TIER", "quick"))
    ap.add_argument("--replay", default=None)
    ap.add_argument("--seed", type=int, default=int(os.environ.get("VERIF_SEED", "1")))
    a = ap.parse_args()
    global REPLAY_MODE
    REPLAY_MODE = bool(a.replay)
    try:
        rc = fn(a.tier, a.seed, a.replay)
    except ToolError as e:
        log("TOOL-ERROR: %s" % e)
        sys.exit(2)
    except subprocess.TimeoutExpired as e:
        log("TOOL-ERROR: timeout %s" % e)
        sys.exit(2)
    sys.exit(rc)
