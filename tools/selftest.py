#!/usr/bin/env python3
"""Development audit (not a registered command): the binding must be able to say no.
  1. a recorded parser trace is accepted by CursorTrace; the same trace with one corrupted column, one corrupted
     index, the last Adv event removed (an Adv removed in the middle is a legal coarser grain: Consume(k) takes any k), one Warn location outside the text is rejected at that event;
  2. Group's determinism invariant fails under GroupDefect.cfg (iteration order leaking into the artefact);
  3. an output trace of the stylesheet compiler is accepted by OutMapTrace; with one generated column shifted, one
     source position moved into a comment, one entry removed, two entries swapped, a name dropped from a rewritten
     token or an entry left over at the end it is rejected;
  4. JsString's round trip fails for the pre-fix encoder form of NUL (`\\0` before a digit)."""
import copy
import json
import os
import sys

sys.path.insert(0, os.path.dirname(os.path.abspath(__file__)))
import cursor  # noqa: E402
import cssrun  # noqa: E402
import outmap  # noqa: E402
import vlib  # noqa: E402


def main():
    ok = True
    src = '<view a="{{ x }}">\n  é😀 {{ y + 1 }}<!-- c\n😀 --><b/></view>'
    out = vlib.run_vh("tmpl", [{"id": 0, "files": [["a", src]], "want": ["trace"]}])[0]
    ev = out["trace"][0]["ev"]
    acc, rej, _ = cursor.validate([(src, ev)], tag="selftest")
    print("genuine trace: accepted=%d rejected=%d" % (acc, len(rej)))
    ok &= (acc == 1 and not rej)
    advs = [i for i, e in enumerate(ev) if e[0] == 0]
    muts = []
    m = copy.deepcopy(ev); m[advs[len(advs) // 2]][3] += 1; muts.append(("column + 1", m))
    m = copy.deepcopy(ev); m[advs[len(advs) // 2]][1] += 1; muts.append(("index + 1", m))
    m = copy.deepcopy(ev); del m[advs[-1]]; muts.append(("last Adv event removed: the input is not consumed to its end", m))
    m = copy.deepcopy(ev); m[advs[-1]][2] += 1; muts.append(("line + 1", m))
    m = copy.deepcopy(ev); m.insert(advs[2], [4, 65537, 99, 0, 99, 0]); muts.append(("warning located outside the text", m))
    for name, m in muts:
        acc, rej, _ = cursor.validate([(src, m)], tag="selftest")
        print("corrupted trace (%s): accepted=%d rejected=%s" % (name, acc, [r["event_no"] for r in rej]))
        ok &= (acc == 0 and len(rej) == 1)
    res = vlib.tlc("Group", cfg="GroupDefect", workers=2, timeout=300)
    print("GroupDefect.cfg: TLC %s" % ("reports the violation: " + (res.violated or "")[:80] if not res.ok else "found nothing"))
    ok &= (not res.ok)
    css = ".a  .b{width:calc(1rpx + /* c */ 2px)}\n@media (min-width:75rpx){ :host{color:red} }"
    r = vlib.run_vh("css", [{"id": 0, "src": css, "opts": {"rpx_ratio": 750, "class_prefix": "p", "convert_host": True}}])[0]
    st = outmap.src_starts(r["itok"])
    ev = outmap.events(r["ntok"], r["nmap"])
    # demand an entry for every token and a name for the rewritten ones, as the reference transducer would
    for e, t in zip([e for e in ev if e[0] == 3], r["ntok"]):
        e[4] = 0
        e[5] = 1 if (t[6].endswith("vw") or t[6].startswith("p--")) else 0
    acc, rej, _ = outmap.validate([(st, ev)], tag="selftest")
    print("genuine output trace: accepted=%d rejected=%d" % (acc, len(rej)))
    ok &= (acc == 1 and not rej)
    ents = [i for i, e in enumerate(ev) if e[0] == 2]
    named = [i for i in ents if ev[i][4] == 1]
    muts = []
    m = copy.deepcopy(ev); m[ents[5]][2] += 1; muts.append(("generated column + 1", m))
    m = copy.deepcopy(ev); m[ents[5]][3] = 27; muts.append(("source position inside a comment", m))
    m = copy.deepcopy(ev); del m[ents[4]]; muts.append(("entry removed", m))
    m = copy.deepcopy(ev); m[ents[3]], m[ents[4]] = m[ents[4]], m[ents[3]]; muts.append(("two entries swapped", m))
    m = copy.deepcopy(ev); m[named[0]][4] = 0; muts.append(("name dropped", m))
    m = copy.deepcopy(ev); m.insert(len(m) - 1, [2, 0, 999, 0, 0]); muts.append(("entry beyond the end", m))
    for name, m in muts:
        acc, rej, _ = outmap.validate([(st, m)], tag="selftest")
        print("corrupted output trace (%s): accepted=%d rejected=%s" % (name, acc, [x["event_no"] for x in rej]))
        ok &= (acc == 0 and len(rej) == 1)
    print("SELFTEST", "OK" if ok else "FAILED")
    return 0 if ok else 1


if __name__ == "__main__":
    sys.exit(main())
