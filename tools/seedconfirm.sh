#!/bin/bash
# Development aid: confirm a seeded change in its scratch worktree (tests still pass, demonstration reproduces).
wt="$1"
cd "$wt" || exit 2
echo "=== $(basename $wt): $(git status --short | grep -v SEED | tr '\n' ' ')"
CARGO_NET_OFFLINE=true cargo test --workspace --no-fail-fast --offline 2>&1 | grep -E "^test result" | awk '{s+=$4; f+=$6} END {print "tests passed",s,"failed",f}'
(bash SEED/demo/run.sh 2>&1 | tail -${2:-4} | cut -c1-220)
