"""Trace validation of ParseState against spec/CursorTrace.tla (used by C01, C15, C16)."""
import json
import os

import vlib


def char_codes(s):
    out = []
    for ch in s:
        o = ord(ch)
        if ch == "\n":
            out.append(2)
        elif o < 0x80:
            out.append(1)
        elif o < 0x800:
            out.append(3)
        elif o < 0x10000:
            out.append(4)
        else:
            out.append(5)
    return out


def validate(items, tag="cursor", max_rounds=6, parallel=14):
    """Validate in `parallel` independent TLC runs (the trace spec is sequential: -workers 1 each)."""
    live = [i for i, (s, ev) in enumerate(items) if ev is not None]
    nev = sum(len(items[i][1]) for i in live)
    if nev < 40000 or parallel <= 1:
        return _validate(items, tag, max_rounds)
    import threading
    k = min(parallel, max(1, nev // 20000))
    groups = [list(range(g, len(items), k)) for g in range(k)]
    out = [None] * k

    def work(g):
        try:
            out[g] = _validate([items[i] for i in groups[g]], "%s-g%d" % (tag, g), max_rounds)
        except Exception as e:  # noqa
            out[g] = e
    ths = [threading.Thread(target=work, args=(g,)) for g in range(k)]
    for t in ths:
        t.start()
    for t in ths:
        t.join()
    acc, rej, st, tr = 0, [], 0, 0
    for g, r in enumerate(out):
        if isinstance(r, Exception):
            raise r
        a, rj, (s1, t1) = r
        acc += a
        st += s1
        tr += t1
        for x in rj:
            rej.append(dict(x, item=groups[g][x["item"]]))
    return acc, rej, (st, tr)


def _validate(items, tag="cursor", max_rounds=6):
    """items: list of (source_text, events) where events is the harness's compact trace
    ([[op, ...], ...]) of one parse, or None when the parse did not return (panic).
    Returns (accepted_count, rejections, tlc_stats) where rejections is a list of
    {"item": index, "event_no": n, "event": [...]}."""
    os.makedirs(vlib.WORK, exist_ok=True)
    live = [i for i, (s, ev) in enumerate(items) if ev is not None]
    rejections = []
    states = 0
    trans = 0
    rounds = 0
    while live and rounds < max_rounds:
        rounds += 1
        srcs_path = os.path.join(vlib.WORK, "%s-%d-srcs.ndjson" % (tag, os.getpid()))
        trace_path = os.path.join(vlib.WORK, "%s-%d-trace.ndjson" % (tag, os.getpid()))
        owner = []  # event number (1-based) -> item index
        with open(srcs_path, "w") as fs, open(trace_path, "w") as ft:
            for k, i in enumerate(live):
                s, ev = items[i]
                fs.write(json.dumps(char_codes(s)) + "\n")
                ft.write("[5,%d]\n" % (k + 1))
                owner.append(i)
                for e in ev:
                    ft.write(json.dumps(e, separators=(",", ":")) + "\n")
                    owner.append(i)
                ft.write("[6]\n")
                owner.append(i)
        res = vlib.tlc("CursorTrace", workers=1, deque=True, timeout=1800, xmx="4g",
                       env={"VERIF_SRCS": srcs_path, "VERIF_TRACE": trace_path}, tag="REJECT",
                       keep_cases=False)
        states += res.distinct
        trans += res.generated
        rej = None
        for line in res.lines:
            if line.startswith('<<"REJECT"'):
                rej = line
        os.remove(srcs_path)
        os.remove(trace_path)
        if res.ok and rej is None:
            break
        if rej is None:
            # an invariant violated, or a tool failure
            inv = res.violated or ""
            if "is violated" in inv:
                # find the trace position from the printed state (l = N)
                lval = None
                for line in res.lines:
                    if line.strip().startswith("/\\ l = "):
                        lval = int(line.strip()[7:])
                if lval is None:
                    raise vlib.ToolError("CursorTrace: invariant violated but no l: %s" % inv)
                n = lval - 1
                i = owner[n - 1] if 0 < n <= len(owner) else live[0]
                rejections.append({"item": i, "event_no": n, "event": "invariant: " + inv})
                live.remove(i)
                continue
            raise vlib.ToolError("CursorTrace failed: rc=%s\n%s" % (res.rc, "\n".join(res.lines[-30:])))
        # <<"REJECT", d, <<..event..>>>>
        body = rej[len('<<"REJECT", '):]
        d = int(body.split(",")[0])
        i = owner[d - 1]
        rejections.append({"item": i, "event_no": d, "event": body[body.index(",") + 1:].strip()})
        live.remove(i)
    accepted = len([1 for (s, ev) in items if ev is not None]) - len(rejections)
    return accepted, rejections, (states, trans)
