"""Concrete-syntax variation of WXML text: whitespace/line-break variants and multi-byte filler.
Used to push the harvested corpus and generated templates through position-sensitive checks."""

WS_CHOICES = [" ", "\n", "\r\n", "\t", "  ", " \n ", "\n\n"]
FILLER = ["é", "字", "😀", "ß", " x", "á"]


def vary_ws(src, rnd, p=0.6):
    """Replace single spaces that sit inside a tag (outside quotes) or inside {{ }} (outside string
    literals) with a random whitespace run containing line breaks."""
    out = []
    i = 0
    n = len(src)
    in_tag = False
    quote = None
    in_expr = False
    expr_quote = None
    while i < n:
        c = src[i]
        if in_expr:
            if expr_quote:
                if c == "\\" and i + 1 < n:
                    out.append(src[i:i + 2])
                    i += 2
                    continue
                if c == expr_quote:
                    expr_quote = None
            elif c in "'\"":
                expr_quote = c
            elif src.startswith("}}", i):
                in_expr = False
                out.append("}}")
                i += 2
                continue
            elif c == " " and rnd.random() < p:
                out.append(rnd.choice(WS_CHOICES))
                i += 1
                continue
            out.append(c)
            i += 1
            continue
        if src.startswith("{{", i):
            in_expr = True
            out.append("{{")
            i += 2
            continue
        if in_tag:
            if quote:
                if c == quote:
                    quote = None
            elif c in "'\"":
                quote = c
            elif c == ">":
                in_tag = False
            elif c == " " and rnd.random() < p:
                out.append(rnd.choice(WS_CHOICES))
                i += 1
                continue
        elif c == "<" and i + 1 < n and (src[i + 1].isalpha() or src[i + 1] in "/_"):
            in_tag = True
        out.append(c)
        i += 1
    return "".join(out)


def add_filler(src, rnd):
    """Multi-byte characters before the template and as text after some tags' `>`."""
    pre = "".join(rnd.choice(FILLER) for _ in range(rnd.randint(1, 3)))
    if rnd.random() < 0.7:
        pre += rnd.choice(["\n", "\r\n", " "])
    out = [pre]
    i = 0
    n = len(src)
    in_tag = False
    quote = None
    in_wxs = False
    while i < n:
        c = src[i]
        out.append(c)
        if in_tag:
            if quote:
                if c == quote:
                    quote = None
            elif c in "'\"":
                quote = c
            elif c == ">":
                in_tag = False
                if not in_wxs and rnd.random() < 0.3:
                    out.append(rnd.choice(FILLER))
        elif c == "<" and i + 1 < n and (src[i + 1].isalpha() or src[i + 1] in "/_"):
            in_tag = True
            if src.startswith("<wxs", i):
                in_wxs = True
            elif src.startswith("</wxs", i):
                in_wxs = False
        i += 1
    return "".join(out)


def variants(src, rnd, k=2):
    out = [src]
    for _ in range(k):
        v = vary_ws(src, rnd)
        if rnd.random() < 0.7:
            v = add_filler(v, rnd)
        if v not in out:
            out.append(v)
    return out


class LineIndex:
    """(line, utf16 col) <-> character offset for WXML sources (lines end at LF only)."""

    def __init__(self, s):
        self.s = s
        self.starts = [0]
        for i, ch in enumerate(s):
            if ch == "\n":
                self.starts.append(i + 1)

    def nlines(self):
        return len(self.starts)

    def line_text(self, ln):
        a = self.starts[ln]
        b = self.starts[ln + 1] - 1 if ln + 1 < len(self.starts) else len(self.s)
        return self.s[a:b]

    def offset(self, ln, col):
        """Character offset of (line, utf16 col), or None if it is not a character boundary of an
        existing line."""
        if ln < 0 or ln >= len(self.starts):
            return None
        a = self.starts[ln]
        end = self.starts[ln + 1] - 1 if ln + 1 < len(self.starts) else len(self.s)
        u = 0
        i = a
        while u < col and i < end:
            u += 2 if ord(self.s[i]) >= 0x10000 else 1
            i += 1
        if u != col:
            return None
        return i

    def slice(self, loc):
        a = self.offset(loc[0], loc[1])
        b = self.offset(loc[2], loc[3])
        if a is None or b is None or a > b:
            return None
        return self.s[a:b]

    def in_text(self, ln, col):
        if ln < 0 or ln >= len(self.starts):
            return False
        u = sum(2 if ord(c) >= 0x10000 else 1 for c in self.line_text(ln))
        return col <= u
