"""C12 — static strings reach the runtime character for character.

TLC: spec/JsString.tla — JavaScript's string-literal reader as a state machine over character
classes, sloppy and strict; Decode(Encode(s)) = s for every class string up to length 2-3, with
Encode instantiated by the forms *observed* from the real gen_lit_str.  Escape table: every Unicode
scalar value (thorough; a boundary-rich sample in quick) followed by each critical successor is
encoded by the real encoder and evaluated back by node in both modes.  Contexts: a representative of
every class, written raw and through every entity / escape spelling the parser documents, is put at
each embedding site; the template is compiled and executed and the string that reaches the runtime
at that site must be the denoted code points."""
import json
import os
import subprocess

import jsforms
import vlib

SUCCS = ["", "0", "7", "9", "a", "\"", "\\", "{", "\n"]

CLASS_REPS = {"NUL": "\0", "TAB": "\t", "LF": "\n", "CR": "\r", "CTRL": "\x01", "ESC": "\x1b", "DEL": "\x7f", "C1": "\x85", "NBSP": "\xa0",
              "DQ": '"', "SQ": "'", "BS": "\\", "LS": " ", "PS": " ", "BOM": "﻿", "ZWJ": "‍", "COMBINING": "é",
              "BMP": "\u5b57", "PUA": "\ue000", "ASTRAL": "😀", "MAXCP": "\U0010ffff", "LT": "<", "AMP": "&", "GT": ">", "LBRACE2": "{{",
              "RBRACE2": "}}", "DOLLAR": "${x}", "BACKTICK": "`", "NULDIGIT": "\x007", "SPACE": " a ", "PERCENT": "%41", "SEMI": ";",
              "SLASHSTAR": "/*x*/", "ENDSCRIPT": "</script>", "ASCII": "Az09_",
              "NAMEDDIGITS": "\u00bd\u00b2\u2234\u2591"}      # characters whose reference names contain digits (frac12, sup2, there4, blk14)


def spellings_html(s, rnd):
    """spellings of s as WXML text / attribute value: raw (minimally escaped), decimal, hex and named entities"""
    def esc(ch, mode):
        o = ord(ch)
        if mode == "raw":
            return {"<": "&lt;", "&": "&amp;", '"': "&quot;"}.get(ch, ch)
        if mode == "dec":
            return "&#%d;" % o
        if mode == "hex":
            return "&#x%x;" % o
        if mode == "dec0":          # leading zeros are legal in any number (HTML: "one or more digits")
            return "&#%010d;" % o
        if mode == "hex0":
            return "&#x%09X;" % o
        if mode == "hexX":          # (HTML: `&#x` or `&#X`)
            return "&#X%x;" % o
        if mode == "named":
            return {"<": "&lt;", ">": "&gt;", "&": "&amp;", '"': "&quot;", "'": "&apos;", "\xa0": "&nbsp;", "\u00bd": "&frac12;", "\u00b2": "&sup2;",
                    "\u2234": "&there4;", "\u2591": "&blk14;"}.get(ch, "&#%d;" % o)
    out = {}
    for mode in ("raw", "dec", "hex", "named", "dec0", "hex0", "hexX"):
        t = "".join(esc(c, mode) for c in s)
        out[mode] = t
    return out


def spellings_js(s):
    """spellings of s inside a single-quoted WXML expression string literal"""
    def esc(ch, mode):
        o = ord(ch)
        if mode == "raw":
            if ch in "'\\":
                return "\\" + ch
            if ch == "\n":
                return "\\n"
            if ch == "\r":
                return "\\r"
            return ch
        if mode == "x" and o < 256:
            return "\\x%02x" % o
        if o < 0x10000:
            return "\\u%04x" % o
        o -= 0x10000
        return "\\u%04x\\u%04x" % (0xD800 + (o >> 10), 0xDC00 + (o & 0x3FF))
    return {mode: "".join(esc(c, mode) for c in s) for mode in ("raw", "x", "u")}


def attr_contexts(cname, mode, q, v):
    """the static value v, spelled q (with its quotes, or without any), at every attribute site"""
    cases = []
    cases.append(("attr-value", cname, mode, '<v a=%s />' % q, v, None))
    cases.append(("class-value", cname, mode, '<v class=%s />' % q, v, None))
    cases.append(("style-value", cname, mode, '<v style=%s />' % q, v, None))
    cases.append(("id-value", cname, mode, '<v id=%s />' % q, v, None))
    cases.append(("event-value", cname, mode, '<v bind:tap=%s />' % q, v, None))
    cases.append(("mark-value", cname, mode, '<v mark:m=%s />' % q, v, None))
    cases.append(("data-value", cname, mode, '<v data:d=%s />' % q, v, None))
    cases.append(("slot-attr", cname, mode, '<v slot=%s />' % q, v, None))
    cases.append(("slot-name", cname, mode, '<slot name=%s />' % q, v, None))
    cases.append(("generic-value", cname, mode, '<v generic:g=%s />' % q, v, None))
    cases.append(("extra-attr-value", cname, mode, '<v extra-attr:e=%s />' % q, v, None))
    cases.append(("wx-key", cname, mode, '<v wx:for="{{l}}" wx:key=%s />' % q, v, {"l": []}))
    if v:
        cases.append(("template-name", cname, mode, '<template name=%s >OK</template><template is=%s />' % (q, q), "OK", None))
    return cases


def context_cases(rnd):
    cases = []
    # values written WITHOUT quotes (accepted with a ShouldQuoted warning): the value is the whole run of name characters
    # - letters, digits, `_`, `-`, `.` - up to the white space or the end of the tag
    for k, v in enumerate(["a-b", "row.1", "logo.png", "aspect-fit", "a_b-c.d", "1.5", "-x", "x-", "a--b..c", "Az09_"]):
        cases.extend(attr_contexts("UNQUOTED", "unquoted-%d" % k, v, v))
        cases.append(("attr-value", "UNQUOTED", "unquoted-end-%d" % k, "<v a=%s/>" % v, v, None))
        cases.append(("attr-value", "UNQUOTED", "unquoted-gt-%d" % k, "<v a=%s></v>" % v, v, None))
    for cname, v in CLASS_REPS.items():
        html = spellings_html(v, rnd)
        # NUL and other controls cannot be written through numeric entities? they can: &#0; is refused by HTML5 decoders; keep raw for NUL
        for mode, t in html.items():
            if "\0" in v and mode != "raw":
                continue
            if "{{" in v and mode == "raw":
                continue        # raw `{{` starts a binding
            if "}}" in v and False:
                continue
            cases.append(("static-text", cname, mode, "x%sy" % t, "x" + v + "y", None))
            cases.extend(attr_contexts(cname, mode, '"%s"' % t, v))
        for mode, t in spellings_js(v).items():
            cases.append(("string-literal", cname, "js-" + mode, "{{ '%s' }}" % t, v, None))
            cases.append(("attr-value", cname, "js-" + mode, "<v a=\"{{ '%s' }}\"/>" % t.replace('"', "\\x22"), v, None))
            # the literal as an operand, a branch, an item, a member value: not the whole binding
            tq = t.replace('"', "\\x22")
            cases.append(("attr-value", cname, "js-concat-" + mode, "<v a=\"{{ k + '%s' }}\"/>" % tq, "K" + v, {"k": "K"}))
            cases.append(("string-literal", cname, "js-branch-" + mode, "{{ c ? '%s' : 'n' }}" % t, v, {"c": True}))
            cases.append(("attr-value", cname, "js-item-" + mode, "<v a=\"{{ ['%s', k][0] }}\"/>" % tq, v, {"k": "K"}))
            cases.append(("attr-value", cname, "js-member-" + mode, "<v a=\"{{ {p: '%s'}.p }}\"/>" % tq, v, None))
    # a backslash before a line terminator continues the literal on the next line and denotes nothing (JavaScript's LineContinuation)
    for tname, term in (("LF", "\n"), ("CRLF", "\r\n"), ("CR", "\r"), ("LS", "\u2028"), ("PS", "\u2029")):
        cases.append(("string-literal", "CONT", "js-continuation-" + tname, "{{ 'a\\%sb' }}" % term, "ab", None))
        cases.append(("attr-value", "CONT", "js-continuation-" + tname, "<v a=\"{{ k + 'a\\%sb' }}\"/>" % term, "Kab", {"k": "K"}))
    # every named character reference of the HTML table (2 231 names; some denote two code points), in text and in an attribute
    import html.entities
    for nm, val in sorted(html.entities.html5.items()):
        if not nm.endswith(";"):
            continue
        cases.append(("static-text", "NAMEDREF", nm, "x&%sy" % nm, "x" + val + "y", None))
        if len(val) > 1 or ord(val[0]) > 0x7f:
            cases.append(("attr-value", "NAMEDREF", nm, '<v a="&%s"/>' % nm, val, None))
    # an ampersand followed by letters and digits outside ASCII and a semicolon is no character reference: it is text
    for k, t in enumerate(["Q&A环节; R&D部;", "caf&eé;", "&aé;", "&x٣;", "&é;"]):
        cases.append(("static-text", "NOREF", "noref-%d" % k, "x%sy" % t, "x" + t + "y", None))
        cases.append(("attr-value", "NOREF", "noref-%d" % k, '<v a="%s" />' % t, t, None))
    # names: identifier-like strings (the parser's own grammar for names)
    for n in ("ab", "a-b", "a.b", "a_b", "A9", "a--b", "a.b-c"):
        cases.append(("tag-name", "NAME", n, "<%s/>" % n, n if not any(c.isupper() for c in n) else n, None))
        cases.append(("attr-name", "NAME", n, '<v %s="1"/>' % n, n, None))
        cases.append(("event-name", "NAME", n, '<v bind:%s="h"/>' % n, n, None))
        cases.append(("mark-name", "NAME", n, '<v mark:%s="1"/>' % n, n, None))
        cases.append(("data-name", "NAME", n, '<v data:%s="1"/>' % n, n, None))
        cases.append(("generic-name", "NAME", n, '<v generic:%s="x"/>' % n, n, None))
    # names of the camel-cased families: a dash makes the character right after it a capital (if it is a letter) and nothing else
    for n, want in (("ab-cd", "abCd"), ("row-2nd", "row2nd"), ("a-_b", "a_b"), ("value-2x-y", "value2xY"), ("a--b", "aB"), ("a-b-", "aB"), ("x-1-2z", "x12z")):
        cases.append(("data-name", "CAMEL", n, '<v data-%s="1"/>' % n, want, None))
        cases.append(("model-name", "CAMEL", n, '<v model:%s="{{ a }}"/>' % n, want, None))
        cases.append(("change-name", "CAMEL", n, '<v change:%s="{{ a }}"/>' % n, want, None))
        cases.append(("worklet-name", "CAMEL", n, '<v worklet:%s="w"/>' % n, want, None))
    for k in ("ab", "$a", "_1", "if", "class", "__proto__x", "constructor"):
        cases.append(("object-key", "KEY", k, '<v a="{{ {%s: 1} }}"/>' % k, k, None))
        cases.append(("member-name", "KEY", k, '<v a="{{ o.%s }}"/>' % k, "M", {"o": {k: "M"}}))
    return cases


def sample_cps(tier):
    if tier != "quick":
        return [(0, 0xD800), (0xE000, 0x110000)]
    ranges = [(0, 0x300), (0x2000, 0x2100), (0xD7F0, 0xD800), (0xE000, 0xE010), (0xFE00, 0x10010), (0x1F600, 0x1F610), (0x10FFF0, 0x110000)]
    return ranges


def evaluate_contexts(ck, cases, on_fail, count=True):
    """cases: (site, class, spelling, template source, denoted string, data).  Each template is compiled and executed; the
    string reaching the runtime at the site must be the denoted one.  on_fail(case, got) is called otherwise."""
    size = 200
    for k in range(0, len(cases), size):
        ch = cases[k:k + size]
        files = [["c%d" % i, c[3]] for i, c in enumerate(ch)]
        vres = vlib.run_vh("tmpl", [{"id": k, "files": files, "want": ["groups"]}])[0]
        if vres["panic"]:
            # isolate
            for i, c in enumerate(ch):
                r1 = vlib.run_vh("tmpl", [{"id": 0, "files": [["c0", c[3]]], "want": ["groups"]}])[0]
                if r1["panic"]:
                    ck.notes.append("compiler panicked (C01): %r" % c[3][:80])
            continue
        warn_by_path = {w["path"]: (w["w"] or []) for w in vres["warn"]}
        rejected = {i for i in range(len(ch)) if any(x[1] >= 3 for x in warn_by_path.get("c%d" % i, []))}
        jc = [{"id": i, "path": "c%d" % i, "site": c[0], "expect": c[4], "data": c[5]} for i, c in enumerate(ch)]
        nres = vlib.run_node("drive_str.js", [{"bundle": vres["groups"], "cases": jc}], jobs=1)[0]
        if nres["errors"]:
            # a case broke the bundle: find it (C02 would report it too)
            for i, c in enumerate(ch):
                r1 = vlib.run_vh("tmpl", [{"id": 0, "files": [["c0", c[3]]], "want": ["groups"]}])[0]
                n1 = vlib.run_node("drive_str.js", [{"bundle": r1.get("groups", ""), "cases": [{"id": 0, "path": "c0", "site": c[0], "expect": c[4], "data": c[5]}]}], jobs=1)[0]
                ck.evaluations += 1
                if n1["errors"] or not n1["results"][0]["ok"]:
                    got = n1["errors"][0] if n1["errors"] else n1["results"][0]["got"]
                    on_fail(c, got)
            continue
        for ci_, (c, r) in enumerate(zip(ch, nres["results"])):
            if ci_ in rejected and str(c[2]).startswith("js-"):
                # the expression grammar refused this escape spelling (surrogate pairs) with an Error diagnostic: it denotes nothing
                ck.extra["spellings_not_accepted"] = ck.extra.get("spellings_not_accepted", 0) + 1
                continue
            if ci_ in rejected:
                # a character reference / raw character of WXML text refused with an Error: the constant never arrives
                on_fail(c, "(refused by the parser with an Error diagnostic)")
                continue
            ck.evaluations += 1
            ck.traces += 1
            if count:
                ck.nontrivial("%s|%s|%s" % (c[0], c[1], c[2]))
            if not r["ok"]:
                on_fail(c, r["got"])
            elif count and len(ck.samples) < 3 and c[1] in ("LS", "ASTRAL", "NULDIGIT"):
                ck.sample({"site": c[0], "class": c[1], "spelling": c[2], "source": c[3], "reaches_runtime_as": r["got"]})


def run(tier, seed, replay):
    ck = vlib.Check("C12", tier, seed)
    ck.rule = ("literals = encoder output for code points (all 1 112 064 scalars in thorough; ASCII, Latin-1, U+2000-20FF, surrogate "
               "and plane boundaries + every 257th scalar in quick) x 9 successors, evaluated back by node in sloppy and strict "
               "mode; contexts = 35 class representatives x entity/escape spellings x 16 embedding sites + names/keys; "
               "non-trivial = distinct (site, class, spelling)")
    ck.assumptions = ["node's evaluation of a literal is JavaScript's", "python builds the denoted string independently of the compiler"]
    rnd = vlib.rng(seed, "c12")
    vlib.build()
    os.makedirs(vlib.WORK, exist_ok=True)
    if not replay:
        # 1. class-level model with observed forms
        forms, lits = jsforms.observed_forms()
        fp = os.path.join(vlib.WORK, "forms-%d.json" % os.getpid())
        json.dump(forms, open(fp, "w"))
        res = vlib.tlc("JsString", cfg="JsString" if tier == "quick" else "JsStringT", workers=8, timeout=900, env={"VERIF_FORMS": fp})
        os.remove(fp)
        if res.violated and "RoundTrip" in res.violated:
            st = [l for l in res.lines if l.startswith("/\\ s =") or l.startswith("s =") or "strict =" in l]
            ck.report({"sig": "jsstring-roundtrip", "state": st[:2], "forms": lits},
                      "JsString: Decode(Encode(s)) # s for the observed encoder forms; TLC counterexample: %s" % st[:2])
        else:
            vlib.tlc_expect_ok(res, "JsString")
        ck.add_tlc(res)
        # 2. escape table evaluated back
        ranges = sample_cps(tier)
        if tier == "quick":
            extra = list(range(0x300, 0x110000, 257))
        else:
            extra = []
        procs = []
        def run_range(a, b):
            p1 = subprocess.Popen([vlib.VH, "tables", "escape", str(a), str(b), json.dumps(SUCCS)], stdout=subprocess.PIPE)
            p2 = subprocess.Popen(["node", os.path.join(vlib.RUNTIME, "drive_esc.js"), json.dumps(SUCCS)], stdin=p1.stdout, stdout=subprocess.PIPE)
            p1.stdout.close()
            return p2
        chunks = []
        for a, b in ranges:
            step = max(1, (b - a + 11) // 12) if (b - a) > 50000 else (b - a)
            x = a
            while x < b:
                chunks.append((x, min(b, x + step)))
                x += step
        if extra:
            cps = "".join("%d\n" % cp for cp in extra if not (0xD800 <= cp < 0xE000))
            p1 = subprocess.Popen([vlib.VH, "tables", "escape-list", json.dumps(SUCCS)], stdin=subprocess.PIPE, stdout=subprocess.PIPE)
            p2 = subprocess.Popen(["node", os.path.join(vlib.RUNTIME, "drive_esc.js"), json.dumps(SUCCS)], stdin=p1.stdout, stdout=subprocess.PIPE)
            p1.stdout.close()
            p1.stdin.write(cps.encode())
            p1.stdin.close()
            sparse = p2
        else:
            sparse = None
        # run at most 12 pipelines at a time
        pending = list(chunks)
        running = [(("sparse", 0), sparse)] if sparse is not None else []
        total = 0
        while pending or running:
            while pending and len(running) < 12:
                a, b = pending.pop()
                running.append(((a, b), run_range(a, b)))
            (ab, p) = running.pop(0)
            out, _ = p.communicate()
            r = json.loads(out.decode().strip().split("\n")[-1])
            total += r["checked"]
            for bad in r["bad"]:
                ck.report({"sig": "literal-roundtrip", "cp": bad["cp"], "succ": bad["succ"], "lit": bad["lit"], "strict": bad["strict"], "got": bad["got"]},
                          "U+%04X followed by %r is emitted as %s, which %s evaluates to %s" % (bad["cp"], bad["succ"], bad["lit"], "strict mode" if bad["strict"] else "sloppy mode", bad["got"]))
        ck.evaluations += total
        ck.traces += total
        ck.extra["literals_evaluated_back"] = total
        cases = context_cases(rnd)
    else:
        c = json.load(open(replay))["case"]
        cases = [(c["site"], c["cls"], c["mode"], c["src"], c["expect"], c.get("data"))]
    # 3. contexts
    def on_fail(c, got):
        ck.report({"sig": "context", "site": c[0], "cls": c[1], "mode": c[2], "src": c[3], "expect": c[4], "data": c[5], "got": got},
                  "%s / %s / %s: %r reaches the runtime as %r, denoted %r" % (c[0], c[1], c[2], c[3], got, c[4]))
    evaluate_contexts(ck, cases, on_fail)
    return ck.finish()
