"""C02 — every emitted JavaScript artefact is a syntactically valid program.

TLC: (1) spec/IdentTable.tla over the identifier table observed through the hook (every id up to
2.1*10^5): each name is an identifier, not reserved / relied upon / preserved, and the table is
injective; spec/IdentGen.tla: the allocator machine keeps names fresh w.r.t. enclosing scopes;
(2) spec/EmitSites.tla: every class deliverable at a paste site is one its embedding form can hold,
and every (site, class) pair becomes a template.  Replay: all artefacts (per-template object, bundle,
wx bundle, runtime, globals, scripts; normal and dev mode) of the EmitSites corpus, of the WxmlSem
families, of the Defects injections (whatever diagnostics), of the literal spellings and of a size
sweep are parsed by node (vm.Script) in sloppy and strict mode."""
import json
import os

import concretise
import semrun
import vlib

REP = {"ident": "ab", "dash": "a-b", "dot": "a.b", "dotdigit": "a.1", "digitstart": "1a", "unicode": "é字", "astral": "😀x",
       "space": "a b", "squote": "a'b", "dquote": 'a"b', "backslash": "a\\b", "newline": "a\nb", "cr": "a\rb", "ls": "a b",
       "nul": "a\0b", "nuldigit": "a\x001", "nuldigit0": "a\x000", "nuldigit9": "a\x009z\x008", "hash": "a#b", "lt": "a<b",
       "reserved2": "if", "reserved3": "for", "reserved-long": "class", "proto": "__proto__",
       "plain-body": "exports.a = 1;", "line-comment-end": "exports.a = 1 // c", "no-semicolon": "exports.a = 1",
       "closing-tag-like": "var s = '</v>';", "template-literal": "var t = `a${1}b`;", "regex-star": "var r = /a*/; /* c */",
       "use-strict": "'use strict'; exports.a = 1", "squote-body": "var q = 'it\\'s';", "block-comment-end": "exports.a = 1 /* c */",
       "empty-body": "", "html-close-comment-first": "--> the end of an HTML comment\nexports.a = 1", "html-open-comment-first": "<!-- hidden from old browsers\nexports.a = 1", "int": "7", "bigfloat": "1e21", "tinyfloat": "1e-7", "overflow": "1e309"}


def xattr(s):
    return s.replace("&", "&amp;").replace('"', "&quot;").replace("<", "&lt;")


def xtext(s):
    return s.replace("&", "&amp;").replace("<", "&lt;")


def js_str(s):
    out = []
    for ch in s:
        o = ord(ch)
        if ch in "'\"\\":
            out.append("\\" + ch)
        elif o < 0x20 or o in (0x2028, 0x2029):
            out.append("\\u%04x" % o)
        else:
            out.append(ch)
    return "".join(out)


def site_case(site, cls):
    v = REP[cls]
    files, scripts = [], []
    if site == "template-path":
        files = [["d/" + v, '<v a="{{a}}"/>'], ["d/main", '<include src="%s"/>' % xattr(v)]]
    elif site == "inline-module-path":
        files = [[v, '<wxs module="m">exports.a = 1</wxs><v a="{{m.a}}"/>']]
    elif site == "inline-module-name":
        files = [["a", '<wxs module="%s">exports.a = 1</wxs><v a="{{x}}"/>' % xattr(v)]]
    elif site == "script-path":
        scripts = [[v, "exports.a = 1"]]
        files = [["a", '<wxs module="m" src="/%s"/><v a="{{m.a}}"/>' % xattr(v)]]
    elif site == "include-path":
        files = [["a", '<include src="%s"/>' % xattr(v)]]
    elif site == "import-path":
        files = [["a", '<import src="%s"/><template is="t"/>' % xattr(v)]]
    elif site == "static-text":
        files = [["a", "x" + xtext(v) + "y"]]
    elif site == "attr-value":
        files = [["a", '<v a="%s" class="%s" bind:tap="%s"/>' % (xattr(v), xattr(v), xattr(v))]]
    elif site == "tag-name":
        files = [["a", "<%s a='1'/>" % v]]
    elif site == "attr-name":
        files = [["a", '<v %s="1" model:%s="{{a}}" change:%s="{{a}}"/>' % (v, v, v)]]
    elif site == "event-name":
        files = [["a", '<v bind:%s="h" catch:%s="{{a}}"/>' % (v, v)]]
    elif site == "mark-name":
        files = [["a", '<v mark:%s="1"/>' % v]]
    elif site == "data-name":
        files = [["a", '<v data:%s="1" data-%s="{{a}}"/>' % (v, v)]]
    elif site == "slot-value-name":
        files = [["a", '<dyn-c><v slot:%s a="{{ab}}">{{ab}}</v><block slot:%s="z">{{z}}</block></dyn-c>' % (v, v)]]
    elif site == "generic-name":
        files = [["a", '<v generic:%s="x" extra-attr:%s="y" worklet:%s="z"/>' % (v, v, v)]]
    elif site == "wx-key":
        files = [["a", '<v wx:for="{{l}}" wx:key="%s"/>' % xattr(v)]]
    elif site == "template-name":
        files = [["a", '<template name="%s">x</template><template is="%s"/>' % (xattr(v), xattr(v))]]
    elif site == "string-literal":
        files = [["a", "{{ '%s' }}<v a=\"{{ '%s' + a }}\"/>" % (js_str(v).replace('"', "\\x22"), js_str(v).replace('"', "\\x22"))]]
    elif site == "data-field":
        files = [["a", "{{ %s }}<v a=\"{{ %s.x }}\" wx:for=\"{{ %s }}\"/>" % (v, v, v)]]
    elif site == "member-name":
        files = [["a", "{{ a.%s }}<v model:a=\"{{ a.%s }}\"/>" % (v, v)]]
    elif site == "object-key":
        files = [["a", "{{ {%s: 1} }}<template is=\"t\" data=\"{{ %s: a }}\"/><v a=\"{{ {%s: a}.%s }}\"/>" % (v, v, v, v)]]
    elif site == "inline-script-body":
        files = [["a", '<wxs module="m">%s</wxs><wxs module="n">%s</wxs><v a="{{m.a}}"/>' % (v, v)]]
    elif site == "external-script-body":
        scripts = [["s", v], ["t", v]]
        files = [["a", '<wxs module="m" src="s"/><v a="{{m.a}}"/>']]
    elif site == "number-literal":
        files = [["a", "{{ %s }}<v a=\"{{ %s + 1 }}\"/>" % (v, v)]]
    else:
        raise vlib.ToolError("unknown site " + site)
    return files, scripts


def wide(n):
    return "".join('<v a="{{a}}"><w/></v>' for _ in range(n))


def deep(n):
    return "".join("<v a='{{a}}'>" for _ in range(n)) + "x" + "</v>" * n


def run(tier, seed, replay):
    ck = vlib.Check("C02", tier, seed)
    ck.rule = ("artefacts = {per-template object, bundle, wx bundle, runtime, globals, scripts} x {normal, dev} of: the EmitSites "
               "corpus (24 sites x deliverable classes), sampled cases of the WxmlSem families, all Defects injections, the "
               "literal spellings, and size-sweep templates (wide/deep up to 2*10^4 quick, 2.1*10^5 thorough); each parsed by "
               "node in sloppy and strict mode; non-trivial = distinct artefact source")
    ck.assumptions = ["node 20's vm.Script is the JavaScript grammar", "inline script bodies are drawn from a fixed set of valid JavaScript files"]
    rnd = vlib.rng(seed, "c02")
    groups = []      # (label, files, scripts)
    vlib.build()
    if replay:
        case = json.load(open(replay))["case"]
        if "files" in case:
            groups.append((case.get("label", "replay"), case["files"], case.get("scripts", [])))
    else:
        # ---- identifier table
        os.makedirs(vlib.WORK, exist_ok=True)
        N = 210000
        out = vlib.run_vh_raw(["tables", "ident", "0", str(N)])
        names = [l.split(" ", 1)[1] for l in out.split("\n") if l]
        npanic = 0
        for i, n in enumerate(names):
            if n.startswith("!"):
                npanic += 1
                if npanic <= 3:
                    ck.report({"sig": "ident-panic", "id": i, "msg": n[1:]},
                              "the identifier allocator panics for identifier #%d (%s): no artefact can be emitted for a scope with that many declarations" % (i, n[1:120]))
                names[i] = "zzP%d" % i
        d = os.path.join(vlib.WORK, "identchunks-%d" % os.getpid())
        os.makedirs(d, exist_ok=True)
        enc = lambda n: [ord(c) for c in n]
        csize = 30000
        nch = (N + csize - 1) // csize
        srt = sorted(names[26:])
        for c in range(nch):
            with open(os.path.join(d, "chunk%d.ndjson" % (c + 1)), "w") as f:
                for n in names[c * csize:(c + 1) * csize]:
                    f.write(json.dumps(enc(n)) + "\n")
            with open(os.path.join(d, "sorted%d.ndjson" % (c + 1)), "w") as f:
                for n in srt[max(0, c * csize - 1):(c + 1) * csize]:
                    f.write(json.dumps(enc(n)) + "\n")
        import re
        src = open(os.path.join(vlib.SPEC, "IdentNames.tla")).read()
        words = re.findall(r'"([^"]+)"', re.search(r"Reserved == \{(.*?)\}", src, re.S).group(1))
        json.dump([enc(w) for w in words], open(os.path.join(d, "reserved.json"), "w"))
        small = os.path.join(d, "small.ndjson")
        with open(small, "w") as f:
            for n in names[:200]:
                f.write(json.dumps(enc(n)) + "\n")
        env = {"VERIF_IDENT_DIR": d, "VERIF_RESERVED": os.path.join(d, "reserved.json"), "VERIF_IDENT": small}
        res = vlib.tlc("IdentTable", cfg="IdentTable", workers=4, timeout=900, env=env, tag="BADIDS")
        vlib.tlc_expect_ok(res, "IdentTable")
        ck.add_tlc(res)
        for c in res.cases:
            if c["mode"] == "sorted" and not c["injective"]:
                ck.report({"sig": "ident-not-injective", "chunk": c["c"]}, "two generated identifiers coincide (sorted chunk %d)" % c["c"])
            if c["mode"] == "ok":
                for k, v in (c["bad"] or {}).items():
                    ident = (c["c"] - 1) * csize + int(k) - 1
                    name = "".join(chr(x) for x in v)
                    ck.report({"sig": "ident-reserved", "id": ident, "name": name},
                              "generated identifier #%d is `%s`: reserved word or not an identifier" % (ident, name))
        res = vlib.tlc("IdentGen", cfg="IdentGen", workers=4, timeout=600, env=env)
        vlib.tlc_expect_ok(res, "IdentGen (fresh names in nested scopes)")
        ck.add_tlc(res)
        vlib.shell_rm(d)
        # ---- paste sites
        res = vlib.tlc("EmitSites", workers=4, timeout=600)
        vlib.tlc_expect_ok(res, "EmitSites (deliverable classes are holdable)")
        ck.add_tlc(res)
        for c in res.cases:
            files, scripts = site_case(c["site"], c["cls"])
            groups.append(("site %s / %s" % (c["site"], c["cls"]), files, scripts))
        # ---- WxmlSem families (sampled) and Defects
        runs = [dict(module="MCWxmlSem", cfg="MCWxmlSem_" + f, workers=3, timeout=900, sample=(25 if tier == "quick" else 4, seed))
                for f in ("F1", "F2", "F4", "F5", "F6", "F7", "F8")]
        runs += [dict(module="Defects", cfg="Defects_" + f, workers=3, timeout=900) for f in ("end", "cut", "unterminated", "garbage", "prefix", "dup", "struct")]
        for r in vlib.tlc_many(runs, parallel=4):
            vlib.tlc_expect_ok(r, "corpus")
            ck.add_tlc(r)
            for c in r.cases:
                for v, srcs in semrun.build_sources(c, rnd, 1, plain_first=False):
                    groups.append(("family case", [[p, t] for p, t in srcs], semrun.case_scripts(c) if "data" in c else []))
        # ---- names made of characters that are letters or digits to Unicode but not identifier characters to JavaScript
        # (superscripts, circled letters and digits, fractions, ...) next to names that are identifiers to both, in every
        # position where the generator pastes a name
        odd = ["m\u00b2", "x\u2460", "\u24d0", "h\u00bd", "\u00e9", "\u5b57\u6bb5", "a\u0301", "\u00aa", "\u2160", "a\u200db", "\u2118", "\u212e",
               "\u0660a", "a\u0660", "\u1885", "\u309b", "\U0001d7d8", "\U00020000", "x\u00b7y", "\u00b7x", "a\u203f", "\ufe33a"]
        forms = ["{{ %s }}", "{{ a.%s }}", "{{ a.%s.b }}", "{{ {%s: 1} }}", "{{ {%s} }}", "{{ %s ? 1 : 2 }}", '<v wx:if="{{ %s }}"/>',
                 '<v wx:for="{{ l }}" wx:for-item="%s">{{ %s }}</v>', '<c><v slot:%s>{{ %s }}</v></c>', '<wxs module="%s">exports.a=1</wxs>{{ %s.a }}',
                 '<v model:value="{{ %s }}"/>', '<v data:%s="1" mark:%s="2" bind:%s="h"/>']
        files = []
        for i, n in enumerate(odd):
            for j, f in enumerate(forms):
                files.append(["n%d_%d" % (i, j), f.replace("%s", n)])
        for k in range(0, len(files), 60):
            groups.append(("unicode names", files[k:k + 60], []))
        # ---- keys that JavaScript treats specially
        groups.append(("special keys", [["k%d" % i, t] for i, t in enumerate([
            "{{ {__proto__: a} }}", "{{ {__proto__: a, ...c, __proto__: b} }}", "{{ {constructor: a, constructor: b} }}",
            "{{ {a: 1, a: 2} }}", "{{ {__proto__} }}", "{{ a.__proto__.b }}", "<v model:value=\"{{ a.__proto__ }}\"/>",
            ])], []))
        # (each in a group of its own: a known finding must not hide its neighbours)
        groups.append(("duplicate __proto__ key", [["k", "{{ {__proto__: a, __proto__: b} }}"]], []))
        groups.append(("duplicate __proto__ key", [["k", "<template is=\"t\" data=\"{{ __proto__: a, __proto__: b }}\"/>"]], []))
        # ---- an extra runtime script (documented: valid statements ended by a semicolon) joins every artefact that carries the runtime
        for extra in ("var foo=1;", "function bar(){};", "/* c */;"):
            groups.append(("extra runtime script", [["a", "<v>{{a}}</v>"]], [], [["extra_runtime", extra]]))
            groups.append(("extra runtime script", [["a", "<wxs module=\"m\">exports.k=1</wxs>{{m.k}}"]], [["s", "exports.f=1"]], [["extra_runtime", extra]]))
        # ---- literal spellings
        lres = vlib.tlc("MCLiterals", cfg="MCLiterals", workers=4, timeout=600, sample=(3, seed) if tier == "quick" else None)
        vlib.tlc_expect_ok(lres, "MCLiterals")
        ck.add_tlc(lres)
        lits = []
        for c in lres.cases:
            s = c["s"] if isinstance(c["s"], str) else "".join(c["s"])
            lits.append("{{ %s }}" % (("'" + s + "'") if c["fam"] == "str" else s))
        for k in range(0, len(lits), 300):
            groups.append(("literals", [["l%d" % i, t] for i, t in enumerate(lits[k:k + 300])], []))
        # ---- every expression tree of spec/WxmlExpr.tla (every operator at every operand position of every operator),
        # in attribute, text and condition position: adjacent operator characters must not fuse in the emitted code
        eres = vlib.tlc("MCWxmlExpr", workers=6, timeout=900)
        vlib.tlc_expect_ok(eres, "MCWxmlExpr")
        ck.add_tlc(eres)
        exprs = []
        for n, c in enumerate(eres.cases):
            t = " ".join(c["toks"])
            if '"' in t:
                continue
            k = n % 3
            exprs.append('<v a="{{ %s }}"/>' % t if k == 0 else ('{{ %s }}' % t if k == 1 else '<v wx:if="{{ %s }}"/>' % t))
            # .. and as the data of a template reference (in parentheses: an expression, not the fields of an object
            # literal - constants included) or as the list of a wx:for
            exprs.append('<template is="t" data="{{ (%s) }}"/>' % t if n % 2 == 0 else '<v wx:for="{{ %s }}" wx:key="k">{{ item }}</v>' % t)
        for k in range(0, len(exprs), 400):
            groups.append(("expression trees", [["x%d" % i, t] for i, t in enumerate(exprs[k:k + 400])], []))
        groups.append(("constant template data", [["d%d" % i, '<template name="t"/><template is="t" data="{{ %s }}"/>' % t] for i, t in enumerate(
            ["5", "'abc'", "(null)", "1 + 2", "true", "undefined", "[1, 2]", "[]", "-1", "!0", "'a' + 'b'", "1 ? 2 : 3", "(5)", "0x1F", "''"])], []))
        # ---- size sweep
        sizes = [1000, 3000, 20000] if tier == "quick" else [1000, 3000, 20000, 60000, 210000]
        for n in sizes:
            groups.append(("wide %d" % n, [["a", wide(n)]], []))
        for n in ([60] if tier == "quick" else [60, 200]):
            groups.append(("deep %d" % n, [["a", deep(n)]], []))
    # compile everything, normal and dev
    vcases = []
    EXTRA = {}      # group index -> operations run before the files are added
    for i, g in enumerate(groups):
        if len(g) == 4:
            EXTRA[i] = g[3]
            groups[i] = g[:3]
    for i, (label, files, scripts) in enumerate(groups):
        for dev in (False, True):
            vcases.append({"id": i * 2 + int(dev), "files": files, "scripts": scripts, "dev": dev, "want": ["art"], "ops": EXTRA.get(i, [])})
    vres = vlib.run_vh("tmpl", vcases, timeout=1800)
    jobs = []
    for vc, r in zip(vcases, vres):
        ck.evaluations += 1
        if r["panic"]:
            continue        # C01
        arts = {}
        art = r.get("art") or {}
        for k, v in art.items():
            if k == "obj":
                for p, s in v.items():
                    if isinstance(s, str):
                        arts["obj:" + p] = s
            elif isinstance(v, str):
                arts[k] = v
        for s in arts.values():
            if len(s) < 4000:
                ck.nontrivial(s)
            else:
                ck.distinct_count += 1
        jobs.append({"id": vc["id"], "arts": arts})
    nres = vlib.run_node("drive_js.js", jobs, timeout=1800)
    isolated = 0
    for j, r in zip(jobs, nres):
        ck.traces += r["parsed"]
        if r["failures"]:
            label, files, scripts = groups[j["id"] // 2]
            f0 = r["failures"][0]
            if len(files) > 1 and isolated < 3:
                # find one file of the group whose own artefacts do not parse
                isolated += 1
                sv = vlib.run_vh("tmpl", [{"id": i, "files": [f], "scripts": scripts, "dev": bool(j["id"] % 2), "want": ["art"]} for i, f in enumerate(files)])
                sj = []
                for i, x in enumerate(sv):
                    a = {k: v for k, v in (x.get("art") or {}).items() if isinstance(v, str)}
                    sj.append({"id": i, "arts": a})
                for x, y in zip(sj, vlib.run_node("drive_js.js", sj, timeout=900)):
                    if y["failures"]:
                        files = [files[x["id"]]]
                        f0 = y["failures"][0]
                        r = y
                        break
            small_files = [[p, (t if len(t) < 2000 else t[:200] + "...(%d chars)" % len(t))] for p, t in files]
            ck.report({"sig": "js-syntax", "label": label, "files": files if sum(len(t) for _, t in files) < 20000 else small_files,
                       "scripts": scripts, "dev": bool(j["id"] % 2), "failures": r["failures"][:4]},
                      "%s: artefact `%s` does not parse (%s): %s\n  files: %s" % (label, f0["name"], f0["mode"], f0["msg"], json.dumps(small_files)[:300]))
        elif len(ck.samples) < 3:
            label, files, scripts = groups[j["id"] // 2]
            ck.sample({"group": label, "artefacts_parsed": r["parsed"], "files": [[p, t[:200]] for p, t in files][:3]})
    return ck.finish()
