"""C17 — :host conversion partitions rules without loss.

TLC checks on spec/CssRewrite.tla (family host of MCCss) that brackets balance in both outputs and
that every input rule is in exactly one output or dropped with a warning, never in both, and that
nothing moves with conversion off.  Replay: :host rules at at-rule depth 0..3 interleaved with
ordinary rules, :host(...), :host .a, :host, .a, :host:hover x {convert_host, class_prefix, host_is};
both real outputs against the two expected token sequences (wrappers = the enclosing at-rule chain),
and the warnings."""
import csscommon


def run(tier, seed, replay):
    return csscommon.run_css(
        "C17", tier, seed, replay, ["host"], ["tokens", "gaps", "prefix", "warnings", "numbers:int", "numbers:wrong"],
        "cases = 5 :host rule shapes x 3 interleavings x 4 enclosing at-rule chains (depth 0..3) x 8 option sets; "
        "non-trivial = distinct (source, options)", variants=1 if tier == "quick" else 3)
