"""C13 — cross-file references resolve by normalised path and are reported.

spec/Paths.tla is the reference resolver; TLC checks its laws (normalisation idempotent, never above
the root, absolute references ignore the base, "." is the identity) on every (base, rel) pair with
segments over {a, b, ., .., ""} and emits the resolved path.  Replayed three ways:
  1. crate::path::resolve (through the cfg-guarded hook) on every pair;
  2. one template per base holding an <import>, an <include> and a <wxs src> for every rel: the
     dependency queries of the group API must list exactly the resolved targets, in source order;
  3. family F8 of spec/MCWxmlSem.tla: groups of three files whose references are spelled in several
     ways, local / imported definitions of the same template name, nested includes; rendered under the
     reference runtime in every insertion order of the files and compared with Render (local
     definitions before imports, later imports before earlier)."""
import itertools
import json

import c04
import semrun
import vlib


def run(tier, seed, replay):
    ck = vlib.Check("C13", tier, seed)
    ck.rule = ("pairs = all (base <= 2-3 segments, rel <= 3-4 segments) over {a,b,.,..,''} x leading '/' (9 300 quick, 485 000 "
               "thorough), each also with the .wxml/.wxs suffix; groups = family F8 (610 cases) x every insertion order; "
               "non-trivial = pair whose resolution changes the text, or group that renders a cross-file node")
    ck.assumptions = ["files are registered under normalised paths (the property speaks of the template registered under the normalised path)"]
    rnd = vlib.rng(seed, "c13")
    if replay:
        case = json.load(open(replay))["case"]
        pairs = [case["pair"]] if "pair" in case else []
        gcases = [case] if "files" in case else []
    else:
        res = vlib.tlc("MCPaths", cfg="MCPaths" if tier == "quick" else "MCPathsT", workers=8, timeout=3000)
        vlib.tlc_expect_ok(res, "MCPaths (laws of the reference resolver)")
        ck.add_tlc(res)
        pairs = res.cases
        gres = vlib.tlc("MCWxmlSem", cfg="MCWxmlSem_F8", workers=8, timeout=900)
        vlib.tlc_expect_ok(gres, "MCWxmlSem F8")
        ck.add_tlc(gres)
        gcases = [dict(c, family="F8") for c in gres.cases]
    # 1. the resolver itself
    if pairs:
        inp = "".join(json.dumps({"base": p["b"], "rel": p["r"]}) + "\n" for p in pairs)
        out = vlib.run_vh_raw(["tables", "resolve"], inp, timeout=1200).split("\n")
        for p, line in zip(pairs, out):
            ck.evaluations += 1
            got = json.loads(line)["r"]
            if p["x"] != p["r"].lstrip("/"):
                ck.nontrivial("%s|%s" % (p["b"], p["r"]))
            if got != p["x"]:
                ck.report({"sig": "resolve", "pair": p, "got": got},
                          "resolve(%r, %r) = %r, reference says %r" % (p["b"], p["r"], got, p["x"]))
        # 2. through the tags: one file per base
        by_base = {}
        for p in pairs:
            by_base.setdefault(p["b"], []).append(p)
        bases = sorted(by_base)
        if tier == "quick":
            bases = rnd.sample(bases, min(len(bases), 12))
        vcases = []
        for b in bases:
            ps = by_base[b]
            parts = []
            # (one suffix is ignored - and one only: `x.wxml.wxml` names the file x.wxml)
            dbl = [p for p in ps if p["r"] not in ("", "/") and not p["r"].endswith(("/", ".", ".."))][:2]
            for i, p in enumerate(ps):
                suf = ".wxml" if i % 3 == 0 else ""
                parts.append('<import src="%s%s"/>' % (p["r"], suf))
            for i, p in enumerate(ps):
                suf = ".wxml" if i % 3 == 1 else ""
                parts.append('<include src="%s%s"/>' % (p["r"], suf))
            for i, p in enumerate(ps):
                suf = ".wxs" if i % 2 == 0 else ""
                parts.append('<wxs module="m%d" src="%s%s"/>' % (i, p["r"], suf))
            for p in dbl:
                parts.append('<import src="%s.wxml.wxml"/><include src="%s.wxml.wxml"/><wxs module="d%d" src="%s.wxs.wxs"/>' % (p["r"], p["r"], len(parts), p["r"]))
            vcases.append({"id": b, "files": [[b, "".join(parts)]], "want": ["deps"]})
        vres = vlib.run_vh("tmpl", vcases)
        for b, r in zip(bases, vres):
            ps = by_base[b]
            ck.traces += 1
            if r["panic"]:
                continue
            d = r["deps"].get(b)
            if d is None:
                ck.report({"sig": "deps-missing", "pair": ps[0]}, "no dependency list for %r" % b)
                continue
            # an empty src is a MissingSourcePath error: the element is dropped, not a reference
            exp = [p["x"] for p in ps if p["r"] != ""]
            dbl = [p for p in ps if p["r"] not in ("", "/") and not p["r"].endswith(("/", ".", ".."))][:2]
            dx = [p["x"] + ".wxml" for p in dbl]
            want_direct = exp + dx + exp + dx
            exp = exp + [p["x"] + ".wxs" for p in dbl]          # (script references)
            if d["direct"] != want_direct:
                k = next((i for i, (x, y) in enumerate(zip(d["direct"], want_direct)) if x != y), min(len(d["direct"]), len(want_direct)))
                ck.report({"sig": "direct-deps", "pair": ps[k % len(ps)], "got": d["direct"][k:k + 3], "want": want_direct[k:k + 3]},
                          "direct_dependencies(%r) differs at %d: got %s want %s" % (b, k, d["direct"][k:k + 3], want_direct[k:k + 3]))
            if d["script"] != exp:
                k = next((i for i, (x, y) in enumerate(zip(d["script"], exp)) if x != y), min(len(d["script"]), len(exp)))
                ck.report({"sig": "script-deps", "pair": ps[k % len(ps)], "got": d["script"][k:k + 3], "want": exp[k:k + 3]},
                          "script_dependencies(%r) differs at %d: got %s want %s" % (b, k, d["script"][k:k + 3], exp[k:k + 3]))
    # 3. groups, every insertion order
    if gcases:
        if tier == "quick":
            gcases = rnd.sample(gcases, min(len(gcases), 2000))
        units = []
        for ci, case in enumerate(gcases):
            for v, srcs in semrun.build_sources(case, rnd, 1 if tier == "quick" else 2):
                orders = list(itertools.permutations(srcs))
                if tier == "quick":
                    orders = rnd.sample(orders, min(3, len(orders)))
                for oi, order in enumerate(orders):
                    units.append({"ci": ci, "v": "%s/order%d" % (v, oi), "srcs": list(order)})
        records = semrun.replay(gcases, rnd, units=units, prefix=False)
        c04.report_records(ck, gcases, records)
        # the same groups compiled file by file: the object of each file is generated right after the file was added - while
        # the files added later are not in the group yet - and the objects are put together afterwards.  The links must not
        # depend on what the group held when an object was generated.  (Files without scripts: the per-file entry point does
        # not carry them.)
        plain = [i for i, c in enumerate(gcases) if not any(f.get("wxs") for f in c["files"])]
        keep = set(plain if tier != "quick" else rnd.sample(plain, min(len(plain), 700)))
        iunits = [dict(u) for u in units if u["ci"] in keep]
        if iunits:
            irecords = semrun.replay(gcases, rnd, units=iunits, prefix=False, want_extra=["incrgroups"], incremental=True)
            for r in irecords:
                r["vh"] = None
            c04.report_records(ck, gcases, irecords)
            ck.notes.append("%d (group, insertion order) pairs also compiled file by file (per-file objects generated on arrival)" % len(iunits))
        # the dependency queries of every file of every group: exactly the resolved import / include / script targets
        # (as multisets: the property does not order them), wherever the tags stand (branches, lists, definitions)
        def walk(nodes, out):
            for n in nodes:
                if n["t"] == "include":
                    out.append(n["path"])
                for key in ("ch", "els"):
                    if isinstance(n.get(key), list):
                        walk(n[key], out)
                for b in n.get("brs", []) or []:
                    walk(b["ch"], out)
            return out
        dcases = []
        downer = []
        for ci, case in enumerate(gcases):
            for v, srcs in semrun.build_sources(case, rnd, 3):      # several spellings: directives on the tag itself or on a block
                dcases.append({"id": len(dcases), "files": [[p_, t_] for p_, t_ in srcs], "want": ["deps"]})
                downer.append(case)
        for case, dc, r in zip(downer, dcases, vlib.run_vh("tmpl", dcases)):
            if r["panic"]:
                continue
            for f in case["files"]:
                d = (r.get("deps") or {}).get(f["path"])
                if d is None:
                    continue
                inc = walk(f["root"], [])
                for df in f.get("defs", []):
                    walk(df["ch"], inc)
                want = sorted(list(f.get("imports", [])) + inc)
                ck.evaluations += 1
                if sorted(d["direct"]) != want:
                    ck.report({"sig": "direct-deps-group", "files": case["files"], "data": case["data"], "tree": case["tree"], "family": "F8",
                               "file": f["path"], "got": d["direct"], "want": want},
                              "direct_dependencies(%r) = %s, the file's import / include references resolve to %s\n%s" % (
                                  f["path"], d["direct"], want, "\n".join("--- %s\n%s" % (p_, t_) for p_, t_ in dc["files"])))
    return ck.finish()
