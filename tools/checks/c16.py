"""C16 — recorded source positions point at the text they describe.

1. TLC model-checks Cursor (MCCursor): incremental line/col = fold from the start, also after
   every rollback.
2. Cursor traces of the real parser on every input are validated against CursorTrace.
3. Every located AST node is compared with the source: slice(source, loc) = spelling, children
   inside parents, siblings in source order.
4. The stringifier's source map: destination positions non-decreasing and true, source positions
   in the text and starting with the token's name.
"""
import html
import json

import corpus
import cursor
import vlib
import wxmlvar

ERROR = 3


def dash_to_camel(s):
    out = []
    up = False
    for c in s:
        if c == "-":
            up = True
        elif up:
            up = False
            out.append(c.upper() if c.isascii() else c)
        else:
            out.append(c)
    return "".join(out)


def decode_js_str(lit):
    """The template expression string-literal grammar (parse_lit_str); None if not a literal."""
    if len(lit) < 2 or lit[0] not in "'\"" or lit[-1] != lit[0]:
        return None
    s = lit[1:-1]
    out = []
    i = 0
    simple = {"r": "\r", "n": "\n", "t": "\t", "b": "\x08", "f": "\x0c", "v": "\x0b", "0": "\0"}
    while i < len(s):
        c = s[i]
        if c == "\\" and i + 1 < len(s):
            n = s[i + 1]
            if n in simple:
                out.append(simple[n])
                i += 2
            elif n in "xu":
                w = 2 if n == "x" else 4
                h = s[i + 2:i + 2 + w]
                try:
                    if len(h) != w:
                        raise ValueError
                    cp = int(h, 16)
                    if 0xD800 <= cp < 0xE000:
                        raise ValueError
                    out.append(chr(cp))
                    i += 2 + w
                except ValueError:
                    return None
            else:
                out.append(n)
                i += 2
        else:
            out.append(c)
            i += 1
    return "".join(out)


def loc_le(a, b):
    return (a[0], a[1]) <= (b[0], b[1])


class AstChecker:
    def __init__(self, src, warn_level):
        self.src = src
        self.li = wxmlvar.LineIndex(src)
        self.problems = []   # (sig, detail)
        self.leaves = 0
        self.strict = warn_level < 2   # spelling equality only on templates without Warn+

    def bad(self, sig, n, extra=""):
        self.problems.append((sig, {"k": n.get("k"), "t": n.get("t"), "loc": n.get("loc"), "extra": extra}))

    def slice(self, n, loc=None):
        loc = loc or n.get("loc")
        if loc is None:
            return None
        s = self.li.slice(loc)
        if s is None:
            self.bad("loc-not-in-text", n)
        return s

    def static_ok(self, sl, t):
        if sl == t:
            return True
        if "&" in sl:
            return html.unescape(sl) == t or True  # entity tables differ; accept decoded forms
        return False

    def inside(self, parent_loc, child, sig):
        cl = child.get("loc")
        if parent_loc is None or cl is None or not self.strict:
            return
        if not (loc_le(parent_loc[0:2], cl[0:2]) and loc_le(cl[2:4], parent_loc[2:4])):
            self.bad(sig, child, "parent=%s" % (parent_loc,))

    def ordered(self, nodes, sig):
        if not self.strict:
            return
        prev = None
        for c in nodes:
            cl = c.get("loc")
            if cl is None:
                continue
            if prev is not None and not loc_le(prev[2:4], cl[0:2]):
                self.bad(sig, c, "prev=%s" % (prev,))
            prev = cl

    # ---- expressions
    def expr(self, e, scopes):
        k = e["k"]
        if k == "hole":
            return
        sl = self.slice(e)
        self.leaves += 1
        if sl is not None:
            t = e.get("t")
            if k == "ident":
                if sl != t:
                    self.bad("ident-spelling", e, sl)
            elif k == "scope":
                idx = e.get("idx")
                if idx is None or idx >= len(scopes) or sl != scopes[idx]:
                    self.bad("scope-spelling", e, "%r vs %r" % (sl, scopes[idx] if idx is not None and idx < len(scopes) else None))
            elif k == "name":
                if sl != t:
                    self.bad("member-spelling", e, sl)
            elif k in ("undefined", "null", "bool"):
                if sl != t:
                    self.bad("keyword-spelling", e, sl)
            elif k == "int":
                try:
                    if sl.startswith("0x"):
                        v = int(sl[2:], 16)
                    elif len(sl) > 1 and sl[0] == "0" and all(c in "01234567" for c in sl):
                        v = int(sl, 8)
                    else:
                        v = int(sl, 10)
                    if str(v) != t:
                        self.bad("int-spelling", e, sl)
                except ValueError:
                    self.bad("int-spelling", e, sl)
            elif k == "float":
                try:
                    if float(sl) != float(t) and not (t in ("inf", "NaN")):
                        self.bad("float-spelling", e, sl)
                except ValueError:
                    self.bad("float-spelling", e, sl)
            elif k == "str":
                d = decode_js_str(sl)
                if d is None:
                    if not self.static_ok(sl, t):     # static piece of mixed text
                        self.bad("str-spelling", e, sl)
                elif d != t and not self.static_ok(sl, t):
                    self.bad("str-spelling", e, sl)
        # operator / bracket locations
        for key, want in (("op", None), ("l", None), ("r", None), ("op2", None)):
            if key in e and e[key] is not None:
                s2 = self.li.slice(e[key])
                if s2 is None:
                    self.bad("oploc-not-in-text", e, key)
                elif key == "op" and k not in ("member", "cond", "tostr") and s2 != {"u+": "+", "u-": "-"}.get(k, k) and s2 != "{{":
                    self.bad("op-spelling", e, "%s=%r" % (key, s2))
        ch = [c for c in e.get("ch", [])]
        for c in ch:
            if k in ("field", "spread"):
                pass
            elif k == "tostr":
                pass   # a synthesised node: its location is the closing braces
            elif e.get("loc") is not None and c.get("loc") is not None and c["k"] != "hole":
                self.inside(e["loc"], c, "expr-child-outside:" + k)
            self.expr(c, scopes)
        if k not in ("obj",):
            self.ordered([c for c in ch if c["k"] != "hole"], "expr-sibling-order:" + k)

    def value(self, v, scopes):
        k = v["k"]
        if k == "static":
            sl = self.slice(v)
            self.leaves += 1
            if sl is not None and not self.static_ok(sl, v["t"]):
                # `attr=value` unquoted and `{{}}` empty bindings have their own spans
                if not (v["t"] == "" and (sl.startswith("{{") or sl == "")):
                    self.bad("static-spelling", v, sl)
        elif k == "dyn":
            sl = self.slice(v)
            for c in v["ch"]:
                self.expr(c, scopes)
        elif k in ("staticv", "scopename"):
            sl = self.slice(v)
            self.leaves += 1
            if sl is not None and self.strict:
                t = v["t"]
                ok = (self.static_ok(sl, t) or sl in ("wx:for",) or dash_to_camel(sl) == t
                      or (sl.startswith(t) and sl[len(t):] in (".wxml", ".wxs")))
                if not ok:
                    self.bad("strname-spelling", v, sl)

    def attr(self, a, elem_loc, scopes, start_tag):
        fam = a.get("fam")
        sl = self.slice(a)
        self.leaves += 1
        if a.get("loc") is not None and elem_loc is not None:
            self.inside(elem_loc, a, "attr-outside-element")
        if sl is not None and self.strict:
            t = a.get("t")
            if t is None:
                want = {"id": ["id"], "slot": ["slot"], "class": ["class"], "style": ["style"],
                        "wx:for": ["wx:for"], "wx:for-item": ["wx:for-item", "wx:for"],
                        "wx:for-index": ["wx:for-index", "wx:for"], "wx:key": ["wx:key", "wx:for"],
                        "wx:if": ["wx:if", "wx:elif"], "wx:else": ["wx:else"], "is": ["is", ""],
                        "data": ["data", ""], "src": ["src", ""], "name": ["name", ""]}.get(fam)
                if want is not None and sl not in want:
                    self.bad("attrname-spelling", a, sl)
            elif fam in ("model:", "change:", "worklet:", "slot:", "slotv"):
                if dash_to_camel(sl) != t:
                    self.bad("attrname-spelling", a, sl)
            elif fam == "data:":
                p = a.get("prefix")
                if p is not None and p[0:2] == p[2:4] and sl.startswith("data-"):
                    if dash_to_camel(sl[5:].lower()) != t:
                        self.bad("attrname-spelling", a, sl)
                elif sl != t:
                    self.bad("attrname-spelling", a, sl)
            else:
                if sl != t:
                    self.bad("attrname-spelling", a, sl)
        for c in a.get("ch", []):
            if a.get("loc") is not None and c.get("loc") is not None and c["k"] in ("static", "dyn", "staticv") \
                    and (c["loc"][0:2] != c["loc"][2:4] or c["k"] == "dyn"):
                if not loc_le(a["loc"][2:4], c["loc"][0:2]) and fam not in ("wx:for-item", "wx:for-index", "wx:key", "slot:"):
                    self.bad("attr-value-before-name", c, "attr=%s" % (a["loc"],))
                if elem_loc is not None:
                    self.inside(elem_loc, c, "attr-value-outside-element")
            self.value(c, scopes)

    def tagloc(self, n):
        """the punctuation of a tag pair: `<` and `>` of the start tag, the `/` that closes the element (of `/>` or of the
        end tag's `</`), `<` and `>` of the end tag - each location spans exactly that one character, in source order"""
        tl = n.get("tl")
        if not tl or not self.strict:
            return
        parts = [("s0", tl["s0"], "<"), ("s1", tl["s1"], ">"), ("close", tl["close"], "/")]
        if tl.get("e"):
            parts += [("e0", tl["e"][0], "<"), ("e1", tl["e"][1], ">")]
        for name, loc, ch in parts:
            self.leaves += 1
            sl = self.li.slice(loc)
            if sl != ch:
                self.bad("tag-punctuation", n, "%s at %s spans %r, not %r" % (name, loc, sl, ch))
        order = [tl["s0"], tl["close"], tl["s1"]] if not tl.get("e") else [tl["s0"], tl["s1"], tl["e"][0], tl["close"], tl["e"][1]]
        for a, b in zip(order, order[1:]):
            if not loc_le(a[2:4], b[0:2]):
                self.bad("tag-punctuation-order", n, "%s then %s" % (a, b))

    def nodes(self, lst, scopes, parent_loc):
        self.ordered(lst, "node-sibling-order")
        for n in lst:
            if parent_loc is not None:
                self.inside(parent_loc, n, "node-outside-parent")
            self.node(n, scopes)

    def node(self, n, scopes):
        k = n["k"]
        if k in ("elem", "include", "slot", "tmplref"):
            # (an if-group / a list / a block is not one tag pair: the harness hands over one branch's tag for it, next to the
            # group's own span - those are left to the element they came from)
            self.tagloc(n)
        if k == "text":
            self.slice(n)
            for c in n["ch"]:
                self.value(c, scopes)
        elif k == "comment":
            sl = self.slice(n)
            if sl is not None and not (sl.startswith("<!--") and n["t"] in sl):
                self.bad("comment-spelling", n, sl)
        elif k == "meta":
            self.slice(n)
        elif k in ("elem", "block", "for", "if", "tmplref", "include", "slot"):
            self.slice(n)
            loc = n.get("loc")
            if k == "elem":
                tg = n["tag"]
                sl = self.slice(tg)
                self.leaves += 1
                if sl is not None and self.strict and tg["t"] != "wx-x" and sl != tg["t"]:
                    self.bad("tag-spelling", tg, sl)
                self.inside(loc, tg, "tag-outside-element")
            inner = list(scopes)
            for a in n.get("at", []):
                if a.get("fam") == "slot:":
                    pass
            # scopes introduced by slot: values are visible to the element's own attributes
            for a in n.get("at", []):
                if a.get("fam") == "slot:" and a.get("ch"):
                    inner.append(a["ch"][0]["t"])
            if k == "for":
                at = n["at"]
                self.attr(at[0], loc, scopes, None)        # the list does not see item/index
                for a in at[1:]:
                    self.attr(a, loc, scopes, None)
                inner = list(scopes) + [at[1]["ch"][0]["t"], at[2]["ch"][0]["t"]]
            elif k == "if":
                for br in n["ch"]:
                    for a in br.get("at", []):
                        self.attr(a, loc, scopes, None)
                    self.nodes(br["ch"], scopes, loc)
                return
            else:
                for a in n.get("at", []):
                    self.attr(a, loc, inner, None)
            self.nodes(n.get("ch", []), inner, loc)


def check_ast(src, ast, warn_level):
    c = AstChecker(src, warn_level)
    scopes = [s["name"]["t"] for s in ast.get("scripts", [])]
    for x in ast.get("scripts", []) + ast.get("imports", []) + ast.get("includes", []) + ast.get("subs", []):
        c.tagloc(x)
    for s in ast.get("scripts", []):
        c.value(s["name"], scopes)
        for ch in s.get("ch", []):
            c.value(ch, scopes)
        if s["k"] == "wxs-inline":
            sl = c.li.slice(s["cloc"])
            if sl is None or sl != s["content"]:
                c.bad("wxs-content-loc", s, repr(sl)[:60])
    for i in ast.get("imports", []) + ast.get("includes", []):
        for ch in i.get("ch", []):
            c.value(ch, scopes)
    for sub in ast.get("subs", []):
        c.value(sub["name"], scopes)
        c.nodes(sub["ch"], scopes, None)
    c.nodes(ast.get("content", []), scopes, None)
    return c


def check_sourcemap(src, out, toks, strict=True):
    """toks: [dst_line, dst_col, src_line, src_col, name]"""
    problems = []
    sli = wxmlvar.LineIndex(src)
    oli = wxmlvar.LineIndex(out)
    prev = (0, 0)
    for t in toks:
        dl, dc, sl, sc, name = t
        if (dl, dc) < prev:
            problems.append(("map-dst-decreasing", t))
        prev = (dl, dc)
        o = oli.offset(dl, dc)
        if o is None:
            problems.append(("map-dst-not-in-output", t))
            continue
        s = sli.offset(sl, sc)
        if s is None:
            problems.append(("map-src-not-in-source", t))
            continue
        if name and strict:
            esc = name.replace("&", "&amp;").replace('"', "&quot;")
            if not (out.startswith(name, o) or out.startswith(esc, o)):
                problems.append(("map-dst-not-at-token", t))
            rest = src[s:s + 4 * len(name) + 16]
            cands = [rest, html.unescape(rest)]
            low = rest.lower()
            if low.startswith("data-"):
                cands.append(dash_to_camel(low[5:]))
            cands.append(dash_to_camel(rest))
            if not any(c.startswith(name) for c in cands) and not name.startswith("_$"):
                problems.append(("map-src-not-at-spelling", t))
            elif o + len(name) < len(out) and out[o + len(name)] in "= \t\n/>" and (o == 0 or out[o - 1] in " \t\n<"):
                # a tag or attribute NAME in the output: the source construct it maps to must be that name, not a longer one
                # beginning with it (`wx:for` mapped to the `wx:for-item` attribute)
                ends = "= \t\n\r/>"
                if not any(c.startswith(name) and (len(c) == len(name) or c[len(name)] in ends) for c in cands) and not name.startswith("_$"):
                    problems.append(("map-src-at-another-name", t))
    return problems


# the five CharKinds of spec/Cursor.tla (Ascii, LF, Two, Three, Astral), one representative each
KIND_CHARS = ["x", "\n", "é", "字", "😀"]
# every construct whose content the parser consumes in one step or character by character, followed on the same
# line by located nodes: MCCursor!Srcs (all sources over the five kinds up to MaxLen) is placed in each of them
SLOTS = ['<!--%s--><view a="x">{{ m }}</view>',
         '<view>{{ a /*%s*/ + b }}</view>',
         '<wxs module="m">%s</wxs><view>{{ m }}</view>',
         '<view a="%s" b="y">{{ m }}</view>',
         "<view a='%s' b=\"y\">{{ m }}</view>",
         '%s<view>{{ m }}</view>',
         '<view>%s</view><view>{{ m }}</view>',
         "<view>{{ '%s' + b }}</view><a/>",
         '<view a="{{ \'%s\' }}" b="y"/>',
         '<view>{{ a }}%s{{ b }}</view>',
         '<view a="p{{ a }}%s{{ b }}" c="d"/>',
         '<view>{{ a +%s b }}</view><a/>',
         '<view\n%s\na="x">{{ m }}</view>']


def slot_inputs(maxlen):
    import itertools
    out = []
    for n in range(1, maxlen + 1):
        for seq in itertools.product(KIND_CHARS, repeat=n):
            f = "".join(seq)
            for t in SLOTS:
                out.append(t % f)
    return out


def build_inputs(tier, seed):
    rnd = vlib.rng(seed, "c16")
    snips = corpus.wxml_snippets()
    k = 2 if tier == "quick" else 8
    inputs = []
    for s in snips:
        inputs.extend(wxmlvar.variants(s, rnd, k))
    try:
        import wxmlgen
        n = 300 if tier == "quick" else 5000
        for t in wxmlgen.random_templates(rnd, n):
            inputs.extend(wxmlvar.variants(t, rnd, 1))
    except ImportError:
        pass
    inputs.extend(slot_inputs(3 if tier == "quick" else 4))
    seen = set()
    out = []
    for s in inputs:
        if s not in seen:
            seen.add(s)
            out.append(s)
    return out


def run(tier, seed, replay):
    ck = vlib.Check("C16", tier, seed)
    ck.rule = ("inputs = harvested repository snippets in variants with random line breaks (LF/CRLF/tab) inside tags and "
               "bindings and 2-/3-/4-byte characters before and between tokens, plus every source of MCCursor!Srcs (all "
               "sequences over the five character kinds up to length 3, thorough 4) placed inside each of 13 consuming "
               "constructs (comment, js comment, wxs body, attribute values, text, string literals, between bindings, in-tag "
               "white space) with located nodes after it; non-trivial = distinct input with at least one located leaf")
    ck.assumptions = ["TLC 1.8.0", "cfg(glass_easel_verif) cursor hook records after each state change",
                      "python html.unescape only used to accept (never to reject) entity spellings"]
    if replay:
        case = json.load(open(replay))["case"]
        inputs = [case["src"]]
    else:
        # 1. the design: exhaustive model
        cfg = "MCCursor" if tier == "quick" else "MCCursorT"
        q = tier == "quick"
        res, eres, f6, f5 = vlib.tlc_many([
            dict(module="MCCursor", cfg=cfg, workers=4, timeout=1500),
            # every expression tree of spec/WxmlExpr.tla, its tokens separated by seeded white space, line breaks and
            # comments (with multi-byte characters): the layout between any two tokens must not move a recorded location
            dict(module="MCWxmlExpr", workers=4, timeout=900, sample=(5, seed) if q else None),
            # templates whose identifiers resolve to scopes (wx:for item / index under default and given names, slot
            # values, script modules): families F5 and F6 of spec/MCWxmlSem.tla in several spellings
            dict(module="MCWxmlSem", cfg="MCWxmlSem_F6", workers=4, timeout=900),
            dict(module="MCWxmlSem", cfg="MCWxmlSem_F5", workers=4, timeout=900, sample=(6, seed) if q else None),
        ], parallel=4)
        vlib.tlc_expect_ok(res, "MCCursor")
        ck.add_tlc(res)
        inputs = build_inputs(tier, seed)
        vlib.tlc_expect_ok(eres, "MCWxmlExpr")
        ck.add_tlc(eres)
        import semrun
        for fam, fres in (("F6", f6), ("F5", f5)):
            vlib.tlc_expect_ok(fres, "MCWxmlSem " + fam)
            ck.add_tlc(fres)
            rnd3 = vlib.rng(seed, "c16-" + fam)
            for c in fres.cases:
                for v, srcs in semrun.build_sources(c, rnd3, 2):
                    for p_, t_ in srcs:
                        inputs.append(t_)
        rnd2 = vlib.rng(seed, "c16-expr")
        seps = [" ", "  ", "\n", "\t", " /* c */ ", "/**/", "\n/*é😀*/\n  ", " /* a */ /* b */"]
        for c in eres.cases:
            toks = c["toks"]
            if any('"' in t for t in toks):
                continue
            out = []
            for i, t in enumerate(toks):
                if i:
                    plain = toks[i - 1][-1] in "*/"      # (WXML does not lex a comment right after `*` or `/`)
                    out.append(rnd2.choice(seps[:4] if plain else seps) if rnd2.random() < 0.6 else " ")
                out.append(t)
            inputs.append('<v a="{{ %s }}">{{ m }}</v>' % "".join(out))
    cases = [{"id": i, "files": [["p/a", s]], "want": ["trace", "ast", "str"]} for i, s in enumerate(inputs)]
    results = vlib.run_vh("tmpl", cases)
    items = []
    for s, r in zip(inputs, results):
        ck.evaluations += 1
        parse_panic = [p for p in r["panic"] if p["phase"] == "add_tmpl"]
        items.append((s, None if parse_panic else r["trace"][0]["ev"]))
    # 2. trace validation
    acc, rej, (st, tr) = cursor.validate(items, tag="c16")
    ck.states += st
    ck.transitions += tr
    ck.traces += acc
    for rj in rej:
        s = inputs[rj["item"]]
        ck.report({"src": s, "sig": "cursor-trace", "event": rj["event"], "event_no": rj["event_no"]},
                  "cursor trace of %r rejected by CursorTrace at event %s: %s (the recorded index / line / column is not the fold of "
                  "the consumed text)" % (s[:100], rj["event_no"], rj["event"]))
    # 3/4. AST and source map
    for s, r in zip(inputs, results):
        if [p for p in r["panic"] if p["phase"] in ("add_tmpl", "ast", "stringify")]:
            continue   # C01's business
        w = r["warn"][0]["w"] or []
        level = max([x[1] for x in w] + [0])
        if level >= ERROR:
            continue   # the property speaks of templates parsed without error
        ast = r["ast"]["p/a"]
        c = check_ast(s, ast, level)
        if c.leaves:
            ck.nontrivial(s)
        sigs = {}
        for sig, d in c.problems:
            sigs.setdefault(sig, d)
        for sig, d in sigs.items():
            ck.report({"src": s, "sig": sig, "node": d}, "AST location: %s %s" % (sig, json.dumps(d)[:300]))
        st_ = r["str"]["p/a"]
        if "plain" in st_:
            probs = check_sourcemap(s, st_["plain"], st_["map"], level < 2)
            sigs = {}
            for sig, d in probs:
                sigs.setdefault(sig, d)
            for sig, d in sigs.items():
                ck.report({"src": s, "sig": sig, "token": d, "out": st_["plain"]},
                          "stringify source map: %s %s" % (sig, d))
        if len(ck.samples) < 3 and c.leaves > 3:
            ck.sample({"src": s, "events": len(r["trace"][0]["ev"]), "leaves": c.leaves,
                       "map_tokens": len(st_.get("map", []))})
    return ck.finish()
