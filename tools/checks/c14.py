"""C14 — stringify is a faithful, stable inverse of parse.

spec/Reprint.tla: at the abstract level printing + re-parsing yields the normal form of a template
(comments dropped, text merged, plain blocks spliced); TLC checks on every case of every family that
Render(Norm(t)) = Render(t) (stutter) and Norm(Norm(t)) = Norm(t) (fix-point after one round).
The implementation is bound by replay: every concretised case is printed by the real stringifier
(with and without scope-name mangling); the printed text must (1) re-parse without any diagnostic
above Note, (2) print to itself, (3) satisfy the specification's tree and update histories when
compiled in place of the original.  The repository's own test inputs and mutated / ill-formed inputs
(no specification tree) are checked for (1), (2) and by a differential on generated data."""
import json
import re

import c04
import c06
import corpus
import semrun
import vlib
import wxmlvar

FAMILIES = ["F1", "F2", "F3", "F4", "F5", "F6"]
HIST = ["UD", "UI", "US", "F4", "F5"]
KEYWORDS = {"true", "false", "null", "undefined", "typeof", "void", "instanceof", "item", "index"}


def gather(ck, tier, seed):
    cases = []
    runs = [dict(module="Reprint", cfg="MCReprint_" + f, workers=5, timeout=1800,
                 sample=(4, seed) if (tier == "quick" and f == "F1") else None) for f in FAMILIES]
    for f, res in zip(FAMILIES, vlib.tlc_many(runs, parallel=3)):
        vlib.tlc_expect_ok(res, "Reprint " + f)
        ck.add_tlc(res)
        cases += [dict(c, family=f) for c in res.cases]
    runs = [dict(module="MCInstance", cfg="MCInstance_" + f, workers=5, timeout=1800,
                 sample=((40, seed) if f in ("F4", "F5") else (4, seed)) if tier == "quick" else ((8, seed) if f in ("F4", "F5") else None))
            for f in HIST]
    for f, res in zip(HIST, vlib.tlc_many(runs, parallel=3)):
        vlib.tlc_expect_ok(res, "MCInstance " + f)
        ck.add_tlc(res)
        cases += [c06.to_case(c, f) for c in res.cases]
    return cases


def snippet_data(src, rnd, n=3):
    ids = []
    for m in re.finditer(r"\{\{(.*?)\}\}", src, re.S):
        for i in re.findall(r"(?<![\w$.'\"])[A-Za-z_$][\w$]*", m.group(1)):
            if i not in KEYWORDS and i not in ids:
                ids.append(i)
    pool = [1, 0, "s", "", True, None, [1, 2, 3], [{"a": 1, "id": "x"}, {"a": 2, "id": "y"}], {"a": 1, "b": {"c": 2}}, "ab", 2.5,
            None, False, "{{", "10"]
    out = []
    for k in range(n):
        d = {}
        for i in ids[:12]:
            if rnd.random() < 0.85:       # a field may also be absent (undefined)
                d[i] = rnd.choice(pool)
        out.append(d)
    return out


def expr_value_pass(ck, tree_cases, tier, seed):
    """D: every expression tree of spec/WxmlExpr.tla: the *printed* form of `<v a="{{ e }}"/>` (plain and mangled) must
    still evaluate to the reference value of the tree e (the C03 oracle applied after the stringifier)."""
    import c03
    cases = []
    for c in tree_cases:
        if "array-spread" in c03.known_sig(c["tree"]):
            continue            # C03's known finding would show through the printed text as well
        cases.append({"tree": c["tree"], "text": " ".join(c["toks"])})
    vcases = []
    size = 400
    for k in range(0, len(cases), size):
        vcases.append({"id": k, "files": [["e/%d" % i, '<v a="{{ %s }}"/>' % c["text"]] for i, c in enumerate(cases[k:k + size])], "want": ["str"]})
    vres = vlib.run_vh("tmpl", vcases)
    printed = []
    for k, r in zip(range(0, len(cases), size), vres):
        if r["panic"]:
            continue
        for i, c in enumerate(cases[k:k + size]):
            x = r["str"].get("e/%d" % i) or {}
            if any(w[1] >= 2 for w in (x.get("w") or [])):
                continue        # not accepted by the parser: nothing to preserve
            for key in ("plain", "mangled"):
                if x.get(key) is not None and (key == "plain" or x.get("mangled") != x.get("plain")):
                    printed.append({"tree": c["tree"], "text": c["text"], "printed": x[key], "mode": key})
    # the original spelling must itself agree with the tree, otherwise the disagreement is C03's
    bad_orig = set()
    c03.evaluate(ck, [dict(c) for c in cases], tier, seed, lambda c, m: bad_orig.add(c["text"]), count_nontrivial=False)

    def on_mismatch(c, m):
        if c["text"] in bad_orig:
            return
        ck.report({"sig": "printed-expression-value", "orig": '<v a="{{ %s }}"/>' % c["text"], "text": c["text"], "printed": c["printed"], "mode": c["mode"],
                   "tree": c["tree"], "env": m["env"], "got": m["got"], "want": m["want"]},
                  "the printed form evaluates differently (%s): {{ %s }} is printed as %r; with %s it gives %s, the source expression gives %s" % (
                      c["mode"], c["text"], c["printed"], m["env"], m["got"], m["want"]))
    c03.evaluate(ck, printed, tier, seed, on_mismatch, template_of=lambda c: c["printed"], count_nontrivial=False)
    ck.notes.append("expression pass: %d trees printed into %d texts and evaluated against the tree oracle" % (len(cases), len(printed)))


def string_context_pass(ck, rnd):
    """E: the embedding sites x character classes x spellings of C12 (quotes, ampersands, entities, line separators, NUL,
    astral characters in text, attribute values, names, keys, paths, string literals): the PRINTED template must still hand
    the denoted string to the runtime, re-parse without diagnostics above Note and print to itself."""
    import c12
    cases = c12.context_cases(rnd)
    bad = set()
    c12.evaluate_contexts(ck, cases, lambda c, got: bad.add(c[3]), count=False)
    cases = [c for c in cases if c[3] not in bad]          # (what the original does not deliver is C12's business)
    vres = vlib.run_vh("tmpl", [{"id": k, "files": [["c%d" % i, c[3]] for i, c in enumerate(cases[k:k + 200])], "want": ["str"]}
                                for k in range(0, len(cases), 200)])
    printed = []
    for k, r in zip(range(0, len(cases), 200), vres):
        if r["panic"]:
            continue
        for i, c in enumerate(cases[k:k + 200]):
            x = r["str"].get("c%d" % i) or {}
            if "plain" not in x or any(w[1] >= 3 for w in (x.get("w") or [])):
                continue
            out = x["plain"]
            if x.get("plain2") != out:
                ck.report({"sig": "not-a-fixpoint", "orig": c[3], "printed": out, "printed_again": x.get("plain2"), "mode": "plain"},
                          "printing is not a fix-point (plain):\n  source : %r\n  printed: %r\n  again  : %r" % (c[3], out, x.get("plain2")))
            worse = [w for w in (x.get("plain_w2") or []) if w[1] >= 2 and not any(v[0] == w[0] for v in (x.get("w") or []))]
            if worse:
                ck.report({"sig": "diagnostic-on-printed-text", "orig": c[3], "printed": out, "warn": worse, "mode": "plain"},
                          "re-parsing the printed text gives diagnostics the source did not have: %s\n  source : %r\n  printed: %r" % (worse, c[3], out))
            printed.append((c[0], c[1], c[2], out, c[4], c[5], c[3]))

    def on_fail(c, got):
        ck.report({"sig": "printed-string-differs", "orig": c[6], "printed": c[3], "site": c[0], "cls": c[1], "expect": c[4], "got": got, "mode": "plain"},
                  "the printed template hands another string to the runtime (%s / %s): %r is printed as %r, which delivers %r instead of %r" % (
                      c[0], c[1], c[6], c[3], got, c[4]))
    c12.evaluate_contexts(ck, printed, on_fail, count=False)
    ck.notes.append("string contexts: %d templates printed and executed" % len(printed))


def run(tier, seed, replay):
    ck = vlib.Check("C14", tier, seed)
    ck.rule = ("A: cases of families F1-F6 and update histories of UD/UI/US/F4/F5, concretised, printed by the real "
               "stringifier (plain and mangled) and replayed in place of the original; B: harvested repository snippets "
               "and whitespace/filler variants, original vs re-printed differential on generated data; non-trivial = "
               "distinct printed text containing a binding or a directive")
    ck.assumptions = ["the specification's tree/histories are the oracle for generated cases; for snippets the original "
                      "template under the reference runtime is"]
    rnd = vlib.rng(seed, "c14")
    if replay:
        case = json.load(open(replay))["case"]
        if case.get("sig") == "printed-expression-value":
            expr_value_pass(ck, [{"tree": case["tree"], "toks": [case["text"]]}], "thorough", seed)
            return ck.finish()
        if "files" in case:
            cases = [{"files": case["files"], "data": case["data"], "tree": case["tree"], "steps": case.get("steps") or [],
                      "family": case.get("family")}]
            snippets = []
        else:
            cases = []
            snippets = [case["orig"]]
    else:
        cases = gather(ck, tier, seed)
        snippets = []
        for s in corpus.wxml_snippets():
            snippets.extend(wxmlvar.variants(s, rnd, 1 if tier == "quick" else 4))
    # ---- A: generated cases
    units = []
    for ci, case in enumerate(cases):
        for v, srcs in semrun.build_sources(case, rnd, 1 if tier == "quick" else 2, plain_first=False):
            units.append({"ci": ci, "v": v, "srcs": srcs})
    # print every source
    chunk = 200
    vcases = []
    for k in range(0, len(units), chunk):
        files = []
        for ui, u in enumerate(units[k:k + chunk]):
            for p, t in u["srcs"]:
                files.append(["u%d/%s" % (ui, p), t])
        vcases.append({"id": k, "files": files, "want": ["str"]})
    vres = vlib.run_vh("tmpl", vcases)
    reprinted = []
    for k, r in zip(range(0, len(units), chunk), vres):
        for ui, u in enumerate(units[k:k + chunk]):
            ck.evaluations += 1
            st = [r["str"].get("u%d/%s" % (ui, p)) for p, _ in u["srcs"]]
            if r["panic"] or any(x is None or "plain" not in x for x in st):
                continue
            case = cases[u["ci"]]
            for key in ("plain", "mangled"):
                srcs2 = []
                for (p, t), x in zip(u["srcs"], st):
                    out = x.get(key)
                    srcs2.append((p, out))
                    if out is None:
                        continue
                    if any(ch in out for ch in ("{{", "wx:", "<")):
                        ck.nontrivial(out)
                    if x.get(key + "2") != out:
                        ck.report({"sig": "not-a-fixpoint", "src": t, "printed": out, "printed_again": x.get(key + "2"), "mode": key,
                                   "files": case["files"], "data": case["data"], "tree": case["tree"], "steps": case.get("steps"),
                                   "family": case.get("family")},
                                  "printing is not a fix-point (%s):\n  source : %r\n  printed: %r\n  again  : %r" % (key, t, out, x.get(key + "2")))
                    bad = [w for w in (x.get(key + "_w2") or []) if w[1] >= 2]
                    if bad:
                        ck.report({"sig": "diagnostic-on-printed-text", "src": t, "printed": out, "warn": bad, "mode": key,
                                   "files": case["files"], "data": case["data"], "tree": case["tree"], "steps": case.get("steps"),
                                   "family": case.get("family")},
                                  "re-parsing the printed text gives diagnostics above Note (%s): %s\n  source : %r\n  printed: %r" % (key, bad, t, out))
                if all(o is not None for _, o in srcs2):
                    reprinted.append({"ci": u["ci"], "v": key, "srcs": srcs2})
    if reprinted:
        for c in cases:
            c["mergeText"] = True      # Reprint!Norm: texts separated only by comments become one
        records = semrun.replay(cases, rnd, units=reprinted, chunk=120)
        c04.report_records(ck, cases, records, template_under_test=True)
    # ---- C: every expression tree of spec/WxmlExpr.tla as a binding (attribute and text position)
    if not replay:
        import concretise
        eres = vlib.tlc("MCWxmlExpr", workers=8, timeout=900)
        vlib.tlc_expect_ok(eres, "MCWxmlExpr")
        ck.add_tlc(eres)
        expr_value_pass(ck, eres.cases, tier, seed)
        string_context_pass(ck, rnd)
        for n, c in enumerate(eres.cases):
            if tier == "quick" and (n + seed) % 6:
                continue
            t = " ".join(c["toks"])
            if '"' in t:
                continue
            snippets.append('<v a="{{ %s }}"/>' % t)
            if rnd.random() < 0.5:
                snippets.append('{{ %s }}' % t)
        extra = ["{{ c + 'x' }}", "{{ 'x' + c }}", "<v a=\"{{ c + 'x' }}\"/>", "{{ '{{' }}", "x&#123;{c}}", "&#123;&#123;c}}", "{{ 1e21 }}",
                 "{{ 1e309 }}", "{{ a ?? b || c }}", "{{ - -a }}", "{{ + +a }}", "{{ a - -1 }}", "{{ typeof typeof a }}",
                 "{{ 'a\\'b' }}", "{{ 'a\\\\b' }}", "{{ 'a\\nb' }}", "{{ \"a'b\" }}", "<v a='{{ \"q\" }}'/>", "{{ a }}{{ b }}", "{{ a }} {{ b }}",
                 "{{ 0.1 }}", "{{ 1e-7 }}", "{{ 5e-324 }}", "{{ 123456789012345680000 }}", "{{ {a, b: c} }}", "{{ [a, ...b] }}",
                 "<v a=\"x{{ c + 'y' }}z\"/>", "{{ c }}&lt;{{ d }}", "<v a=\"{{ a }}&quot;{{ b }}\"/>",
                 # a brace right before a binding; a path that still ends in the suffix after the parser took one off
                 "a&#123;{{c}}", "<v a=\"p&#123;{{c}}\"/>", "a{{ '{' }}{{c}}", "{{c}}&#123;{{d}}", "a&#125;}{{c}}",
                 "<import src=\"a.wxml.wxml\"/><template is=\"t\"/>", "<include src=\"./b.wxml.wxml\"/>",
                 "<wxs module=\"m\" src=\"c.wxs.wxs\"/>{{m.x}}",
                 # children that print as nothing; static braces that only a comment keeps apart
                 "<div>{{ \"\" }}</div>", "<div><!-- c -->{{ '' }}<!-- d --></div>x", "<template name=\"a\"><!-- c --></template><template is=\"a\"/>",
                 "<v>a{<!---->{x}}</v>", "{<!-- c -->{ a }}", "<v>{{ a }}{<!-- c -->{</v>",
                 # an empty string literal as the whole value of the attributes with a place of their own
                 "<v id=\"{{ '' }}\"/>", "<v bind:tap=\"{{ '' }}\"/>", "<v wx:if=\"{{ '' }}\">a</v>", "<v class=\"{{ '' }}\" style=\"{{ '' }}\" slot=\"{{ '' }}\"/>",
                 "<slot name=\"{{ '' }}\"/>", "<template is=\"{{ '' }}\"/>", "<v wx:for=\"{{ '' }}\">b</v>", "<v a=\"{{ '' }}\" data:k=\"{{ '' }}\" mark:m=\"{{ '' }}\"/>"]
        snippets.extend(extra)
    # ---- B: snippets, original vs printed
    if snippets:
        sn = list(dict.fromkeys(snippets))
        vcases = [{"id": i, "files": [["s/a", s]], "want": ["str"]} for i, s in enumerate(sn)]
        vres = vlib.run_vh("tmpl", vcases)
        pairs = []
        for s, r in zip(sn, vres):
            ck.evaluations += 1
            x = r["str"].get("s/a") or {}
            if r["panic"] or "plain" not in x:
                continue          # C01
            level = max([w[1] for w in (x.get("w") or [])] + [0])
            for key in ("plain", "mangled"):
                out = x.get(key)
                if out is None:
                    continue
                if x.get(key + "2") != out:
                    ck.report({"sig": "not-a-fixpoint", "orig": s, "printed": out, "printed_again": x.get(key + "2"), "mode": key},
                              "printing is not a fix-point (%s):\n  source : %r\n  printed: %r\n  again  : %r" % (key, s, out, x.get(key + "2")))
                bad = [w for w in (x.get(key + "_w2") or []) if w[1] >= 2]
                if bad:
                    ck.report({"sig": "diagnostic-on-printed-text", "orig": s, "printed": out, "warn": bad, "mode": key},
                              "re-parsing the printed text gives diagnostics above Note (%s): %s\n  source : %r\n  printed: %r" % (key, bad, s, out))
                if level < 3 and "<wxs" not in s and "<import" not in s and "<include" not in s:
                    pairs.append((s, out, key))
        # differential: one group per chunk
        jobs = []
        meta = []
        for k in range(0, len(pairs), 150):
            ch = pairs[k:k + 150]
            files = []
            for i, (s, out, key) in enumerate(ch):
                files.append(["p%d/o" % i, s])
                files.append(["p%d/r" % i, out])
            jobs.append({"id": k, "files": files, "want": ["groups"]})
            meta.append(ch)
        gres = vlib.run_vh("tmpl", jobs)
        njobs = []
        nmeta = []
        for ch, r in zip(meta, gres):
            if r["panic"]:
                continue
            jc = []
            for i, (s, out, key) in enumerate(ch):
                jc.append({"id": i, "pair": ["p%d/o" % i, "p%d/r" % i], "datas": snippet_data(s, rnd, 6)})
            njobs.append({"bundle": r["groups"], "fns": {}, "cases": jc})
            nmeta.append(ch)
        nres = vlib.run_node("drive_tmpl.js", njobs, timeout=1800) if njobs else []
        for ch, r in zip(nmeta, nres):
            if r["errors"]:
                # some snippet breaks the bundle (C02's business): nothing can be concluded for this chunk
                ck.notes.append("a snippet bundle did not evaluate: %s" % r["errors"][0]["msg"][:120]) if len(ck.notes) < 10 else None
                continue
            for jr in r["results"]:
                s, out, key = ch[jr["id"]]
                ck.traces += 1
                for p in jr["problems"]:
                    if p["what"].startswith("tool:"):
                        continue
                    ck.report({"sig": p["what"], "orig": s, "printed": out, "mode": key, "problem": p},
                              "%s (%s): %s\n  source : %r\n  printed: %r" % (p["what"], key, json.dumps(p.get("diff")), s, out))
    return ck.finish()
