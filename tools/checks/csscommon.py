"""Shared driver of the stylesheet checks (C08, C09, C10, C17, C18, C19)."""
import json

import cssrun
import vlib


def run_css(pid, tier, seed, replay, families, aspects, rule, ratios=(750,), samples=None, variants=1, assumptions=None):
    ck = vlib.Check(pid, tier, seed)
    ck.rule = rule
    ck.assumptions = assumptions or ["cssparser's tokenizer re-tokenises the outputs (only its tokenizer is trusted, not its serialiser)",
                                     "python fractions evaluate value*100/ratio exactly"]
    rnd = vlib.rng(seed, pid)
    samples = samples or {}
    if replay:
        case = json.load(open(replay))["case"]
        groups = [("replay", [case["abstract"]])]
        variants = 6
    else:
        runs = []
        for fam in families:
            s = samples.get(fam, {}).get(tier)
            runs.append(dict(module="MCCss", cfg=("MCCss_" if tier == "quick" else "MCCssT_") + fam, workers=4, timeout=3000,
                             sample=(s, seed) if s else None))
        groups = []
        for fam, res in zip(families, vlib.tlc_many(runs, parallel=3)):
            vlib.tlc_expect_ok(res, "MCCss " + fam + " (brackets balance, rules partition)")
            ck.add_tlc(res)
            ck.notes.append("%s: %d of %d cases replayed" % (fam, len(res.cases), res.ncases))
            groups.append((fam, res.cases))
    tstat = {} if "srcmap" in aspects else None
    for fam, cases in groups:
        recs = cssrun.evaluate(cases, rnd, ratios=ratios, multiline=True, variants=variants, trace=tstat)
        for rec in recs:
            ck.evaluations += 1
            if rec["panic"]:
                # the sheet is well-formed by construction (the specification gives it two token sequences): a compiler that
                # panics on it produces neither, so what the property demands of this input does not exist
                pm = rec["panic"][0] if isinstance(rec["panic"], list) and rec["panic"] else rec["panic"]
                ck.report({"sig": "compiler-panic", "src": rec["src"], "opts": rec["opts"], "msg": str(pm)[:300], "family": fam,
                           "abstract": cases[rec["case"]]},
                          "the stylesheet compiler panicked on a well-formed sheet (%s): no output to compare with the specification\n  input : %r\n  opts  : %s" % (
                              str(pm)[:200], rec["src"], json.dumps(rec["opts"])))
                continue
            ck.traces += 1
            ck.nontrivial(rec["src"] + json.dumps(rec["opts"], sort_keys=True))
            seen = set()
            for aspect, where, msg in rec["findings"]:
                if not any(aspect == a or aspect.startswith(a + ":") for a in aspects):
                    continue
                key = (aspect, msg[:50])
                if key in seen:
                    continue
                seen.add(key)
                ck.report({"sig": aspect, "src": rec["src"], "opts": rec["opts"], "msg": msg, "family": fam,
                           "normal": rec["normal"], "low": rec["low"], "abstract": cases[rec["case"]]},
                          "%s: %s\n  input : %r\n  opts  : %s\n  normal: %r\n  low   : %r" % (
                              aspect, msg, rec["src"], json.dumps(rec["opts"]), rec["normal"], rec["low"]))
            if len(ck.samples) < 3 and not rec["findings"] and len(rec["src"]) > 30:
                ck.sample({"input": rec["src"], "options": rec["opts"], "normal": rec["normal"], "low": rec["low"]})
    if tstat:
        ck.states += tstat.get("states", 0)
        ck.transitions += tstat.get("transitions", 0)
        ck.traces += tstat.get("accepted", 0)
        ck.notes.append("OutMapTrace: %d output traces (%d events) validated against spec/OutMap.tla, %d accepted" % (
            tstat.get("traces", 0), tstat.get("events", 0), tstat.get("accepted", 0)))
    return ck.finish()
