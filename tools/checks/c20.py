"""C20 — compilation is a deterministic function of the set of inputs.

spec/Group.tla models the group as maps filled by any history of add / remove / import-group and
emitted by walking the maps in an arbitrary order; TLC checks that the artefact of a canonical
emitter is independent of the walk order (and, config GroupDefect, that a non-canonical one is not:
the defect of the pinned tree at design level) and that importing a group equals adding its files.
spec/MCGroup.tla emits every history with its final map; each is replayed into the real TmplGroup
in several fresh processes (fresh hash seeds): all artefacts must be one byte string per final map.
Stylesheets: the same sheet and options in several processes must give identical CSS and maps."""
import hashlib
import json
import subprocess

import corpus
import vlib

TMPL = {
    "x": '<wxs module="m">exports.k = 1;</wxs><wxs module="lib" src="/lib/u"/><import src="./b"/><template name="t{name}"><v a="{{{{alpha}}}}"/></template>'
         '<v p="{{{{alpha}}}}" q="{{{{beta}}}}" class="c {{{{gamma}}}}" bind:tap="{{{{delta}}}}">{{{{epsilon}}}} {{{{zeta + eta}}}}</v>'
         '<block wx:for="{{{{list}}}}" wx:key="k"><w data:i="{{{{index}}}}" mark:m="{{{{item.v}}}}">{{{{theta}}}}</w></block>'
         '<include src="/q/c"/><template is="t{name}" data="{{{{alpha, beta}}}}"/>',
    "y": '<wxs module="n" src="./s_{name}"/><v id="{{{{iota}}}}" style="{{{{kappa}}}}" hidden="{{{{lambda}}}}" data:a="{{{{mu}}}}" data:b="{{{{nu}}}}"'
         ' mark:c="{{{{xi}}}}">{{{{omicron}}}}{{{{pi}}}}{{{{rho}}}}</v><slot name="{{{{sigma}}}}" a="{{{{tau}}}}"/>'
         '<block wx:if="{{{{upsilon}}}}"><u>{{{{phi}}}}</u></block><block wx:else>{{{{chi}}}}{{{{n.f(psi)}}}}</block>'
         # names that differ from names of content z in letter case only (slot attributes and model: names keep their case):
         # what one file's names become must not depend on which spelling the process met first
         '<slot name="s2" itemData="{{{{tau}}}}" row-Index="{{{{mu}}}}"/><input model:Value="{{{{nu}}}}" data:Key="{{{{xi}}}}"/>',
    # no script module at all: whether the script runtime is emitted must not depend on which file came last
    "z": '<v id="{{{{aa}}}}" class="{{{{bb}}}}">{{{{cc}}}}</v><block wx:for="{{{{dd}}}}"><w>{{{{item}}}}{{{{ee}}}}</w></block>'
         '<template name="u{name}"><v a="{{{{ff}}}}"/></template><template is="u{name}" data="{{{{ff: gg}}}}"/>'
         '<slot itemdata="{{{{aa}}}}" row-index="{{{{bb}}}}"/><input model:value="{{{{cc}}}}" data:key="{{{{dd}}}}"/>'
         # several slot values on the children of one parent: their order in the emitted declarations must be fixed
         '<comp><view slot:item slot:index slot:first slot:last class="{{{{first ? hh : ii}}}}">{{{{index}}}}: {{{{item.n}}}} {{{{last ? jj : kk}}}}</view>'
         '<text slot:alpha slot:beta slot:gamma="g2">{{{{alpha}}}}{{{{beta}}}}{{{{g2}}}}</text></comp>',
}
# a file that reads no data field at all (content x includes the file at path c: whether an includer keeps its binding
# map must not depend on whether - or when - the included file is in the group)
TMPL["w"] = '<view class="footer">static footer</view><v id="i{name}" hidden/>'
TMPL["x2"] = TMPL["x"].replace("exports.k = 1;", "exports.k = 2;")     # content x after set_inline_script_content
# ("d" is another spelling of p/b: the group keys its files by the path string it is given, so these are two files)
PATHS = {"a": "p/a", "b": "p/b", "c": "q/c", "d": "p/./b"}
SCRIPT = {"x": "exports.f = function (v) { return v }", "y": "module.exports = { f: function (v) { return [v] } }"}


def ops_of(hist):
    ops = []
    sub = None        # contents added to the group being filled (its companion scripts travel with it)
    for h in hist:
        if h[0] == "sub_begin":
            sub = {}
        elif h[0] == "sub_end_import":
            ops.append([h[0]])
            # a file replaced by the import takes its companion script with it
            for name, c in (sub or {}).items():
                if c != "y":
                    ops.append(["remove_script", "p/s_" + name])
            sub = None
            continue
        if h[0] == "add_tmpl" and sub is not None:
            sub[h[1]] = h[2]
        if h[0] == "add_tmpl":
            p = PATHS[h[1]]
            ops.append(["add_tmpl", p, TMPL[h[2]].format(name=h[1])])
            if h[2] == "y":         # only this content refers to an external script
                ops.append(["add_script", "p/s_" + h[1], SCRIPT[h[2]]])
            else:
                ops.append(["remove_script", "p/s_" + h[1]])
        elif h[0] == "add_script":
            # a script on its own (possibly the only content of a group being imported); content z's sibling files refer to it
            ops.append(["add_script", "lib/" + h[1], SCRIPT[h[2]]])
        elif h[0] == "set_inline":
            ops.append(["set_inline", PATHS[h[1]], "m", "exports.k = 2;"])
        elif h[0] == "remove_tmpl":
            ops.append(["remove_tmpl", PATHS[h[1]]])
            ops.append(["remove_script", "p/s_" + h[1]])
        else:
            ops.append([h[0]])
    return ops


def pure(hist, final):
    """histories whose artefacts are compared with every other history of the same final maps: those in which the group
    never held a script that the final maps no longer hold (the group may legitimately keep the script runtime once a
    file with scripts has been seen, so such a history is only compared with itself across processes)"""
    seen = any((h[0] == "add_tmpl" and h[2] not in ("z", "w")) or h[0] == "add_script" for h in hist)
    now = any(c not in ("z", "w") for _, c in final)
    return seen == now


def digest(r):
    art = r.get("art") or {}
    return hashlib.sha1(json.dumps(art, sort_keys=True).encode()).hexdigest()


def run(tier, seed, replay):
    ck = vlib.Check("C20", tier, seed)
    ck.rule = ("histories = every behaviour of spec/MCGroup.tla (4 paths, 4 contents - inline script module + include, external script, no script, no data at all -, <= 4-5 operations incl. remove and "
               "import-group), each replayed in N fresh processes; per final map - over the histories that add each file once, i.e. insertion "
               "orders and import-group splits; histories with replacement / removal are compared with themselves across processes - all artefacts (per-template objects, "
               "bundle, wx bundle, runtime, globals, scripts) must hash equal; stylesheets = repository inputs x option sets "
               "x N processes; non-trivial = final map with >= 2 files reached by >= 2 histories")
    ck.assumptions = ["fresh processes draw fresh RandomState seeds; each TmplGroup instance within a process does too"]
    rnd = vlib.rng(seed, "c20")
    vlib.build()
    if replay:
        case = json.load(open(replay))["case"]
        hists = [{"hist": h, "final": case["final"]} for h in case["hists"]]
    else:
        for cfg in ("Group",):
            res = vlib.tlc("Group", cfg=cfg, workers=8, timeout=900)
            vlib.tlc_expect_ok(res, "Group (order independence, import = add)")
            ck.add_tlc(res)
        # (quick: histories of up to 4 operations, 1 500 of them; thorough: up to 5 operations - 930 000 histories - of which a
        # seeded twelfth is replayed)
        res = vlib.tlc("MCGroup", cfg="MCGroup" if tier == "quick" else "MCGroupT", workers=8, timeout=1800,
                       sample=None if tier == "quick" else (12, seed))
        vlib.tlc_expect_ok(res, "MCGroup")
        ck.add_tlc(res)
        hists = res.cases
        if tier == "quick":
            # every history of one or two operations (each pair of files in both orders), a seeded sample of the longer ones
            short = [h for h in hists if len(h["hist"]) <= 2]
            rest = [h for h in hists if len(h["hist"]) > 2]
            hists = short + rnd.sample(rest, min(len(rest), 1500))
        else:
            ck.notes.append("%d of %d histories replayed (seeded 1/12 sample of TLC's exhaustive enumeration)" % (len(res.cases), res.ncases))
    nproc = 4 if tier == "quick" else 6
    cases = [{"id": i, "ops": ops_of(h["hist"]), "want": ["art"]} for i, h in enumerate(hists)]
    by_final = {}
    for pr in range(nproc):
        # jobs=1: one process handles the whole list; different `pr` = different processes
        res = vlib.run_vh("tmpl", cases, jobs=4)
        for h, r in zip(hists, res):
            ck.evaluations += 1
            key = json.dumps(h["final"])
            if not pure(h["hist"], h["final"]):
                # C20 quantifies over the set of files.  A history that dropped its last script is only required to be
                # reproducible (the same history in every process)
                key = json.dumps({"final": h["final"], "hist": h["hist"]})
            if r["panic"]:
                continue
            # (only the first result of every digest is kept: the artefacts of a million replays do not fit in memory)
            dg = digest(r)
            lst = by_final.setdefault(key, [])
            lst.append((dg, h["hist"], None if any(d == dg for d, _, _ in lst) else r))
    for key, lst in by_final.items():
        ck.traces += len(lst)
        digs = {}
        for d, h, r in lst:
            if r is not None:
                digs.setdefault(d, (h, r))
        kk = json.loads(key)
        if isinstance(kk, list) and len(kk) >= 2 and len({json.dumps(h) for _, h, _ in lst}) >= 2:
            ck.nontrivial(key)
        if len(digs) > 1:
            (d1, (h1, r1)), (d2, (h2, r2)) = list(digs.items())[:2]
            which = [k for k in (r1.get("art") or {}) if json.dumps(r1["art"].get(k), sort_keys=True) != json.dumps((r2.get("art") or {}).get(k), sort_keys=True)]
            ck.report({"sig": "artefacts-differ", "final": kk if isinstance(kk, list) else kk["final"], "hists": [h1, h2], "artefacts": which,
                       "distinct": len(digs)},
                      "the same final group %s gave %d different artefact sets (differing: %s); e.g. histories %s and %s" % (
                          key, len(digs), which, json.dumps(h1), json.dumps(h2)))
        elif len(ck.samples) < 2:
            ck.sample({"final": kk if isinstance(kk, list) else kk["final"], "histories": len(lst), "digest": list(digs)[0]})
    # ---- stylesheets
    # (the same length spelled with and without an explicit sign, in neighbouring sheets: nothing may be remembered from one
    #  transformation to the next)
    sheets = corpus.css_snippets() + [".page { margin: +75rpx auto; top: -75rpx }", ".button { width: 75rpx; padding: 7.5rpx 75rpx }",
                                      ".c { inset: +0rpx 0rpx; width: +7.5rpx }", ".d{width:75RPX}", ".e{width:75rpx}.e2{width:+75rpx}"]
    optsets = [{}, {"class_prefix": "p", "class_prefix_sign": "S"}, {"convert_host": True, "host_is": "h", "import_sign": "I", "rpx_ratio": 375}]
    ccases = [{"id": i, "src": s, "opts": o, "tok": False} for i, (s, o) in enumerate((s, o) for s in sheets for o in optsets)]
    outs = []
    for pr in range(nproc):
        # every process meets the sheets in another order (process 0: as listed; jobs=1: one process, one thread)
        order = list(range(len(ccases)))
        if pr:
            vlib.rng(seed, "c20-css-%d" % pr).shuffle(order)
        res_s = vlib.run_vh("css", [ccases[i] for i in order], jobs=1)
        res = [None] * len(ccases)
        for i, r in zip(order, res_s):
            res[i] = r
        outs.append([hashlib.sha1(json.dumps([r.get("normal"), r.get("low"), r.get("nmap"), r.get("lmap")]).encode()).hexdigest() for r in res])
        ck.evaluations += len(res)
    for i, c in enumerate(ccases):
        if len({o[i] for o in outs}) > 1:
            ck.report({"sig": "css-differs", "final": [], "hists": [], "src": c["src"], "opts": c["opts"]},
                      "stylesheet output differs between processes: %r %s" % (c["src"][:80], c["opts"]))
    return ck.finish()
