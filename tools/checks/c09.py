"""C09 — class prefixing hits every class selector and nothing else.

Same runs as C08 (spec/CssRewrite.tla: an Ident directly after Delim('.') in selector context, at
any function depth and inside any rule-bearing at-rule, is the rewritten set; the sign comment marks
exactly those positions), with the verdict restricted to identifier tokens: every expected prefixed
identifier must be emitted prefixed (and carry the sign comment), every other identifier untouched,
for prefixes none / "" / ASCII / non-ASCII and sign on/off."""
import csscommon


def run(tier, seed, replay):
    return csscommon.run_css(
        "C09", tier, seed, replay, ["sel", "tok", "host"], ["prefix", "tokens"],
        "cases = MCCss families sel, tok and host (prefixing must survive :host conversion) x prefix in {none, '', 'p', non-ASCII} x sign in {none, 'S'}; the verdict looks at "
        "identifier and sign-comment tokens; non-trivial = distinct (source, options) containing a class selector",
        samples={"sel": {"quick": 8, "thorough": 2}}, variants=1 if tier == "quick" else 2)
