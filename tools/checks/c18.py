"""C18 — @import is replaced by a faithful placeholder.

spec/CssRewrite.tla (ImportOut / ImportPlain), family import of MCCss: paths over plain, spaces,
quotes, `*/`, percent signs, non-ASCII and astral characters, in string and url() form, every
combination of layer / layer(x) / supports(...) / media list, first or after another rule, sign
on/off.  With a sign: the comment's percent-decoded path equals the original, it stands where the
import stood, inside the expected @layer / @supports / @media wrappers, and the position warning is
present when a rule precedes the import and absent when it comes first (after other imports only it is optional); without a sign the rule re-tokenises to itself."""
import csscommon


def run(tier, seed, replay):
    return csscommon.run_css(
        "C18", tier, seed, replay, ["import"], ["tokens", "import", "warnings", "gaps", "prefix"],
        "cases = 10 paths x {string, url()} x layer {none, bare, (x)} x supports {none, cond} x media {none, type, query} "
        "+ imports after a rule, x sign on/off x prefix; non-trivial = distinct (source, options)",
        samples={"import": {"quick": 2, "thorough": None}}, variants=1 if tier == "quick" else 2)
