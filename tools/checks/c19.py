"""C19 — stylesheet source maps point each output token at its source token.

The reference transducer attaches to every output token its provenance (the input token it was
copied or rewritten from, or the construct that triggered it) and whether it is a replayed wrapper
(no entry).  The concretiser records the line / UTF-16 column of every input token; the real
output is re-tokenised with true UTF-16 columns.  For each non-whitespace token written through the
token path there must be an entry at its true generated column, whose source position is the
provenance token's start (a closing bracket may point at its opener, a synthesised token at its
trigger), rewritten tokens carry a name, entries are in non-decreasing order and the map survives
its JSON serialisation.  Inputs are multi-line with multi-byte characters in comments."""
import csscommon


def run(tier, seed, replay):
    return csscommon.run_css(
        "C19", tier, seed, replay, ["sel", "tok", "val", "host", "import"], ["srcmap"],
        "cases = all MCCss families (sampled) concretised over several lines with comments holding 2- and 4-byte characters; "
        "non-trivial = distinct (source, options)",
        samples={"sel": {"quick": 15, "thorough": 3}, "val": {"quick": 20, "thorough": 4}, "import": {"quick": 4, "thorough": None},
                 "host": {"quick": 2, "thorough": None}}, variants=1 if tier == "quick" else 2)
