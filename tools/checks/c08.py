"""C08 — stylesheet output keeps the token stream and all meaningful whitespace.

spec/CssRewrite.tla is the reference transducer; spec/MCCss.tla enumerates stylesheets (selectors:
every pair of compounds joined in every way, nested in selector functions to depth 3 and in every
rule-bearing at-rule; values: every token kind, calc with nested parentheses, nested functions; calc: every operand kind on either side of every operator at the top of calc(), in parentheses and in functions nested in it;
spelling-sensitive values) x option sets with the two expected token sequences and the gap
requirements (required / forbidden / free).  Both real outputs are re-tokenised by cssparser and
compared token by token; required gaps must hold whitespace, forbidden gaps none."""
import csscommon


def run(tier, seed, replay):
    return csscommon.run_css(
        "C08", tier, seed, replay, ["sel", "tok", "val", "calc", "host"], ["tokens", "gaps", "urange"],
        "cases = MCCss families sel (compound pairs x combinators x nesting x wrappers), tok (token kinds, spelling-sensitive "
        "values, at-rules) and val (numeric tokens x value shapes) x option sets, each concretised with seeded whitespace, "
        "comments and line breaks; non-trivial = distinct (source, options)",
        samples={"sel": {"quick": 8, "thorough": 2}, "val": {"quick": 12, "thorough": 3}, "calc": {"quick": 3, "thorough": None}}, variants=1 if tier == "quick" else 2)
