"""C11 — emitted l-value paths address exactly the value the expression reads.

Family F7 of spec/MCWxmlSem.tla: model: / event / change: / legacy event-like plain attributes /
slot values / wx:for lists over member chains, dynamic indices, nested for-items, conditionals,
inline and external script references, and every non-assignable form.  TLC checks get-put on the
specification (Eval(e, SetAt(D, LPath(e, D), w)) = w) for every case and attaches LPath to every
site; the harness compares each path the generated code hands to the runtime (R.r 4th/5th, R.v,
R.p, R.l last, F 4th argument) with it in the three prefix conventions, requires "no path" for
non-assignable expressions, and repeats get-put on the real code.  Family UL of spec/MCInstance.tla
re-evaluates data-dependent paths (dynamic keys, conditionals between data objects and between script
modules) through tree updates and binding-map updaters; the paths are judged again after every step."""
import json

import c04
import semrun
import vlib


def run(tier, seed, replay):
    ck = vlib.Check("C11", tier, seed)
    ck.rule = ("cases = family F7 (12 assignable + 10 non-assignable data expressions, 9 script expressions, 5 attribute "
               "families, 8 list shapes x 6 item expressions, nested lists) x 2 data objects x syntax variants; non-trivial "
               "= case in which the generated code handed at least one path to the runtime")
    ck.assumptions = ["runtime/refrt.js records the path arguments exactly as given"]
    rnd = vlib.rng(seed, "c11")
    if replay:
        case = json.load(open(replay))["case"]
        cases = [{"files": case["files"], "data": case["data"], "tree": case["tree"], "family": case.get("family", "F7"), "paths": True,
                  "steps": case.get("steps") or []}]
    else:
        res = vlib.tlc("MCWxmlSem", cfg="MCWxmlSem_F7", workers=8, timeout=900)
        vlib.tlc_expect_ok(res, "MCWxmlSem F7 (get-put on the specification)")
        ck.add_tlc(res)
        cases = [dict(c, family="F7", paths=True) for c in res.cases]
        # paths under update: family UL of spec/MCInstance.tla (a dynamic key, a conditional between data objects or script
        # modules), two steps of tree updates (exact / whole) and binding-map updates; the paths are judged after every step
        import c06
        res2 = vlib.tlc("MCInstance", cfg="MCInstance_UL", workers=6, timeout=900)
        vlib.tlc_expect_ok(res2, "MCInstance UL")
        ck.add_tlc(res2)
        for c in res2.cases:
            k = c06.to_case(c, "UL")
            k["paths"] = True
            cases.append(k)
    records = semrun.replay(cases, rnd, nvariants=2 if tier == "quick" else 5, chunk=100)
    given = 0
    getput = 0
    for rec in records:
        given += rec.get("pathsGiven", 0) or 0
        getput += rec.get("getput", 0) or 0
    c04.report_records(ck, cases, records)
    ck.distinct = set()
    for rec in records:
        if rec.get("pathsGiven"):
            ck.nontrivial(semrun.src_text(rec) + json.dumps(cases[rec["case"]]["data"]))
    ck.extra["paths_given"] = given
    ck.extra["getput_on_real_code"] = getput
    if given == 0:
        raise vlib.ToolError("no l-value path was ever observed: vacuous run")
    ck.exhaustive = True
    return ck.finish()
