"""C01 — both compilers are total: no panic, abort, hang or runaway allocation.

1. TLC enumerates every path of the generator machines spec/WxmlGen.tla and spec/CssGen.tla up to a length bound
   (every prefix is an input: end of input in every context), checks that the machines are well formed and connected,
   and walks long random paths (simulation).  spec/WxmlTags.tla adds every set of up to 2 (thorough 3) structural
   directives on every element kind in every sibling / parent context; a nesting family every opener to depths 1..64.
2. Every spelled path is pushed through *every* public entry point of both compilers in isolated worker processes
   (address-space limit, wall-clock budget, per-input parser-event fuel through the cfg-guarded hook): add_tmpl in
   normal and dev mode, all emitters, dependency queries, stringify with and without mangling (twice), and the
   stylesheet transformer under a cycling option set.  Outcome: ok | panic | hang | abort.
3. The recorded cursor traces of a sample are validated against spec/CursorTrace.tla (monotone progress between
   rollbacks, whole input consumed) - the spec-level reason a parse terminates.
4. The repository's own test inputs and byte-level mutations of them (with the characters the suite never feeds).
5. Growth: shape families at doubling sizes; parser events must stay within the fuel polynomial, CPU time and peak
   memory of a 4x larger input within 40x / 20x (between quadratic and cubic), output sizes within 64x.
"""
import json

import corpus
import cursor
import totalrun
import vlib

PATHS = ["a", "dir/a", "/abs/x", "ü/é", "", "a'b", "a\\b", "../up", "a.wxml", "p" * 200, "a\nb", "a#b"]


def option_sets():
    out = []
    for cp in (None, "", "p", "ü"):
        for sign in (None, "S"):
            for ratio in (750, 1, 0.5):
                for imp in (None, "IMP"):
                    for host in (False, True):
                        for his in (None, "IS"):
                            o = {"rpx_ratio": ratio, "convert_host": host}
                            if cp is not None:
                                o["class_prefix"] = cp
                            if sign:
                                o["class_prefix_sign"] = sign
                            if imp:
                                o["import_sign"] = imp
                            if his:
                                o["host_is"] = his
                            out.append(o)
    return out


OPTS = option_sets()


def fuel_for(src):
    n = len(src.encode()) + 8
    return 256 * n * n


def mk_case(src, i, family):
    return {"src": src, "path": PATHS[i % len(PATHS)], "opts": OPTS[(i * 37) % len(OPTS)], "fuel": fuel_for(src), "family": family}


# nesting family: openers nested to depth d, closed or left open (the property bounds nesting at 64)
NEST = [
    ("<div>", "</div>", "x"), ("<a><b>", "</b></a>", ""), ("<block wx:if=\"{{a}}\">", "</block>", "{{a}}"),
    ("<view wx:for=\"{{l}}\">", "</view>", "{{item}}"), ("<slot>", "</slot>", ""), ("<template is=\"t\">", "</template>", ""),
    ("{{(", ")}}", "a"), ("{{[", "]}}", "a"), ("{{{a:", "}}}", "1"), ("{{!", "}}", "a"), ("{{-", "}}", "1"), ("{{a?", ":0}}", "1"), ("{{a?1:", "}}", "2"),
    ("{{a+", "}}", "a"), ("{{a||", "}}", "a"), ("{{a??", "}}", "a"), ("{{a.", "}}", "b"), ("{{a[", "]}}", "0"), ("{{f(", ")}}", "x"), ("{{a&&(b||", ")}}", "c"),
    ("{{typeof ", "}}", "a"), ("{{[...", "]}}", "a"), ("<div a=\"{{(", ")}}\"/>", "a"),
    ("{{{...", "}}}", "a"), ("{{{b,...", "}}}", "a"), ("{{[a,...[", "]]}}", "b"), ("{{{...a,k:", "}}}", "1"), ("{{f({...", "})}}", "a"),
    (":not(", ")", ".a .b"), (":is(:where(", "))", ".a"), ("calc((", "))", "1rpx + 2px"), ("@media screen{", "}", ".a{}"), ("@layer{@supports (a:b){", "}}", ":host{}"),
    (".a{", "}", "color:red"), ("[", "]", "x"), ("(", ")", "1rpx"), ("f(", ")", ".a"), ("url(", ")", "x"), ("&{", "}", "color:red"),
]


def nest_cases(depths):
    out = []
    for op, cl, mid in NEST:
        for d in depths:
            if op.startswith("{{"):
                inner_op, inner_cl = op[2:], cl[:-2]
                out.append("{{" + inner_op * d + mid + inner_cl * d + "}}")
                out.append("{{" + inner_op * d + mid)
                out.append("{{" + inner_op * d)
            elif op.startswith("<div a="):
                out.append("<div a=\"{{" + "(" * d + mid + ")" * d + "}}\"/>")
                out.append("<div a=\"{{" + "(" * d + mid)
            else:
                out.append(op * d + mid + cl * d)
                out.append(op * d + mid)
                out.append(op * d)
                out.append(mid + cl * d)
    return out


# spelling of spec/WxmlTags.tla cases
TAG_CTX = {
    "none": "%s", "afterIf": '<a wx:if="{{x}}"/>%s', "afterIfWs": '<a wx:if="{{x}}"/>\n  <!-- c -->\n%s',
    "afterElif": '<a wx:if="{{x}}"/><a wx:elif="{{y}}"/>%s', "afterElse": '<a wx:if="{{x}}"/><a wx:else/>%s',
    "afterFor": '<a wx:for="{{l}}"/>%s', "afterText": "text%s", "afterComment": "<!-- c -->%s",
    "inFor": '<block wx:for="{{l}}" wx:key="k">%s</block>', "inIf": '<block wx:if="{{x}}">%s</block><block wx:else>e</block>',
    "inTemplateDef": '<template name="t">%s</template><template is="t"/>', "inSlotHost": "<comp>%s</comp>", "inSlot": "<slot>%s</slot>",
    "inInclude": '<include src="./b">%s</include>', "inWxs": '<wxs module="w">%s</wxs>',
}
DIR_SPELL = {
    "wx:if": ['wx:if="{{a}}"', 'wx:if="a"', 'wx:if=""', "wx:if", "wx:if='{{ a }}'"],
    "wx:elif": ['wx:elif="{{b}}"', 'wx:elif=""', "wx:elif", 'wx:elif="b"'],
    "wx:else": ["wx:else", 'wx:else=""', 'wx:else="{{c}}"'],
    "wx:for": ['wx:for="{{l}}"', 'wx:for=""', "wx:for", 'wx:for="ab"', 'wx:for="{{ 3 }}"'],
    "wx:key": ['wx:key="k"', 'wx:key="*this"', 'wx:key="{{k}}"', "wx:key", 'wx:key=""'],
    "wx:for-item": ['wx:for-item="it" wx:for-index="ix"', 'wx:for-item="{{it}}"', 'wx:for-item=""', 'wx:for-index="1x"'],
    "slot": ['slot="s"', 'slot="{{s}}"', "slot", 'slot=""'],
    "slot:x": ["slot:x", 'slot:x="y"', 'slot:x="{{y}}"', "slot:", 'slot:a-b="c"'],
    "is": ['is="t"', 'is="{{t}}"', "is", 'is=""'],
    "name": ['name="n"', 'name="{{n}}"', "name", 'name=""', 'name="t"'],
    "data": ['data="{{a}}"', 'data="{{ {a: 1} }}"', 'data="a"', "data", 'data="{{...o, a}}"'],
    "src": ['src="./b"', 'src="{{s}}"', "src", 'src=""', 'src="/abs/../b.wxml"'],
    "module": ['module="m"', 'module="{{m}}"', "module", 'module=""', 'module="1"'],
    "generic:g": ['generic:g="c"', 'generic:g="{{c}}"', "generic:g"],
    "model:v": ['model:v="{{a.b}}"', 'model:v="{{a+1}}"', 'model:v="x"', "model:v"],
    "wx:bogus": ['wx:bogus="1"', "wx:bogus", 'wx:="1"'],
}
DIR_ORDER = list(DIR_SPELL)


def spell_tag(c, n, rnd):
    dirs = sorted(c["dirs"], key=DIR_ORDER.index)
    if n % 3 == 1:
        dirs.reverse()
    elif n % 3 == 2:
        rnd.shuffle(dirs)
    attrs = "".join(" " + DIR_SPELL[d][(n // 3 + i) % len(DIR_SPELL[d])] for i, d in enumerate(dirs))
    k = c["kind"]
    if c["form"] == "self":
        t = "<%s%s/>" % (k, attrs)
    elif c["form"] == "content":
        t = "<%s%s>x{{v}}</%s>" % (k, attrs, k)
    elif c["form"] == "unclosed":
        t = "<%s%s>x" % (k, attrs)
    else:
        t = "<%s%s><%s%s/></%s>" % (k, attrs, k, attrs, k)
    return TAG_CTX[c["ctx"]] % t


MUT_CHARS = [" ", " ", "　", "\u0085", "​", "\x00", "\U0001F600", "<", ">", "{{", "}}", "\"", "'", "&", "/", "=", "\\", "(", ")", "[", "]", "{", "}",
             "0x", "0xg", "99999999999999999999", ";", ":", "@", "/*", "*/", "<!--", "-->", "\n", "\t", "é"]


def mutate(src, rnd):
    s = src
    for _ in range(rnd.choice((1, 1, 2, 3))):
        if not s:
            s = rnd.choice(MUT_CHARS)
            continue
        k = rnd.randrange(5)
        i = rnd.randrange(len(s) + 1)
        if k == 4:
            # keywords, directive and function names in another case
            j = i
            while j < len(s) and (s[j].isalpha() and s[j].isascii()):
                j += 1
            if j > i:
                word = s[i:j]
                s = s[:i] + rnd.choice([word.upper(), word.capitalize(), word.swapcase()]) + s[j:]
            continue
        if k == 0:
            s = s[:i] + rnd.choice(MUT_CHARS) + s[i:]
        elif k == 1:
            j = min(len(s), i + rnd.choice((1, 1, 2, 5, 20)))
            s = s[:i] + s[j:]
        elif k == 2:
            s = s[:i]           # end of input anywhere
        else:
            j = min(len(s), i + rnd.choice((1, 3, 10)))
            s = s[:i] + s[i:j] * 2 + s[j:]
    return s


# growth shapes: (name, builder(n bytes)); all flat or nested <= 64
def rep(unit, n):
    return unit * max(1, n // len(unit.encode()))


SHAPES = {
    "text": lambda n: rep("a", n),
    "elems": lambda n: rep("<div>x</div>", n),
    "attrs": lambda n: "<div " + " ".join('a%d="%d"' % (i, i) for i in range(max(1, n // 10))) + "/>",
    "binds": lambda n: rep("{{a}} ", n),
    "bindelems": lambda n: rep("<a b=\"{{c}}\">{{d}}</a>", n),
    "chain60": lambda n: rep("<a>{{" + "+".join(["a"] * 60) + "}}</a>", n),
    "strlit": lambda n: "{{ '" + "a" * n + "' }}",
    "ents": lambda n: rep("&amp;", n),
    "cmts": lambda n: rep("<!-- c -->", n),
    "lts": lambda n: rep("<", n),
    "ends": lambda n: rep("</a>", n),
    "eqs": lambda n: "<a " + "=" * n,
    "quotes": lambda n: "<a " + rep("\"", n),
    "for": lambda n: rep('<view wx:for="{{l}}" wx:key="k">{{item}}</view>', n),
    "ifs": lambda n: rep('<a wx:if="{{x}}"/><a wx:elif="{{y}}"/><a wx:else/>', n),
    "tmpls": lambda n: "".join('<template name="t%d">x</template>' % i for i in range(max(1, n // 34))),
    "wxs": lambda n: "".join('<wxs module="m%d">var a=1;</wxs>' % i for i in range(max(1, n // 32))),
    "deep64": lambda n: rep("<a>" * 64 + "{{x}}" + "</a>" * 64, n),
    "badtags": lambda n: rep("<1 <a =\"x\" b=> </ >", n),
    "objs": lambda n: rep("<a b=\"{{ {c:1,d:[e,f],...g} }}\"/>", n),
    "rules": lambda n: rep(".a{color:red}", n),
    "sels": lambda n: rep(".a,", n) + ".b{}",
    "decls": lambda n: ".a{" + rep("width:1rpx;", n) + "}",
    "vals": lambda n: ".a{margin:" + rep("1rpx ", n) + "}",
    "rbraces": lambda n: rep("}", n),
    "semis": lambda n: rep(";", n),
    "ats": lambda n: rep("@a ", n),
    "strs": lambda n: rep("\"", n),
    "hosts": lambda n: "@media screen{@supports (a:b){" + rep(":host{color:red}", n) + "}}",
    "imports": lambda n: rep("@import 'a' layer(x) supports(a:b) screen;", n),
    "medias": lambda n: rep("@media (width:1rpx){.a{}}", n),
    "badcss": lambda n: rep(".a{b:c(;} ]x) @m ;", n),
}
GROW_OPTS = {"convert_host": True, "import_sign": "I", "class_prefix": "p", "class_prefix_sign": "S", "host_is": "H", "rpx_ratio": 750}


def describe(case, res):
    o = res["outcome"]
    if o == "panic":
        p = res["panic"][0]
        phases = sorted(set(x["phase"] for x in res["panic"]))
        return "panic at %s: %s (in %s)" % (p.get("loc"), p.get("msg"), ", ".join(phases))
    if o == "hang":
        return "no result within %ss" % res.get("budget_s")
    if o == "abort":
        return "worker died (status %s)" % res.get("rc")
    return o


def sig_of(res):
    o = res["outcome"]
    if o == "panic":
        p = res["panic"][0]
        if "event fuel exhausted" in p.get("msg", ""):
            return "hang:event-fuel"
        return "panic:%s" % p.get("loc")
    return o


def run(tier, seed, replay):
    ck = vlib.Check("C01", tier, seed)
    ck.rule = ("cases = generator paths (every path of WxmlGen / CssGen up to the length bound, spelled by cycling the lexemes of each class), long "
               "walks, nesting family to depth 64, repository test inputs and seeded mutations, growth shapes at doubling sizes; each run through every "
               "entry point of both compilers; non-trivial = distinct input text")
    ck.assumptions = ["worker isolation: RLIMIT_AS 4 GiB, 8 MiB main-thread stack, wall-clock budget 10 s + 50 us/byte per input",
                      "parser progress is observed through the cfg-guarded event hook (fuel 256 (n+8)^2 events); emitters and the stylesheet "
                      "compiler are bounded by the wall-clock budget only",
                      "CPU time and peak RSS are read from wait4() of a fresh process per measurement"]
    rnd = vlib.rng(seed, "C01")
    quick = tier == "quick"
    seen_sig = {}

    def judge(cases, results):
        for c, r in zip(cases, results):
            if r is None:
                continue    # not run (too many bad outcomes already)
            ck.evaluations += 1
            ck.nontrivial(c["src"])
            if r["outcome"] == "ok":
                ck.traces += 1
                continue
            sig = sig_of(r)
            n = seen_sig.get(sig, 0)
            seen_sig[sig] = n + 1
            case = {"sig": sig, "family": c["family"], "src": c["src"], "path": c["path"], "opts": c["opts"], "fuel": c["fuel"],
                    "outcome": r["outcome"], "panic": r.get("panic", [])[:2]}
            if n < 6 or ck.classify(case) is not None:
                ck.report(case, "%s on %r%s (family %s, path %r, css options %s)" % (
                    describe(c, r), c["src"][:120], "..." if len(c["src"]) > 120 else "", c["family"], c["path"], json.dumps(c["opts"])))

    if replay:
        case = json.load(open(replay))["case"]
        c = {"src": case["src"], "path": case.get("path", "a"), "opts": case.get("opts", {}), "fuel": case.get("fuel", fuel_for(case["src"])),
             "family": case.get("family", "replay")}
        judge([c], totalrun.supervise([c], jobs=1, base_budget=60.0))
        return ck.finish()

    # ---- 1. generator paths
    gens = [("WxmlGen", "WxmlGen_q", None), ("CssGen", "CssGen_3", None), ("CssGen", "CssGen_q", (6, seed))] if quick else \
           [("WxmlGen", "WxmlGen_t", None), ("CssGen", "CssGen_q", None), ("CssGen", "CssGen_t", (12, seed))]
    covered = {}
    for module, cfg, sample in gens:
        table, paths, res = totalrun.generator_cases(module, cfg, sample=sample, seed=seed)
        ck.add_tlc(res)
        sp = totalrun.Speller(table, rnd)
        cases = []
        for i, p in enumerate(paths):
            cases.append(mk_case(sp.spell(p), i, "%s" % module))
            if not quick:
                cases.append(mk_case(sp.spell(p, variant=1), i + 1, "%s" % module))
        results = totalrun.supervise(cases)
        judge(cases, results)
        covered.setdefault(module, set()).update(sp.covered)
        ck.notes.append("%s/%s: %d of %d paths spelled into %d inputs; %d (context, class, lexeme) triples met so far" % (
            module, cfg, len(paths), res.ncases, len(cases), len(covered[module])))
        if len(ck.samples) < 2 and cases:
            ck.sample({"input": cases[len(cases) // 2]["src"], "path_of_classes": paths[len(paths) // 2]})

    # ---- 1b. long walks (TLC simulation over the same machines)
    for module in ("WxmlGen", "CssGen"):
        tables = []
        res = vlib.tlc(module, module + "_walk", workers=1, timeout=600, simulate=60 if quick else 600, depth=130, seed=seed, tag="WALK", tables=tables)
        vlib.tlc_expect_ok(res, module + " walks")
        sp = totalrun.Speller(tables[0], rnd)
        cases = []
        for i, c in enumerate(res.cases):
            for v in range(1 if quick else 3):
                cases.append(mk_case(sp.spell(c["p"], variant=1), i + v, module + ":walk"))
        judge(cases, totalrun.supervise(cases))
        ck.notes.append("%s walks: %d paths of 120 steps" % (module, len(res.cases)))
        ck.states += res.distinct

    # ---- 1b'. structural directive combinations (spec/WxmlTags.tla)
    res = vlib.tlc("WxmlTags", "WxmlTags_2" if quick else "WxmlTags_3", workers=4, timeout=1800, sample=(2, seed) if quick else (3, seed))
    vlib.tlc_expect_ok(res, "WxmlTags")
    ck.add_tlc(res)
    cases = [mk_case(spell_tag(c, n, rnd), n, "tags") for n, c in enumerate(res.cases)]
    judge(cases, totalrun.supervise(cases))
    ck.notes.append("directive combinations: %d of %d (context, kind, directive set, form) cases" % (len(cases), res.ncases))

    # ---- 1c. nesting to depth 64
    depths = (1, 2, 8, 33, 64) if quick else (1, 2, 3, 4, 8, 16, 32, 48, 63, 64)
    cases = [mk_case(s, i, "nest") for i, s in enumerate(nest_cases(depths))]
    judge(cases, totalrun.supervise(cases))
    ck.notes.append("nesting family: %d inputs, depths %s" % (len(cases), list(depths)))

    # ---- 4. repository inputs and mutations
    base = [s for s in corpus.wxml_snippets()] + [s for s in corpus.css_snippets()]
    cases = [mk_case(s, i, "corpus") for i, s in enumerate(base)]
    nm = 6 if quick else 60
    for i, s in enumerate(base):
        for k in range(nm):
            cases.append(mk_case(mutate(s, rnd), i + k, "mutation"))
    results = totalrun.supervise(cases)
    judge(cases, results)
    ck.notes.append("repository corpus: %d inputs, %d mutations" % (len(base), len(cases) - len(base)))

    # ---- 4b. the well-formed templates of the semantic families (scopes, lists, nested structures): every emitter must
    # return on them too - the generator machines know lexical contexts, these know which shapes mean something
    import semrun
    fam_runs = [dict(module="MCWxmlSem", cfg="MCWxmlSem_" + f, workers=4, timeout=900, sample=(smp, seed) if smp else None)
                for f, smp in (("F6", 3 if quick else None), ("F5", 12 if quick else 2), ("F2", 12 if quick else 2), ("F7", 4 if quick else None))]
    fam_cases = []
    for fr in vlib.tlc_many(fam_runs, parallel=4):
        vlib.tlc_expect_ok(fr, "MCWxmlSem (templates for C01)")
        ck.add_tlc(fr)
        for c in fr.cases:
            for v, srcs in semrun.build_sources(c, rnd, 1, plain_first=False):
                for p_, t_ in srcs:
                    fam_cases.append(mk_case(t_, len(fam_cases), "spec-family"))
                    if rnd.random() < 0.3:
                        fam_cases.append(mk_case(mutate(t_, rnd), len(fam_cases), "spec-family-mutation"))
    judge(fam_cases, totalrun.supervise(fam_cases))
    ck.notes.append("spec families F2/F5/F6/F7: %d inputs" % len(fam_cases))

    # cursor trace validation: structured sample of what ran fine
    pool = [c for c, r in zip(cases, results) if r and r["outcome"] == "ok" and r.get("events", 0) > 0 and len(c["src"]) < 600]
    rnd.shuffle(pool)
    pool = pool[:300 if quick else 3000]
    if pool:
        outs = vlib.run_vh("tmpl", [{"id": i, "files": [[c["path"], c["src"]]], "want": ["trace"]} for i, c in enumerate(pool)])
        items = []
        for c, o in zip(pool, outs):
            tr = o.get("trace") or []
            items.append((c["src"], tr[0]["ev"] if tr and not o.get("panic") else None))
        acc, rej, (st, trn) = cursor.validate(items, tag="c01cursor")
        ck.states += st
        ck.transitions += trn
        ck.notes.append("CursorTrace accepted %d of %d parser traces" % (acc, len([1 for _, e in items if e is not None])))
        for rj in rej:
            c = pool[rj["item"]]
            ck.report({"sig": "cursor-trace", "family": c["family"], "src": c["src"], "path": c["path"], "opts": c["opts"], "fuel": c["fuel"],
                       "outcome": "trace-rejected", "event": rj},
                      "parser trace rejected by CursorTrace at event %s (%s) on %r" % (rj["event_no"], rj["event"], c["src"][:120]))

    # ---- 5. growth
    sizes = (4, 16, 64) if quick else (4, 16, 64, 256)
    growth = {}
    import concurrent.futures as cf

    def one(name, kb):
        src = SHAPES[name](kb * 1024)
        c = {"src": src, "path": "a", "opts": GROW_OPTS, "fuel": fuel_for(src), "family": "growth:" + name}
        return name, kb, c, totalrun.measure(c, repeats=2 if quick else 3, timeout=240)

    jobs = [(n, kb) for n in SHAPES for kb in sizes]
    with cf.ThreadPoolExecutor(max_workers=6) as ex:
        futs = [ex.submit(one, n, kb) for n, kb in jobs]
        for f in futs:
            name, kb, c, m = f.result()
            growth.setdefault(name, {})[kb] = (c, m)
    for name, by in growth.items():
        row = []
        bad = None
        for kb in sizes:
            c, m = by[kb]
            ck.evaluations += 1
            ck.nontrivial(c["family"] + str(kb))
            if m["outcome"] != "ok":
                res = dict(m.get("result") or {}, outcome=m["outcome"], rc=m.get("rc"), budget_s=m.get("budget_s"))
                res.setdefault("panic", [])
                sig = sig_of(res)
                case = {"sig": sig, "family": c["family"], "size_kb": kb, "src": c["src"], "path": "a", "opts": c["opts"], "fuel": c["fuel"],
                        "outcome": m["outcome"], "panic": res["panic"][:2]}
                ck.report(case, "%s on growth shape %s at %d KiB (%r...)" % (describe(c, res), name, kb, c["src"][:60]))
                bad = kb
                break
            ck.traces += 1
            r = m["result"]
            outmax = max([v for v in r["sizes"].values() if isinstance(v, int)] + [0])
            row.append((kb, m["cpu_s"], m["rss_kb"], r["events"], outmax))
        for (k1, cpu1, rss1, ev1, o1), (k2, cpu2, rss2, ev2, o2) in zip(row, row[1:]):
            f = k2 / k1
            why = None
            if cpu1 >= 0.05 and cpu2 > cpu1 * 10 * f:
                why = "CPU time grew %.0fx (%.2fs -> %.2fs) for a %dx larger input" % (cpu2 / cpu1, cpu1, cpu2, f)
            elif rss1 >= 65536 and rss2 > rss1 * 5 * f:
                why = "peak memory grew %.0fx (%d MiB -> %d MiB) for a %dx larger input" % (rss2 / rss1, rss1 >> 10, rss2 >> 10, f)
            elif o1 >= 4096 and o2 > o1 * 16 * f:
                why = "largest output grew %.0fx (%d -> %d bytes) for a %dx larger input" % (o2 / o1, o1, o2, f)
            if why:
                c = by[k2][0]
                ck.report({"sig": "growth", "family": c["family"], "size_kb": k2, "src": c["src"], "path": "a", "opts": c["opts"], "fuel": c["fuel"],
                           "outcome": "growth", "why": why}, "growth shape %s: %s" % (name, why))
        if row:
            ck.notes.append("growth %s: %s" % (name, "; ".join("%dK cpu %.2fs rss %dM ev %d out %d" % (k, c_, r_ >> 10, e_, o_) for k, c_, r_, e_, o_ in row)))
    return ck.finish()
