"""C06 — incremental update is sound: marked changes are never missed.

TLC explores spec/MCInstance.tla: histories create(D0); update(D1,U1);.. over the update families
(attributes of every channel, text, if-chains, lists, nested structures, template data, includes,
slot values, scopes), with the edit menu of spec/Instance.tla (all subsets of leaf toggles, list
growth / shrinkage / reversal / duplicate keys / kind changes, object replacement) and every
covering (exact, coarsened, `true`); it asserts that each offered covering covers the diff and that
the reference instance equals a fresh render.  Each behaviour is replayed into the generated code:
after every step the projected tree must equal the spec's tree and a fresh creation."""
import json

import c04
import semrun
import vlib

FAMILIES = ["UA", "UT", "UD", "UI", "US", "UP", "F2", "F4", "F5", "F6"]
EXHAUSTIVE_LIMIT = {"quick": 3500, "thorough": 10 ** 9}


def paths_to_tree(paths):
    if any(len(p) == 0 for p in paths):
        return True
    root = {}
    for p in paths:
        cur = root
        for i, k in enumerate(p):
            if i == len(p) - 1:
                cur[k] = True
            else:
                nxt = cur.get(k)
                if nxt is True:
                    break
                if nxt is None:
                    nxt = {}
                    cur[k] = nxt
                cur = nxt
    return root


def to_case(c, fam):
    steps = []
    for h in c["hist"]:
        if h.get("op") == "bm":
            steps.append({"op": "bm", "field": h["field"], "data": h["data"], "tree": h["tree"]})
        else:
            steps.append({"op": "update", "data": h["data"], "u": paths_to_tree(h["u"]), "tree": h["tree"], "kind": h["kind"]})
    return {"files": c["files"], "data": c["data"], "tree": c["tree"], "steps": steps, "family": fam}


BIG = {"UA", "UT", "F2", "F4", "F5"}      # > 10^4 behaviours of length 1


def gather(ck, tier, seed, families, maxlen=1):
    cases = []
    runs = []
    for fam in families:
        sample = (12, seed) if (tier == "quick" and fam in BIG) else None
        runs.append(dict(module="MCInstance", cfg="MCInstance_" + fam, workers=5, timeout=3000, sample=sample))
    results = vlib.tlc_many(runs, parallel=3)
    for fam, res in zip(families, results):
        vlib.tlc_expect_ok(res, "MCInstance " + fam)
        ck.add_tlc(res)
        ck.notes.append("%s: %d of %d behaviours replayed%s" % (fam, len(res.cases), res.ncases,
                        "" if len(res.cases) == res.ncases else " (seeded 1/12 sample of TLC's exhaustive enumeration)"))
        for c in res.cases:
            cases.append(to_case(c, fam))
    return cases


def deep(ck, seed, families, n, depth):
    """random longer histories by TLC simulation"""
    # in simulation mode TLC evaluates IEmit on every successor it generates, so one random walk prints
    # many complete behaviours; they are sub-sampled on the raw line
    runs = [dict(module="MCInstance", cfg="MCInstanceDeep_" + fam, workers=3, timeout=1800, simulate=n, depth=depth + 1, seed=seed, sample=(20, seed))
            for fam in families]
    cases = []
    for fam, res in zip(families, vlib.tlc_many(runs, parallel=5)):
        if res.rc not in (0,) or res.violated:
            vlib.tlc_expect_ok(res, "MCInstance deep " + fam)
        ck.add_tlc(res)
        for c in res.cases:
            cases.append(to_case(c, fam))
    return cases


def run(tier, seed, replay):
    ck = vlib.Check("C06", tier, seed)
    ck.rule = ("behaviours = (template of families UA/UT/UD/UI/US/F2/F4/F5/F6) x D0 in a 3-object pool x one edit set from "
               "Instance!EditsOn, plus family UP (one binding reading two of 12 dependency paths in 5 forms x 11 single-path edits, exact covering); "
               "Instance!EditsOn (15 subsets of 4 leaf toggles + structural list/object edits) x covering in {exact, "
               "coarse, true}; thorough adds random histories of length 2-3; non-trivial = behaviour whose template has "
               "a binding and whose step changes the data")
    ck.assumptions = ["runtime/refrt.js is a faithful port of ProcGenWrapper / RangeListManager / update-path trees",
                      "two oracles after every step: the spec's tree and a fresh creation; their disagreement is a tool error"]
    rnd = vlib.rng(seed, "c06")
    if replay:
        case = json.load(open(replay))["case"]
        cases = [{"files": case["files"], "data": case["data"], "tree": case["tree"], "steps": case["steps"], "family": case.get("family")}]
    else:
        cases = gather(ck, tier, seed, FAMILIES)
        if tier != "quick":
            cases += deep(ck, seed, FAMILIES, 500, 3)
        else:
            # a few histories of two and three updates (branch re-creation then update, list growth then shrinkage, ...)
            cases += deep(ck, seed, ["F4", "F5", "UD", "US", "UP"], 60, 3)
    records = semrun.replay(cases, rnd, nvariants=1 if tier == "quick" else 2, chunk=120)
    c04.report_records(ck, cases, records)
    return ck.finish()
