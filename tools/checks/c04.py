"""C04 — creation renders the node tree WXML semantics define.

TLC enumerates the template families F1-F5 of spec/MCWxmlSem.tla x the data pool, attaching the
tree `Render` says must be created (and checking the comment/block insensitivity laws on every
case); each case is concretised in several syntactic variants, compiled by the real compiler,
created under the reference runtime, projected and compared node by node."""
import json

import semrun
import vlib

FAMILIES = ["F1", "F2", "F3", "F4", "F5"]


def gather(ck, families):
    cases = []
    for fam in families:
        res = vlib.tlc("MCWxmlSem", cfg="MCWxmlSem_" + fam, workers=8, timeout=1200)
        vlib.tlc_expect_ok(res, "MCWxmlSem " + fam)
        ck.add_tlc(res)
        for c in res.cases:
            c["family"] = fam
            cases.append(c)
    return cases


def has_binding(files):
    return '"t": "e"' in json.dumps(files)


def report_records(ck, cases, records, pid_note="", template_under_test=False):
    """template_under_test: the compiled source itself is what is being judged (C14: the re-printed text), so a
    fresh creation that differs from the specification is a violation, not a disagreement between two oracles."""
    disagreements = None
    ndis = 0
    for rec in records:
        c = cases[rec["case"]]
        ck.evaluations += 1
        if rec.get("skipped"):
            # the template is well-formed by construction (the specification gives it a tree): a compiler that panics on it
            # yields no generated code at all, so the tree the property demands does not exist
            pm = (rec.get("panic") or [{}])[0]
            ck.report({"sig": "compiler-panic", "src": semrun.src_text(rec), "data": c["data"], "variant": str(rec["variant"]),
                       "family": c.get("family"), "files": c["files"], "tree": c.get("tree"), "steps": c.get("steps"),
                       "problem": {"what": "compiler-panic", "msg": pm.get("msg"), "loc": pm.get("loc")}},
                      "the compiler panicked on a well-formed template (%s at %s): no generated code to render the specified tree\n%s" % (
                          pm.get("msg"), pm.get("loc"), semrun.src_text(rec)))
            continue
        ck.traces += 1
        if has_binding(c["files"]):
            ck.nontrivial(semrun.src_text(rec) + json.dumps(c["data"]) + json.dumps([(s_.get("data"), s_.get("u"), s_.get("field")) for s_ in c.get("steps", [])]))
        bad_w = [w for w in rec["warn"] if w[1] >= 2]
        if bad_w:
            ck.report({"sig": "diagnostic-on-generated-template", "src": semrun.src_text(rec), "warn": bad_w},
                      "generated well-formed template produced a diagnostic >= Warn: %s\n%s" % (bad_w, semrun.src_text(rec)))
        creation_wrong = any(p.get("step") == -1 for p in (rec["problems"] or []))
        for p in rec["problems"] or []:
            if p["what"].startswith("ORACLES-DISAGREE") and creation_wrong:
                continue      # a consequence of the creation mismatch already reported for this case
            if p["what"].startswith("ORACLES-DISAGREE") and template_under_test:
                p = dict(p, what="re-printed template: fresh creation differs from the specification")
            elif p["what"].startswith("ORACLES-DISAGREE") or p["what"].startswith("tool:"):
                # the two oracles disagree with each other: not a verdict about the code under test.  Raised at the end of
                # the run, unless the run also found violations of its own (a compiler that is wrong at creation makes the
                # "fresh creation" oracle wrong too; that must not hide what the check is about)
                if disagreements is None:
                    disagreements = "oracle disagreement / tool problem: %s\n%s" % (json.dumps(p), semrun.src_text(rec))
                ndis += 1
                continue
            ck.report({"sig": p["what"], "src": semrun.src_text(rec), "data": c["data"], "problem": p, "variant": str(rec["variant"]),
                       "family": c.get("family"), "files": c["files"], "tree": c.get("tree"), "steps": c.get("steps")},
                      "%s: %s\n%s\ndata=%s" % (p["what"], json.dumps(p.get("diff") or p.get("msg")), semrun.src_text(rec),
                                               json.dumps(c["data"])[:300]))
        if len(ck.samples) < 3 and has_binding(c["files"]) and rec["variant"] == 1:
            ck.sample({"source": semrun.src_text(rec), "data": c["data"], "expected_tree": c.get("tree")})
    if disagreements is not None:
        if not ck.violations:
            raise vlib.ToolError(disagreements)
        ck.notes.append("%d cases in which the two oracles disagree with each other were set aside (the run reports violations of its own); first: %s" % (ndis, disagreements[:300]))


def run(tier, seed, replay):
    ck = vlib.Check("C04", tier, seed)
    ck.rule = ("cases = spec/MCWxmlSem.tla families F1 (every attribute family x value kind), F2 (nested structural "
               "pairs), F3 (text piece sequences), F4 (if-chains), F5 (list kinds x keys x scope names), a slice of F8 (three-file groups: imported and local "
               "definitions, includes) x 5-object data pool, each in N concrete-syntax variants; non-trivial = distinct (source text, data) containing a binding")
    ck.assumptions = ["runtime/refrt.js is a faithful port of ProcGenWrapper / RangeListManager",
                      "slot values are compared after String() (the protocol types them as string)"]
    rnd = vlib.rng(seed, "c04")
    if replay:
        case = json.load(open(replay))["case"]
        cases = [{"files": case["files"], "data": case["data"], "tree": case["tree"], "family": case.get("family")}]
        nvar = 6
    else:
        cases = gather(ck, FAMILIES)
        # `template is` with every form of data (family UD of spec/MCInstance.tla, creation only)
        ures = vlib.tlc("MCInstance", cfg="MCInstance_UD", workers=6, timeout=900)
        vlib.tlc_expect_ok(ures, "MCInstance UD")
        ck.add_tlc(ures)
        seen = set()
        for c in ures.cases:
            key = json.dumps([c["files"], c["data"]], sort_keys=True)
            if key not in seen:
                seen.add(key)
                cases.append({"files": c["files"], "data": c["data"], "tree": c["tree"], "family": "UD"})
        nvar = 2 if tier == "quick" else 6
    gcases = [c for c in cases if c.get("family") == "F8"]
    cases = [c for c in cases if c.get("family") != "F8"]
    if not replay:
        # `<template is>` / `<include>` reaching into OTHER files of the group (family F8: the referring file sorts before
        # the files it imports, local definitions next to imported ones, definitions without children) - what is created
        # must not depend on where in the bundle a file's entry stands
        gres = vlib.tlc("MCWxmlSem", cfg="MCWxmlSem_F8", workers=8, timeout=900)
        vlib.tlc_expect_ok(gres, "MCWxmlSem F8")
        ck.add_tlc(gres)
        gcases = [dict(c, family="F8") for c in gres.cases if tier != "quick" or rnd.random() < 0.3]
    records = semrun.replay(cases, rnd, nvariants=nvar)
    report_records(ck, cases, records)
    if gcases:
        grecords = semrun.replay(gcases, rnd, nvariants=nvar, main="d/a", prefix=False)     # (absolute references need the group root)
        report_records(ck, gcases, grecords)
        ck.notes.append("multi-file groups (F8): %d cases replayed" % len(gcases))
    # the same in a development-mode group: the same tree, plus the announced attribute names (WxmlSem!DevNames)
    dcases = cases if (replay or tier != "quick") else [c for c in cases if rnd.random() < 0.25]
    if replay and not cases:
        dcases = []
    drecords = semrun.replay(dcases, rnd, nvariants=1, dev=True)
    report_records(ck, dcases, drecords)
    ck.notes.append("development mode: %d cases replayed" % len(dcases))
    ck.exhaustive = True
    return ck.finish()
