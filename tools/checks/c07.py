"""C07 — binding-map fast path is sound and only offered where complete.

spec/MCInstance.tla, Family UB: templates with eligible bindings on every channel and with every
unreachable position (conditions, lists, template targets/data, slot names/values, virtual-node slot
attributes, if/for/slot subtrees, includes) holding a field through several expression forms.  The
spec computes Ineligible(file) and, for every field f and value v, the tree after replacing f.  The
harness (1) requires Ineligible(file) and the advertised keys of B to be disjoint, (2) for every
advertised f runs exactly B[f] with the new data and compares with the spec's tree and with a fresh
creation."""
import json

import bindmap
import c04
import c06
import semrun
import vlib


def run(tier, seed, replay):
    ck = vlib.Check("C07", tier, seed)
    ck.rule = ("behaviours = create(D0); bm(f, v) for every top-level field f in {a,b,o,l,s,f} and v in an 8-value pool, over "
               "family UB (all channels x expression pool, 11 unreachable positions x 7 expression forms, nested normal "
               "elements, plain blocks); non-trivial = behaviour whose field is advertised and whose updaters ran")
    ck.assumptions = ["runtime/refrt.js runs B[f] exactly as ProcGenWrapper.bindingMapUpdate does"]
    rnd = vlib.rng(seed, "c07")
    if replay:
        case = json.load(open(replay))["case"]
        cases = [{"files": case["files"], "data": case["data"], "tree": case["tree"], "steps": case.get("steps") or [],
                  "family": "UB", "inel": case.get("inel", [])}]
    else:
        res = vlib.tlc("MCInstance", cfg="MCInstance_UB", workers=8, timeout=3000, sample=(10, seed) if tier == "quick" else None)
        vlib.tlc_expect_ok(res, "MCInstance UB")
        ck.add_tlc(res)
        ck.notes.append("%d of %d behaviours of length 1 replayed%s" % (len(res.cases), res.ncases,
                        " (seeded sample of TLC's exhaustive enumeration)" if tier == "quick" else ""))
        all_cases = list(res.cases)
        if tier == "quick":
            # family UC (calls whose callee depends on an advertised field) in full: a tenth of it would hold one or two
            # behaviours in which the callee changes
            resc = vlib.tlc("MCInstance", cfg="MCInstance_UC", workers=4, timeout=900)
            vlib.tlc_expect_ok(resc, "MCInstance UC")
            ck.add_tlc(resc)
            all_cases += resc.cases
        if tier != "quick":
            # two binding-map updates in a row: random walks (the exhaustive space has > 3 * 10^6 behaviours); in simulation mode
            # TLC evaluates IEmit on every successor it generates, so one walk prints every second step of its first
            res2 = vlib.tlc("MCInstance", cfg="MCInstanceDeep2_UB", workers=4, timeout=3000, simulate=1500, depth=3, seed=seed, sample=(12, seed))
            if res2.rc != 0 or res2.violated:
                vlib.tlc_expect_ok(res2, "MCInstance UB, two updates")
            ck.add_tlc(res2)
            ck.notes.append("%d behaviours of length 2 from %d printed by 1500 random walks" % (len(res2.cases), res2.ncases))
            all_cases += res2.cases
        cases = []
        for c in all_cases:
            k = c06.to_case(c, "UB")
            k["inel"] = c.get("inel", [])
            cases.append(k)
        # family UL: bindings whose l-value path depends on a data field, updated through B[field]; the paths the
        # instance holds afterwards are compared with those of a fresh creation
        res3 = vlib.tlc("MCInstance", cfg="MCInstance_UL", workers=6, timeout=900)
        vlib.tlc_expect_ok(res3, "MCInstance UL")
        ck.add_tlc(res3)
        for c in res3.cases:
            if any(h.get("op") == "bm" for h in c["hist"]):
                k = c06.to_case(c, "UL")
                k["inel"] = []
                k["paths"] = True
                cases.append(k)
    records = semrun.replay(cases, rnd, nvariants=1 if tier == "quick" else 2, chunk=120, want_extra=["bmtrace"])
    # the collectors' own calls, as recorded by the hook, against spec/BindMap.tla (one trace per compiled group)
    groups = {}
    for rec in records:
        vh = rec.get("vh")
        if vh is not None and vh.get("bmtrace") is not None:
            groups.setdefault(id(vh), (vh["bmtrace"], rec))
        rec["vh"] = None
    traces = [t for t, _ in groups.values()]
    acc, rej, (st, tr) = bindmap.validate(traces)
    ck.states += st
    ck.transitions += tr
    ck.traces += acc
    ck.notes.append("BindMapTrace: %d collector traces (%d calls) validated against spec/BindMap.tla, %d accepted" % (
        len(traces), sum(len(t) for t in traces), acc))
    for x in rej:
        t, rec = list(groups.values())[x["item"]]
        ck.report({"sig": "collector-trace-rejected", "event": x["event"], "src": semrun.src_text(rec)},
                  "BindMapTrace refuses the collector trace at call %d: %s" % (x["event_no"], bindmap.explain(t, x["event_no"])))
    applied = 0
    for rec in records:
        c = cases[rec["case"]]
        if rec.get("skipped"):
            continue
        applied += rec.get("bmApplied", 0)
        bad = sorted(set(rec.get("bkeys") or []) & set(c.get("inel", [])))
        if bad and not rec.get("bmDisabled"):
            ck.report({"sig": "ineligible-field-advertised", "src": semrun.src_text(rec), "fields": bad, "files": c["files"],
                       "data": c["data"], "tree": c["tree"], "steps": c["steps"], "inel": c["inel"]},
                      "binding map advertises %s, used where the map cannot reach:\n%s" % (bad, semrun.src_text(rec)))
    c04.report_records(ck, cases, records)
    ck.extra["bm_updates_applied"] = applied
    if applied == 0:
        raise vlib.ToolError("no binding-map update was ever applied: vacuous run")
    return ck.finish()
