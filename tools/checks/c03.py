"""C03 — binding expressions evaluate with JavaScript semantics.

TLC enumerates the bounded tree space of spec/WxmlExpr.tla (every operator at every operand
position of every operator, literals at every operand position, redundant-parenthesis variants) and
checks print/parse round trip on each; each case is concretised in several whitespace/comment
variants, compiled by the real compiler as `<v a="{{ e }}"/>`, executed under the reference
runtime for a pool of edge-value environments and compared with the tree's reference value."""
import json
import re

import vlib

WORDCH = re.compile(r"[A-Za-z0-9_$]")
OPCH = set("+-*/%<>=!&|^?~.:")


def join_min(toks):
    out = []
    prev = ""
    for t in toks:
        if prev:
            a, b = prev[-1], t[0]
            if (WORDCH.match(a) and WORDCH.match(b)) or (a in OPCH and b in OPCH) or (a.isdigit() and b == ".") or (a == "." and b.isdigit()):
                out.append(" ")
        out.append(t)
        prev = t
    return "".join(out)


def join_var(toks, rnd):
    seps = [" ", "  ", "\n", "\t", " /* c */ ", "/**/", " /* } */ "]
    out = []
    for i, t in enumerate(toks):
        if i:
            # WXML does not lex a comment that directly follows `*` or `/` (`*/**/` is rejected with a
            # diagnostic); that spelling is outside the accepted language, so it is not generated
            plain = toks[i - 1][-1] in "*/"
            out.append(rnd.choice(seps) if (rnd.random() < 0.5 and not plain) else " ")
        out.append(t)
    return "".join(out)


def rename_ids(t, mp):
    """the tree with its identifier leaves (and shorthand fields) renamed"""
    if isinstance(t, list):
        return [rename_ids(x, mp) for x in t]
    if isinstance(t, dict):
        d = {k: rename_ids(v, mp) for k, v in t.items()}
        if d.get("k") == "id" or d.get("t") == "short":
            d["n"] = mp.get(d["n"], d["n"])
        return d
    return t


def known_sig(tree_json):
    """Signature classes for known-finding attribution: the set of risky constructs in the tree."""
    s = json.dumps(tree_json)
    sig = []
    if '"??"' in s:
        sig.append("nullish")
    if '"t": "spread"' in s and '"k": "arr"' in s:
        sig.append("array-spread")
    return sig


def gather_cases(tier, seed, ck):
    cases = []
    res = vlib.tlc("MCWxmlExpr", workers=8, timeout=900)
    vlib.tlc_expect_ok(res, "MCWxmlExpr (round trip of print/parse on every tree)")
    ck.add_tlc(res)
    rnd = vlib.rng(seed, "c03")
    for c in res.cases:
        toks = c["toks"]
        texts = [" ".join(toks)]
        m = join_min(toks)
        if m not in texts:
            texts.append(m)
        if tier != "quick" or rnd.random() < 0.15:
            texts.append(join_var(toks, rnd))
        for t in texts:
            cases.append({"tree": c["tree"], "text": t, "extra": c["extra"], "toks0": toks})
    # identifier spellings: the same trees with their leaves renamed into WxmlExpr!TrickyNames (one identifier each to JavaScript)
    src = open(vlib.SPEC + "/WxmlExpr.tla").read()
    tricky = re.findall(r'"([^"]+)"', re.search(r"TrickyNames == \{(.*?)\}", src, re.S).group(1))
    assert len(tricky) >= 20
    rn = vlib.rng(seed, "c03-names")
    renamed = []
    for c in list(cases):
        ids = sorted({t for t in c["toks0"] if t in ("a", "b", "c", "d", "e")})
        if not ids or (tier == "quick" and rn.random() > 0.12):
            continue
        mp = dict(zip(ids, rn.sample(tricky, len(ids))))
        toks = [mp.get(t, t) for t in c["toks0"]]
        renamed.append({"tree": rename_ids(c["tree"], mp), "text": " ".join(toks) if rn.random() < 0.5 else join_min(toks), "extra": c["extra"], "renamed": True})
    cases.extend(renamed)
    ck.notes.append("%d trees replayed with their identifiers renamed into WxmlExpr!TrickyNames" % len(renamed))
    # literal spellings: spec/Literals.tla automata, cross-checked against node's lexer
    lres = vlib.tlc("MCLiterals", cfg="MCLiterals" if tier == "quick" else "MCLiteralsT", workers=8, timeout=900)
    vlib.tlc_expect_ok(lres, "MCLiterals")
    ck.add_tlc(lres)
    lits = []
    for c in lres.cases:
        s = c["s"] if isinstance(c["s"], str) else "".join(c["s"])
        text = "'" + s + "'" if c["fam"] == "str" else s
        lits.append({"fam": c["fam"], "text": text, "valid": c["valid"], "kind": c["kind"]})
    out = vlib.run_node("drive_lit.js", [{"cases": lits}], jobs=1)[0]
    if out["disagreements"]:
        raise vlib.ToolError("Literals.tla and node's lexer disagree: %s" % out["disagreements"][:5])
    ck.extra["literal_spellings_classified"] = out["checked"]
    for l in lits:
        if l["valid"]:
            cases.append({"tree": {"k": "lit", "v": l["text"]}, "text": l["text"], "extra": False, "lit": True})
    return cases


def evaluate(ck, cases, tier, seed, on_mismatch, template_of=None, count_nontrivial=True):
    """Compile every case's template (default `<v a="{{ text }}"/>`), run it under the reference runtime for a pool of
    environments and compare the value reaching attribute `a` with the reference value of case["tree"].
    on_mismatch(case, mismatch) is called for every disagreement."""
    template_of = template_of or (lambda c: '<v a="{{ %s }}"/>' % c["text"])
    nenv, full = (120, False) if tier == "quick" else (2000, True)
    # compile in chunks: one template group per chunk
    size = 400
    chunks = [cases[i:i + size] for i in range(0, len(cases), size)]
    vcases = []
    for ci, ch in enumerate(chunks):
        files = [["e/%d" % k, template_of(c)] for k, c in enumerate(ch)]
        vcases.append({"id": ci, "files": files, "want": ["groups"]})
    vres = vlib.run_vh("tmpl", vcases)
    # a panic inside the compiler is C01's business, but it must not hide the rest of its chunk:
    # re-run the cases of a panicked chunk one by one
    extra_chunks = []
    for ch, r in zip(chunks, vres):
        if r["panic"]:
            extra_chunks.extend([[c] for c in ch])
    if extra_chunks:
        base = len(chunks)
        evc = [{"id": base + i, "files": [["e/0", template_of(ch[0])]], "want": ["groups"]}
               for i, ch in enumerate(extra_chunks)]
        eres = vlib.run_vh("tmpl", evc)
        chunks = chunks + extra_chunks
        vres = vres + eres
    jobs = []
    skipped_panic = 0
    skipped_diag = 0
    for ci, (ch, r) in enumerate(zip(chunks, vres)):
        if r["panic"]:
            if len(ch) == 1:
                skipped_panic += 1
                if len(ck.notes) < 40:
                    ck.notes.append("compiler panicked (see C01): %s" % ch[0]["text"])
            continue
        jcases = []
        for k, c in enumerate(ch):
            w = r["warn"][k]["w"] or []
            if any(x[1] >= 2 for x in w):
                # the compiler did not accept this spelling: C03 says nothing about it
                skipped_diag += 1
                ck.notes.append("not accepted by the parser: %s" % c["text"]) if len(ck.notes) < 20 else None
                continue
            jcases.append(dict(c, path="e/%d" % k))
            if count_nontrivial and (c["tree"]["k"] not in ("id", "lit") or c.get("lit")):
                ck.nontrivial(c["text"])
        jobs.append({"bundle": r["groups"], "cases": jcases, "nenv": nenv, "seed": seed + ci, "full": full})
    nres = vlib.run_node("drive_expr.js", jobs, jobs=min(vlib.NCPU, len(jobs)), timeout=3000)
    oracle_problems = []
    for job, r in zip(jobs, nres):
        ck.evaluations += r["evals"]
        ck.extra["no_reference_value"] = ck.extra.get("no_reference_value", 0) + r["noref"]
        ck.traces += r["cases"]
        for e in r["errors"]:
            ck.report({"sig": "bundle-error", "detail": e, "text": ""}, "generated code failed to load: %s" % e)
        by_path = {c["path"]: c for c in job["cases"]}
        for m in r["mismatches"]:
            if "more" in m:
                continue
            on_mismatch(by_path[m["path"]], m)
        oracle_problems.extend(r["oracle"])
        if len(ck.samples) < 3 and job["cases"]:
            ck.sample({"text": job["cases"][len(job["cases"]) // 2]["text"], "tree": job["cases"][len(job["cases"]) // 2]["tree"], "environments": nenv})
    if oracle_problems:
        # two oracles disagree with each other: our machinery is wrong, not the code under test
        vlib.log(json.dumps(oracle_problems[:5], indent=1))
        raise vlib.ToolError("evalref and node disagree on %d cases" % len(oracle_problems))
    ck.extra["skipped_not_accepted"] = skipped_diag
    ck.extra["cases_skipped_for_panic"] = skipped_panic


def run(tier, seed, replay):
    ck = vlib.Check("C03", tier, seed)
    ck.rule = ("trees = spec/WxmlExpr.tla Trees (leaves, every one-operator tree, literals at every operand position, "
               "every operator at every operand position of every operator) x redundant-parenthesis variants x "
               "whitespace/comment spellings; each evaluated under environments drawn from a 14-value edge pool per free "
               "identifier; non-trivial = distinct (tree, spelling) with at least one operator")
    ck.assumptions = ["node 20 evaluates each primitive operator and literal spelling (delta-rule)",
                      "runtime/refrt.js delivers the raw value of a single-binding attribute through R.r",
                      "pool functions are pure, so evaluation order inside an expression is not observable"]
    if replay:
        case = json.load(open(replay))["case"]
        cases = [{"tree": case["tree"], "text": case["text"], "extra": False}]
        if case.get("scoped"):
            cases = []
        tier_env = ("thorough", 3000, True)
    else:
        cases = gather_cases(tier, seed, ck)
    def on_mismatch(c, m):
        ck.report({"sig": "value", "tree": c["tree"], "text": c["text"], "env": m["env"], "got": m["got"],
                   "want": m["want"], "classes": known_sig(c["tree"]), "cls": sorted(set(m.get("cls", [])))},
                  "{{ %s }} with %s: generated code gives %s, JavaScript gives %s" % (m["text"], m["env"], m["got"], m["want"]))
    evaluate(ck, cases, tier, seed, on_mismatch)
    if not replay or case.get("scoped"):
        # free identifiers denote the enclosing template scopes: a sample of the trees again, as a binding inside two nested
        # lists that both name their item `a` and their index `b` (the inner ones are meant; the data fields a, b differ)
        rnd = vlib.rng(seed, "c03-scoped")
        sc = [dict(c, scoped=True) for c in cases if not c.get("lit") and (replay or rnd.random() < (0.12 if tier == "quick" else 0.5))]
        wrap = ('<block wx:for="{{ zo }}" wx:for-item="a" wx:for-index="b"><block wx:for="{{ zi }}" wx:for-item="a" wx:for-index="b">'
                '<v a="{{ %s }}"/></block></block>')
        def on_mismatch_scoped(c, m):
            ck.report({"sig": "value", "tree": c["tree"], "text": c["text"], "env": m["env"], "got": m["got"], "scoped": True,
                       "want": m["want"], "classes": known_sig(c["tree"]), "cls": sorted(set(m.get("cls", [])))},
                      "{{ %s }} inside two nested lists with %s: generated code gives %s, JavaScript gives %s" % (m["text"], m["env"], m["got"], m["want"]))
        evaluate(ck, sc, tier, seed + 7, on_mismatch_scoped, template_of=lambda c: wrap % c["text"], count_nontrivial=False)
    ck.exhaustive = (tier != "quick")
    return ck.finish()
