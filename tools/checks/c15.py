"""C15 — diagnostics: clean input is clean, broken input flagged, locations valid.

spec/Defects.tla enumerates single-defect injections into well-formed templates, each with the set
of acceptable diagnostic kinds and the documented minimum level; the concretiser turns the marks
into defective text; the real parser must answer with at least one diagnostic of an accepted kind
at that level or above.  Clean direction: every concretised case of the WxmlSem families parses
with no diagnostic at Warn or above.  Locations: the cursor trace of every input of this check
(defect cases, clean cases, the repository's test inputs, byte-level mutations of them) is validated
against spec/CursorTrace.tla, whose Warn action requires start <= end and both ends in the text."""
import json
import os
import re

import c04
import concretise
import corpus
import cursor
import semrun
import vlib
import wxmlvar

DFAMS = ["end", "cut", "unterminated", "garbage", "prefix", "dup", "struct"]
CLEAN = ["F1", "F2", "F3", "F4", "F5", "F6", "F7"]


def kind_names():
    """ParseErrorKind name -> code, read from /repo at check time"""
    src = open(os.path.join(vlib.REPO, "glass-easel-template-compiler", "src", "parse", "mod.rs")).read()
    m = re.search(r"pub enum ParseErrorKind \{(.*?)\n\}", src, re.S)
    names = []
    code = None
    out = {}
    for line in m.group(1).split("\n"):
        line = line.strip().rstrip(",")
        if not line or line.startswith("//"):
            continue
        if "=" in line:
            n, v = [x.strip() for x in line.split("=")]
            code = int(v, 0)
        else:
            n = line
            code += 1
        out[n] = code
    return out


def mutate(src, rnd):
    ops = rnd.randint(1, 3)
    s = src
    alphabet = ["<", ">", "/", "{{", "}}", "\"", "'", "=", "&", " ", "\n", "é", "😀", "(", ")", "[", "]", ":", "wx:", "</", "{", "}", ".", ",", "?"]
    for _ in range(ops):
        if not s:
            s = rnd.choice(alphabet)
            continue
        i = rnd.randrange(len(s) + 1)
        k = rnd.random()
        if k < 0.4:
            s = s[:i] + rnd.choice(alphabet) + s[i:]
        elif k < 0.7 and i < len(s):
            s = s[:i] + s[i + 1:]
        elif k < 0.85:
            s = s[:i]
        else:
            j = rnd.randrange(len(s) + 1)
            a, b = min(i, j), max(i, j)
            s = s[:a] + s[b:] + s[a:b]
    return s


def run(tier, seed, replay):
    ck = vlib.Check("C15", tier, seed)
    ck.rule = ("defect cases = spec/Defects.tla (7 defect families x sites x expression/attribute families) x syntax variants; "
               "clean cases = concretised cases of families F1-F7; location traces = all of those + harvested repository "
               "snippets + seeded byte-level mutations; non-trivial = distinct source text with at least one diagnostic "
               "(defect side) or at least one binding (clean side)")
    ck.assumptions = ["the level table of spec/Defects.tla is the documented one (ParseErrorKind::level doc comments)"]
    rnd = vlib.rng(seed, "c15")
    names = kind_names()
    inv = {v: k for k, v in names.items()}
    trace_items = []
    nvar = 3 if tier == "quick" else 8
    # ---- defect direction
    dcases = []
    if replay:
        case = json.load(open(replay))["case"]
        srcs = [(case["expect"], case["what"], case["src"])]
    else:
        runs = [dict(module="Defects", cfg="Defects_" + f, workers=3, timeout=900) for f in DFAMS]
        srcs = []
        for f, res in zip(DFAMS, vlib.tlc_many(runs, parallel=4)):
            vlib.tlc_expect_ok(res, "Defects " + f)
            ck.add_tlc(res)
            for c in res.cases:
                for v in range(nvar):
                    cz = concretise.Concretiser(rnd, plain=(v == 0))
                    srcs.append((c["expect"], c["what"], cz.file(c["files"][0], concretise.FN_TABLE)))
    vcases = [{"id": i, "files": [["a", s]], "want": ["trace"]} for i, (_, _, s) in enumerate(srcs)]
    vres = vlib.run_vh("tmpl", vcases)
    for (exp, what, s), r in zip(srcs, vres):
        ck.evaluations += 1
        if r["panic"]:
            trace_items.append((s, None))
            continue        # C01
        w = r["warn"][0]["w"] or []
        trace_items.append((s, r["trace"][0]["ev"]))
        ck.nontrivial(s)
        want_codes = {names[k] for k in exp["kinds"] if k in names}
        ok = any(x[0] in want_codes and x[1] >= exp["level"] for x in w)
        if not ok:
            ck.report({"sig": "defect-not-flagged", "what": what, "src": s, "expect": exp,
                       "got": [[inv.get(x[0], x[0]), x[1]] for x in w]},
                      "defect `%s` not flagged at level >= %d with one of %s; diagnostics: %s\n%s" % (
                          what, exp["level"], exp["kinds"], [[inv.get(x[0], x[0]), x[1]] for x in w], s))
        if len(ck.samples) < 3:
            ck.sample({"defect": what, "source": s, "expected": exp, "diagnostics": [[inv.get(x[0], x[0]), x[1]] for x in w]})
    # ---- clean direction
    if not replay:
        runs = [dict(module="MCWxmlSem", cfg="MCWxmlSem_" + f, workers=3, timeout=900,
                     sample=(6, seed) if tier == "quick" else None) for f in CLEAN]
        clean = []
        for f, res in zip(CLEAN, vlib.tlc_many(runs, parallel=4)):
            vlib.tlc_expect_ok(res, "MCWxmlSem " + f)
            ck.add_tlc(res)
            for c in res.cases:
                for v, ss in semrun.build_sources(c, rnd, 2 if tier == "quick" else 4):
                    for p, t in ss:
                        clean.append(t)
        # character references in every documented form (decimal, hexadecimal, digits in either case, with
        # leading zeros up to and beyond the longest code point, named) and the structural directive combinations that ARE well formed
        for cp in (9, 10, 13, 32, 34, 38, 39, 60, 62, 65, 123, 160, 0x2028, 0xFFFD, 0x1F600, 0x10FFFF):
            for ref in ("&#%d;" % cp, "&#x%x;" % cp, "&#x%X;" % cp, "&#x0%x;" % cp, "&#%04d;" % cp, "&#x%08x;" % cp, "&#%09d;" % cp):
                clean.append("a%sb" % ref)
                clean.append('<v a="x%sy" class="%s">{{ c }}%s</v>' % (ref, ref, ref))
        # childless elements written with an end tag and nothing but white space inside (a lone comment there is reported as a
        # child by the compiler; the documented syntax does not say whether a comment is a child, so neither verdict is required)
        for t in ('<slot> </slot>', '<include src="b">\n</include>', '<import src="b"></import>', '<template is="t">\t</template>'):
            clean.append(t)
        # the same name under two different prefixes is not a duplicate
        for t in ('<v class:a="{{ x }}" style:a="b"/>', '<v style:a="b" class:a="{{ x }}" data:a="1" mark:a="2" model:a="{{ y }}" change:a="{{ m.f }}"/>'):
            clean.append(t)
        for name in ("amp", "lt", "gt", "quot", "apos", "nbsp", "copy", "hellip", "NotEqualTilde", "frac12", "sup2", "there4"):
            clean.append('<v a="&%s;">&%s;{{ c }}</v>' % (name, name))
        clean = list(dict.fromkeys(clean))
        vcases = [{"id": i, "files": [["a", s]], "want": ["trace"]} for i, s in enumerate(clean)]
        vres = vlib.run_vh("tmpl", vcases)
        for s, r in zip(clean, vres):
            ck.evaluations += 1
            if r["panic"]:
                continue
            w = r["warn"][0]["w"] or []
            if "{{" in s:
                ck.nontrivial(s)
            bad = [[inv.get(x[0], x[0]), x[1]] for x in w if x[1] >= 2]
            if bad:
                ck.report({"sig": "diagnostic-on-clean-template", "src": s, "got": bad},
                          "well-formed template produced diagnostics >= Warn: %s\n%s" % (bad, s))
            if rnd.random() < (0.15 if tier == "quick" else 0.5):
                trace_items.append((s, r["trace"][0]["ev"]))
        # ---- more inputs for the location check: repository snippets and mutations
        extra = []
        for s in corpus.wxml_snippets():
            extra.append(s)
            for _ in range(2 if tier == "quick" else 10):
                extra.append(mutate(s, rnd))
        extra = [e for e in dict.fromkeys(extra) if not _risky(e)]
        vcases = [{"id": i, "files": [["a", s]], "want": ["trace"]} for i, s in enumerate(extra)]
        vres = vlib.run_vh("tmpl", vcases)
        for s, r in zip(extra, vres):
            ck.evaluations += 1
            if r["panic"]:
                continue
            trace_items.append((s, r["trace"][0]["ev"]))
    # ---- DiagLoc: every diagnostic of every input, validated as Warn events of CursorTrace
    acc, rej, (st, tr) = cursor.validate(trace_items, tag="c15")
    ck.states += st
    ck.transitions += tr
    ck.traces += acc
    nwarn = sum(1 for s, ev in trace_items if ev for e in ev if e[0] == 4)
    ck.extra["diagnostics_located"] = nwarn
    for rj in rej:
        s = trace_items[rj["item"]][0]
        ck.report({"sig": "cursor-trace", "src": s, "event": rj["event"], "event_no": rj["event_no"], "expect": {"kinds": [], "level": 0}, "what": "location"},
                  "trace rejected by CursorTrace at event %s: %s\n%r" % (rj["event_no"], rj["event"], s))
    return ck.finish()


def _risky(s):
    """inputs that hang the unrepaired parser (non-ASCII whitespace inside a tag) are C01's; the
    location check needs parses that return"""
    return False
