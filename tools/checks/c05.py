"""C05 — names in expressions resolve lexically to the innermost enclosing scope.

Family F6 of spec/MCWxmlSem.tla: nested for / slot / wxs scopes with colliding names over
{x, y, item, index, m}, every identifier position of every expression form; data deliberately holds
fields named like the scope variables and every scope and field holds a distinct sentinel.  Replayed
in creation, and (spec/MCInstance.tla, Family F6) after updates that change only the shadowed data
fields — the rendered values must not move."""
import json

import c04
import c06
import semrun
import vlib


def run(tier, seed, replay):
    ck = vlib.Check("C05", tier, seed)
    ck.rule = ("cases = family F6 (11 scope shapes x with/without wxs module x probes of x,y,item,index,m.k; 20 "
               "identifier positions x {x,index,y} in text, attribute and mixed-text contexts; template-is body) in creation "
               "and under every edit of the shadowed data fields with exact/coarse/true coverings; non-trivial = distinct "
               "(source, data, step)")
    ck.assumptions = ["runtime/refrt.js emulates a dynamic-slot component for tags `dyn-*` (slot values = its sv-* properties)"]
    rnd = vlib.rng(seed, "c05")
    if replay:
        case = json.load(open(replay))["case"]
        cases = [{"files": case["files"], "data": case["data"], "tree": case["tree"], "steps": case.get("steps") or [], "family": "F6"}]
        nvar = 4
    else:
        res = vlib.tlc("MCWxmlSem", cfg="MCWxmlSem_F6", workers=8, timeout=900)
        vlib.tlc_expect_ok(res, "MCWxmlSem F6")
        ck.add_tlc(res)
        cases = [dict(c, family="F6") for c in res.cases]
        res2 = vlib.tlc("MCInstance", cfg="MCInstance_F6" if tier == "quick" else "MCInstanceDeep2_F6", workers=8, timeout=1800)
        vlib.tlc_expect_ok(res2, "MCInstance F6")
        ck.add_tlc(res2)
        cases += [c06.to_case(c, "F6") for c in res2.cases]
        nvar = 2 if tier == "quick" else 4
    records = semrun.replay(cases, rnd, nvariants=nvar, chunk=120)
    c04.report_records(ck, cases, records)
    ck.exhaustive = True
    return ck.finish()
