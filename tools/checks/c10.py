"""C10 — rpx conversion is arithmetically right; other numbers keep their value.

spec/MCCss.tla family val: every numeric spelling of a pool that straddles the boundaries (0, -0,
+75, .5, 1e3, 999999, 1000000, 1000001, 2^24+-1, 2^31-1, -2^31, 0.1, 1e-7, ...) as rpx / px / number /
percentage / em in every value shape (plain, calc, nested parentheses, nested functions, media and
container queries, custom properties, keyframes, font-face).  The specification decides which tokens
convert, their unit and sign, and that integers stay integers; value*100/ratio is checked with exact
rationals to within single-precision rounding for several ratios."""
import csscommon


def run(tier, seed, replay):
    return csscommon.run_css(
        "C10", tier, seed, replay, ["val", "tok"], ["numbers"],
        "cases = 28 numeric spellings x 5 units x 10 value shapes x {declaration, custom property, media query, keyframes, "
        "font-face, z-index} x rpx_ratio in {750, 375, 1, 0.5, 7.5, 750.5} (quick: 750, 0.5, 7.5); non-trivial = distinct (source, ratio)",
        ratios=(750, 375, 1, 0.5, 7.5, 750.5) if tier != "quick" else (750, 0.5, 7.5),
        samples={"val": {"quick": 6, "thorough": None}}, variants=1)
