"""C01 machinery: spelling of generator paths, the isolated-worker supervisor, size sweeps."""
import json
import os
import resource
import select
import subprocess
import threading
import time

import vlib

PLACEHOLDERS = {
    "~NBSP~": " ", "~LSEP~": " ", "~IDSP~": "　", "~NEL~": "\u0085", "~ZWSP~": "​", "~BOM~": "﻿",
    "~VT~": "\x0b", "~ENSP~": " ", "~NUL~": "\x00", "~ASTRAL~": "\U0001F600", "~COMB~": "é", "~RTL~": "‮",
    "~DEL~": "\x7f", "~ESC~": "\x1b", "~PUA~": "", "~MAXCP~": "\U0010FFFF", "~UIDENT~": "ü中", "~UJUNK~": "§", "~UDIGIT~": "٣",
}


def unplace(s):
    if "~" in s:
        for k, v in PLACEHOLDERS.items():
            if k in s:
                s = s.replace(k, v)
    return s


class Speller:
    """Spells generator paths.  Lexemes of a class are cycled through per (context, class), so that every lexeme
    meets every context it can stand in; `rnd` adds seeded variety for further variants."""

    def __init__(self, table, rnd):
        self.lex = {k: [unplace(x) for x in v] for k, v in table["lex"].items()}
        self.counter = {}
        self.covered = set()
        self.rnd = rnd

    def total_pairs(self, transitions=None):
        return sum(len(v) for v in self.lex.values())

    def spell(self, path, variant=0):
        out = []
        for ctx, cl in path:
            opts = self.lex[cl]
            if variant == 0:
                key = (ctx, cl)
                i = self.counter.get(key, 0)
                self.counter[key] = i + 1
                j = i % len(opts)
            else:
                j = self.rnd.randrange(len(opts))
            self.covered.add((ctx, cl, j))
            out.append(opts[j])
        self.nspelled = getattr(self, "nspelled", 0) + 1
        if self.nspelled % 5 == 0 and out:
            # every fifth input: one lexeme in another letter case (keywords and function names are ASCII case-insensitive
            # in CSS; in WXML they are not, which makes the variant an unknown name - an input like any other)
            k = self.nspelled // 5 % len(out)
            w = out[k]
            out[k] = [w.upper(), w.capitalize(), w.swapcase()][self.nspelled // 5 % 3]
        return "".join(out)


def generator_cases(module, cfg, sample=None, seed=1):
    """-> (table, [path], TlcResult)"""
    tables = []
    res = vlib.tlc(module, cfg, workers=4, timeout=3000, sample=sample, tables=tables)
    vlib.tlc_expect_ok(res, "%s/%s (generator table well-formed, contexts connected)" % (module, cfg))
    if not tables:
        raise vlib.ToolError("%s printed no TABLE line" % module)
    return tables[0], [c["p"] for c in res.cases], res


# ---------------------------------------------------------------------------------------------
# supervisor

AS_LIMIT = 4 << 30          # address space of a worker
BATCH = 48


def _limits():
    resource.setrlimit(resource.RLIMIT_AS, (AS_LIMIT, AS_LIMIT))
    resource.setrlimit(resource.RLIMIT_CORE, (0, 0))


class _Worker:
    def __init__(self):
        self.p = subprocess.Popen([vlib.VH, "total", "--announce"], stdin=subprocess.PIPE, stdout=subprocess.PIPE,
                                  stderr=subprocess.DEVNULL, preexec_fn=_limits)
        self.buf = b""
        self.fd = self.p.stdout.fileno()

    def send(self, cases):
        data = ("\n".join(json.dumps(c) for c in cases) + "\n").encode()
        try:
            self.p.stdin.write(data)
            self.p.stdin.flush()
        except BrokenPipeError:
            pass

    def readline(self, timeout):
        """-> line (bytes, without newline) | None on timeout | b"" on EOF"""
        end = time.time() + timeout
        while b"\n" not in self.buf:
            left = end - time.time()
            if left <= 0:
                return None
            r, _, _ = select.select([self.fd], [], [], left)
            if not r:
                return None
            chunk = os.read(self.fd, 1 << 16)
            if not chunk:
                return b""
            self.buf += chunk
        line, self.buf = self.buf.split(b"\n", 1)
        return line

    def kill(self):
        try:
            self.p.kill()
        except Exception:
            pass
        try:
            self.p.wait(timeout=5)
        except Exception:
            pass

    def close(self):
        try:
            self.p.stdin.close()
        except Exception:
            pass
        try:
            self.p.wait(timeout=10)
        except Exception:
            self.kill()


def budget_for(case, base):
    """wall-clock budget of one case: generous (the machine may be loaded); hangs are usually cut by event fuel long before"""
    return base + len(case.get("src", "")) / 20000.0


def supervise(cases, jobs=None, base_budget=10.0, max_bad=40):
    """Run every case in isolated workers.  -> list of results aligned with cases; a result is the worker's JSON plus
    "outcome": ok | panic | hang | abort (with "signal"/"rc")."""
    vlib.build()
    jobs = jobs or min(vlib.NCPU, 12, max(1, len(cases) // 16))
    out = [None] * len(cases)
    idx_lock = threading.Lock()
    state = {"next": 0, "bad": 0}

    def take():
        with idx_lock:
            if state["bad"] >= max_bad:
                return None
            a = state["next"]
            if a >= len(cases):
                return None
            b = min(len(cases), a + BATCH)
            state["next"] = b
            return list(range(a, b))

    def work():
        w = None
        while True:
            ids = take()
            if ids is None:
                break
            pending = list(ids)
            while pending:
                if w is None:
                    w = _Worker()
                w.send([dict(cases[i], id=i) for i in pending])
                k = 0
                dead = False
                while k < len(pending):
                    i = pending[k]
                    budget = budget_for(cases[i], base_budget)
                    t0 = time.time()
                    l1 = w.readline(budget)
                    l2 = w.readline(max(0.05, budget - (time.time() - t0))) if l1 else l1
                    if l1 and l2:
                        r = json.loads(l2)
                        r["outcome"] = "panic" if r.get("panic") else "ok"
                        out[i] = r
                        k += 1
                        continue
                    # hang (None) or death (b"")
                    if l1 is None or l2 is None:
                        w.kill()
                        out[i] = {"id": i, "outcome": "hang", "budget_s": round(budget, 1), "panic": []}
                    else:
                        w.p.wait()
                        rc = w.p.returncode
                        out[i] = {"id": i, "outcome": "abort", "rc": rc, "panic": []}
                    with idx_lock:
                        state["bad"] += 1
                    w = None
                    dead = True
                    pending = pending[k + 1:]
                    break
                if not dead:
                    pending = []
        if w is not None:
            w.close()

    ths = [threading.Thread(target=work) for _ in range(jobs)]
    for t in ths:
        t.start()
    for t in ths:
        t.join()
    return out


# ---------------------------------------------------------------------------------------------
# measured single runs for the growth sweep

def measure(case, repeats=3, timeout=180):
    """Run one case alone in a fresh process `repeats` times.  -> {"outcome", "cpu_s": min user+sys, "rss_kb": min of
    the peak resident set sizes, "result": worker JSON}"""
    os.makedirs(vlib.WORK, exist_ok=True)
    path = os.path.join(vlib.WORK, "measure-%d-%d.json" % (os.getpid(), threading.get_ident()))
    with open(path, "w") as f:
        f.write(json.dumps(dict(case, id=0)) + "\n")
    best_cpu, best_rss, result = None, None, None
    try:
        for _ in range(repeats):
            with open(path) as fin:
                p = subprocess.Popen([vlib.VH, "total"], stdin=fin, stdout=subprocess.PIPE, stderr=subprocess.DEVNULL,
                                     preexec_fn=_limits)
                chunks = []
                end = time.time() + timeout
                fd = p.stdout.fileno()
                hung = False
                while True:
                    left = end - time.time()
                    if left <= 0:
                        hung = True
                        break
                    r, _, _ = select.select([fd], [], [], left)
                    if not r:
                        hung = True
                        break
                    c = os.read(fd, 1 << 16)
                    if not c:
                        break
                    chunks.append(c)
                if hung:
                    p.kill()
                    os.wait4(p.pid, 0)
                    p.returncode = -9
                    return {"outcome": "hang", "budget_s": timeout}
                _, status, ru = os.wait4(p.pid, 0)
                p.returncode = status
                if status != 0:
                    return {"outcome": "abort", "rc": status}
                r = json.loads(b"".join(chunks).decode().split("\n")[0])
                cpu = ru.ru_utime + ru.ru_stime
                if best_cpu is None or cpu < best_cpu:
                    best_cpu = cpu
                rss = r.get("hwm_kb") or ru.ru_maxrss     # (ru_maxrss of a forked child includes the parent's image)
                if best_rss is None or rss < best_rss:
                    best_rss = rss
                result = r
    finally:
        try:
            os.unlink(path)
        except OSError:
            pass
    return {"outcome": "panic" if result.get("panic") else "ok", "cpu_s": best_cpu, "rss_kb": best_rss, "result": result}
