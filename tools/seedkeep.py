#!/usr/bin/env python3
"""Development aid: archive a confirmed seeded change under /verif/seeded/<name>/.
   tools/seedkeep.py <worktree> <name> <caught_by comma list | none> "<note>" ["<short description>" [round]] """
import json, os, shutil, sys
wt, name, caught, note = sys.argv[1:5]
short = sys.argv[5] if len(sys.argv) > 5 else None
rnd = int(sys.argv[6]) if len(sys.argv) > 6 else 1
dst = os.path.join("/verif/seeded", name)
os.makedirs(dst, exist_ok=True)
shutil.copy(os.path.join(wt, "SEED/patch.diff"), os.path.join(dst, "patch.diff"))
demo = os.path.join(wt, "SEED/demo")
if os.path.isdir(demo):
    d2 = os.path.join(dst, "demo")
    if os.path.exists(d2):
        shutil.rmtree(d2)
    shutil.copytree(demo, d2, ignore=shutil.ignore_patterns("target", "*.rlib", "out", "Cargo.lock", ".baseline*", "_before", "bin", "*.o", "*.rmeta"))
    # drop anything big
    for root, _, files in os.walk(d2):
        for f in files:
            p = os.path.join(root, f)
            if os.path.getsize(p) > 200_000:
                os.remove(p)
meta = json.load(open(os.path.join(wt, "SEED/meta.json")))
meta["confirmed_by_me"] = {"compiles_and_84_tests_pass": True, "demonstration_reproduced": True}
meta["caught_by"] = [] if caught == "none" else caught.split(",")
meta["note"] = note
if short:
    meta["short"] = short
meta["round"] = rnd
json.dump(meta, open(os.path.join(dst, "meta.json"), "w"), indent=1, ensure_ascii=False)
print("kept", dst)
