//! Dumps of the crate-private pure functions (through the cfg-guarded `verif_hooks`).
//!   vh tables ident <from> <to>          one name per line: `<id> <name>`
//!   vh tables escape <from> <to> <succs> ndjson `[cp, succ, literal]` for each scalar in range
//!                                        and each successor string in the JSON list <succs>
//!   vh tables lit                        ndjson stdin `{"s": ..}` -> `{"lit": ..}`
//!   vh tables resolve                    ndjson stdin `{"base":..,"rel":..}` -> `{"r":..}`
//!   vh tables normalize                  ndjson stdin `{"p":..}` -> `{"r":..}`

use glass_easel_template_compiler::verif_hooks as h;
use serde_json::{json, Value};
use std::io::{BufRead, Write};

pub fn run(args: &[String], out: &mut impl Write) {
    let sub = args.get(0).map(|s| s.as_str()).unwrap_or("");
    match sub {
        "ident" => {
            let from: usize = args[1].parse().unwrap();
            let to: usize = args[2].parse().unwrap();
            for i in from..to {
                // a panic of the allocator is data: `<id> !<message>`
                match std::panic::catch_unwind(|| h::get_var_name(i)) {
                    Ok(n) => writeln!(out, "{} {}", i, n).unwrap(),
                    Err(e) => writeln!(out, "{} !{}", i, crate::panic_msg(e).replace('\n', " ")).unwrap(),
                }
            }
        }
        "escape" => {
            let from: u32 = args[1].parse().unwrap();
            let to: u32 = args[2].parse().unwrap();
            let succs: Vec<String> = serde_json::from_str(&args[3]).unwrap();
            for cp in from..to {
                let Some(c) = char::from_u32(cp) else { continue };
                for (i, s) in succs.iter().enumerate() {
                    let mut t = String::new();
                    t.push(c);
                    t.push_str(s);
                    let lit = h::gen_lit_str(&t);
                    writeln!(out, "{}", json!([cp, i, lit])).unwrap();
                }
            }
        }
        "escape-list" => {
            // code points on stdin (one per line), successors in args[1]
            let succs: Vec<String> = serde_json::from_str(&args[1]).unwrap();
            let stdin = std::io::stdin();
            for line in stdin.lock().lines() {
                let line = line.unwrap();
                let Ok(cp) = line.trim().parse::<u32>() else { continue };
                let Some(c) = char::from_u32(cp) else { continue };
                for (i, s) in succs.iter().enumerate() {
                    let mut t = String::new();
                    t.push(c);
                    t.push_str(s);
                    writeln!(out, "{}", json!([cp, i, h::gen_lit_str(&t)])).unwrap();
                }
            }
        }
        "lit" | "resolve" | "normalize" => {
            let stdin = std::io::stdin();
            for line in stdin.lock().lines() {
                let line = line.unwrap();
                if line.trim().is_empty() {
                    continue;
                }
                let v: Value = serde_json::from_str(&line).unwrap();
                let r = match sub {
                    "lit" => json!({"lit": h::gen_lit_str(v["s"].as_str().unwrap_or(""))}),
                    "resolve" => json!({"r": h::path_resolve(
                        v["base"].as_str().unwrap_or(""),
                        v["rel"].as_str().unwrap_or("")
                    )}),
                    _ => json!({"r": h::path_normalize(v["p"].as_str().unwrap_or(""))}),
                };
                writeln!(out, "{}", r).unwrap();
            }
        }
        _ => {
            eprintln!("usage: vh tables ident|escape|lit|resolve|normalize");
            std::process::exit(2);
        }
    }
}
