//! Projection of the public AST to JSON: every located node with its location and the text it
//! claims to denote.  One fixed projection used by C14 (structure, locations stripped by the
//! caller), C16 (locations) and C05 (scope indices).

use glass_easel_template_compiler as tc;
use serde_json::{json, Value};
use std::ops::Range;
use tc::parse::expr::{ArrayFieldKind, Expression, ObjectFieldKind};
use tc::parse::tag::*;
use tc::parse::{Position, TemplateStructure};

fn loc(r: &Range<Position>) -> Value {
    json!([r.start.line, r.start.utf16_col, r.end.line, r.end.utf16_col])
}

fn node(k: &str, t: Value, l: &Range<Position>, ch: Vec<Value>) -> Value {
    json!({"k": k, "t": t, "loc": loc(l), "ch": ch})
}

fn ident(k: &str, i: &Ident) -> Value {
    node(k, json!(i.name.as_str()), &i.location, vec![])
}

fn strname(k: &str, s: &StrName) -> Value {
    node(k, json!(s.name.as_str()), &s.location, vec![])
}

fn un(k: &str, op: &Range<Position>, v: &Expression, whole: &Range<Position>) -> Value {
    json!({"k": k, "t": Value::Null, "loc": loc(whole), "op": loc(op), "ch": [expr(v)]})
}

fn bin(
    k: &str,
    op: &Range<Position>,
    l: &Expression,
    r: &Expression,
    whole: &Range<Position>,
) -> Value {
    json!({"k": k, "t": Value::Null, "loc": loc(whole), "op": loc(op), "ch": [expr(l), expr(r)]})
}

pub fn expr(e: &Expression) -> Value {
    let whole = e.location();
    match e {
        Expression::ScopeRef { location, index } => {
            json!({"k": "scope", "t": Value::Null, "idx": index, "loc": loc(location), "ch": []})
        }
        Expression::DataField { name, location } => {
            node("ident", json!(name.as_str()), location, vec![])
        }
        Expression::ToStringWithoutUndefined { value, location } => {
            json!({"k": "tostr", "t": Value::Null, "loc": loc(location), "ch": [expr(value)]})
        }
        Expression::LitUndefined { location } => node("undefined", json!("undefined"), location, vec![]),
        Expression::LitNull { location } => node("null", json!("null"), location, vec![]),
        Expression::LitStr { value, location } => node("str", json!(value.as_str()), location, vec![]),
        Expression::LitInt { value, location } => node("int", json!(value.to_string()), location, vec![]),
        Expression::LitFloat { value, location } => {
            node("float", json!(format!("{}", value)), location, vec![])
        }
        Expression::LitBool { value, location } => {
            node("bool", json!(value.to_string()), location, vec![])
        }
        Expression::LitObj {
            fields,
            brace_location,
        } => {
            let ch: Vec<Value> = fields
                .iter()
                .map(|f| match f {
                    ObjectFieldKind::Named {
                        name,
                        location,
                        colon_location,
                        value,
                    } => json!({"k": "field", "t": name.as_str(), "loc": loc(location),
                        "short": colon_location.is_none(), "ch": [expr(value)]}),
                    ObjectFieldKind::Spread { location, value } => {
                        json!({"k": "spread", "t": Value::Null, "loc": loc(location), "ch": [expr(value)]})
                    }
                })
                .collect();
            json!({"k": "obj", "t": Value::Null, "loc": loc(&whole), "l": loc(&brace_location.0), "r": loc(&brace_location.1), "ch": ch})
        }
        Expression::LitArr {
            fields,
            bracket_location,
        } => {
            let ch: Vec<Value> = fields
                .iter()
                .map(|f| match f {
                    ArrayFieldKind::Normal { value } => expr(value),
                    ArrayFieldKind::Spread { location, value } => {
                        json!({"k": "spread", "t": Value::Null, "loc": loc(location), "ch": [expr(value)]})
                    }
                    ArrayFieldKind::EmptySlot => json!({"k": "hole", "t": Value::Null, "ch": []}),
                })
                .collect();
            json!({"k": "arr", "t": Value::Null, "loc": loc(&whole), "l": loc(&bracket_location.0), "r": loc(&bracket_location.1), "ch": ch})
        }
        Expression::StaticMember {
            obj,
            field_name,
            dot_location,
            field_location,
        } => {
            json!({"k": "member", "t": Value::Null, "loc": loc(&whole), "op": loc(dot_location),
                "ch": [expr(obj), node("name", json!(field_name.as_str()), field_location, vec![])]})
        }
        Expression::DynamicMember {
            obj,
            field_name,
            bracket_location,
        } => {
            json!({"k": "index", "t": Value::Null, "loc": loc(&whole), "l": loc(&bracket_location.0), "r": loc(&bracket_location.1),
                "ch": [expr(obj), expr(field_name)]})
        }
        Expression::FuncCall {
            func,
            args,
            paren_location,
        } => {
            let mut ch = vec![expr(func)];
            ch.extend(args.iter().map(expr));
            json!({"k": "call", "t": Value::Null, "loc": loc(&whole), "l": loc(&paren_location.0), "r": loc(&paren_location.1), "ch": ch})
        }
        Expression::Reverse { value, location } => un("!", location, value, &whole),
        Expression::BitReverse { value, location } => un("~", location, value, &whole),
        Expression::Positive { value, location } => un("u+", location, value, &whole),
        Expression::Negative { value, location } => un("u-", location, value, &whole),
        Expression::TypeOf { value, location } => un("typeof", location, value, &whole),
        Expression::Void { value, location } => un("void", location, value, &whole),
        Expression::Multiply { left, right, location } => bin("*", location, left, right, &whole),
        Expression::Divide { left, right, location } => bin("/", location, left, right, &whole),
        Expression::Remainer { left, right, location } => bin("%", location, left, right, &whole),
        Expression::Plus { left, right, location } => bin("+", location, left, right, &whole),
        Expression::Minus { left, right, location } => bin("-", location, left, right, &whole),
        Expression::LeftShift { left, right, location } => bin("<<", location, left, right, &whole),
        Expression::RightShift { left, right, location } => bin(">>", location, left, right, &whole),
        Expression::UnsignedRightShift { left, right, location } => {
            bin(">>>", location, left, right, &whole)
        }
        Expression::Lt { left, right, location } => bin("<", location, left, right, &whole),
        Expression::Gt { left, right, location } => bin(">", location, left, right, &whole),
        Expression::Lte { left, right, location } => bin("<=", location, left, right, &whole),
        Expression::Gte { left, right, location } => bin(">=", location, left, right, &whole),
        Expression::InstanceOf { left, right, location } => {
            bin("instanceof", location, left, right, &whole)
        }
        Expression::Eq { left, right, location } => bin("==", location, left, right, &whole),
        Expression::Ne { left, right, location } => bin("!=", location, left, right, &whole),
        Expression::EqFull { left, right, location } => bin("===", location, left, right, &whole),
        Expression::NeFull { left, right, location } => bin("!==", location, left, right, &whole),
        Expression::BitAnd { left, right, location } => bin("&", location, left, right, &whole),
        Expression::BitXor { left, right, location } => bin("^", location, left, right, &whole),
        Expression::BitOr { left, right, location } => bin("|", location, left, right, &whole),
        Expression::LogicAnd { left, right, location } => bin("&&", location, left, right, &whole),
        Expression::LogicOr { left, right, location } => bin("||", location, left, right, &whole),
        Expression::NullishCoalescing { left, right, location } => {
            bin("??", location, left, right, &whole)
        }
        Expression::Cond {
            cond,
            true_br,
            false_br,
            question_location,
            colon_location,
        } => {
            json!({"k": "cond", "t": Value::Null, "loc": loc(&whole), "op": loc(question_location), "op2": loc(colon_location),
                "ch": [expr(cond), expr(true_br), expr(false_br)]})
        }
        _ => json!({"k": "unknown-expr", "t": Value::Null, "ch": []}),
    }
}

pub fn value(v: &Value_) -> Value {
    match v {
        Value_::Static { value, location, .. } => node("static", json!(value.as_str()), location, vec![]),
        Value_::Dynamic {
            expression,
            double_brace_location,
            ..
        } => {
            let whole = v.location();
            json!({"k": "dyn", "t": Value::Null, "loc": loc(&whole), "l": loc(&double_brace_location.0), "r": loc(&double_brace_location.1),
                "ch": [expr(expression)]})
        }
        _ => json!({"k": "unknown-value", "t": Value::Null, "ch": []}),
    }
}

type Value_ = tc::parse::tag::Value;

fn opt_value(v: &Option<Value_>) -> Vec<Value> {
    match v {
        Some(v) => vec![value(v)],
        None => vec![],
    }
}

fn attr(family: &str, name: &Ident, v: &Option<Value_>, prefix: Option<&Range<Position>>) -> Value {
    json!({"k": "attr", "fam": family, "t": name.name.as_str(), "loc": loc(&name.location),
        "prefix": prefix.map(loc), "ch": opt_value(v)})
}

fn static_attr(family: &str, a: &StaticAttribute) -> Value {
    json!({"k": "attr", "fam": family, "t": a.name.name.as_str(), "loc": loc(&a.name.location),
        "prefix": a.prefix_location.as_ref().map(loc), "ch": [strname("staticv", &a.value)]})
}

fn kv(family: &str, name_loc: &Range<Position>, v: &Value_) -> Value {
    json!({"k": "attr", "fam": family, "t": Value::Null, "loc": loc(name_loc), "ch": [value(v)]})
}

fn common(c: &CommonElementAttributes, out: &mut Vec<Value>) {
    if let Some((l, v)) = &c.id {
        out.push(kv("id", l, v));
    }
    if let Some((l, v)) = &c.slot {
        out.push(kv("slot", l, v));
    }
    for a in &c.slot_value_refs {
        out.push(static_attr("slot:", a));
    }
    for e in &c.event_bindings {
        let fam = format!(
            "ev{}{}{}",
            if e.is_capture { ":capture" } else { "" },
            if e.is_mut { ":mut" } else { "" },
            if e.is_catch { ":catch" } else { ":bind" }
        );
        out.push(attr(&fam, &e.name, &e.value, Some(&e.prefix_location)));
    }
    for a in &c.data {
        out.push(attr("data:", &a.name, &a.value, a.prefix_location.as_ref()));
    }
    for a in &c.marks {
        out.push(attr("mark:", &a.name, &a.value, a.prefix_location.as_ref()));
    }
}

fn tagloc(t: &TagLocation) -> Value {
    json!({"s0": loc(&t.start.0), "s1": loc(&t.start.1), "close": loc(&t.close),
        "e": t.end.as_ref().map(|(a, b)| json!([loc(a), loc(b)]))})
}

pub fn nodes(list: &[Node]) -> Vec<Value> {
    list.iter().map(node_).collect()
}

fn node_(n: &Node) -> Value {
    match n {
        Node::Text(v) => json!({"k": "text", "t": Value::Null, "loc": loc(&v.location()), "ch": [value(v)]}),
        Node::Comment(c) => node("comment", json!(c.content), &c.location, vec![]),
        Node::UnknownMetaTag(m) => node("meta", Value::Null, &m.location, vec![]),
        Node::Element(e) => element(e),
        _ => json!({"k": "unknown-node", "t": Value::Null, "ch": []}),
    }
}

fn element(e: &Element) -> Value {
    let whole = e.location();
    let tl = tagloc(&e.tag_location);
    match &e.kind {
        ElementKind::Normal {
            tag_name,
            attributes,
            class,
            style,
            change_attributes,
            worklet_attributes,
            children,
            generics,
            extra_attr,
            common: c,
            ..
        } => {
            let mut at = vec![];
            for a in attributes {
                let (fam, p) = match &a.prefix {
                    NormalAttributePrefix::None => ("plain", None),
                    NormalAttributePrefix::Model(l) => ("model:", Some(l)),
                };
                at.push(attr(fam, &a.name, &a.value, p));
            }
            if let ClassAttribute::String(l, v) = class {
                at.push(kv("class", l, v));
            }
            if let StyleAttribute::String(l, v) = style {
                at.push(kv("style", l, v));
            }
            for a in change_attributes {
                at.push(attr("change:", &a.name, &a.value, a.prefix_location.as_ref()));
            }
            for a in worklet_attributes {
                at.push(static_attr("worklet:", a));
            }
            for a in generics {
                at.push(static_attr("generic:", a));
            }
            for a in extra_attr {
                at.push(static_attr("extra-attr:", a));
            }
            common(c, &mut at);
            json!({"k": "elem", "t": Value::Null, "loc": loc(&whole), "tl": tl, "tag": ident("tag", tag_name), "at": at, "ch": nodes(children)})
        }
        ElementKind::Pure {
            children,
            slot,
            slot_value_refs,
            ..
        } => {
            let mut at = vec![];
            if let Some((l, v)) = slot {
                at.push(kv("slot", l, v));
            }
            for a in slot_value_refs {
                at.push(static_attr("slot:", a));
            }
            json!({"k": "block", "t": Value::Null, "loc": loc(&whole), "tl": tl, "at": at, "ch": nodes(children)})
        }
        ElementKind::For {
            list,
            item_name,
            index_name,
            key,
            children,
            ..
        } => {
            json!({"k": "for", "t": Value::Null, "loc": loc(&whole), "tl": tl,
                "at": [kv("wx:for", &list.0, &list.1),
                       json!({"k": "attr", "fam": "wx:for-item", "t": Value::Null, "loc": loc(&item_name.0), "ch": [strname("scopename", &item_name.1)]}),
                       json!({"k": "attr", "fam": "wx:for-index", "t": Value::Null, "loc": loc(&index_name.0), "ch": [strname("scopename", &index_name.1)]}),
                       json!({"k": "attr", "fam": "wx:key", "t": Value::Null, "loc": loc(&key.0), "ch": [strname("staticv", &key.1)]})],
                "ch": nodes(children)})
        }
        ElementKind::If {
            branches,
            else_branch,
            ..
        } => {
            let mut brs = vec![];
            for (l, v, ch) in branches {
                brs.push(json!({"k": "branch", "t": Value::Null, "loc": Value::Null, "at": [kv("wx:if", l, v)], "ch": nodes(ch)}));
            }
            if let Some((l, ch)) = else_branch {
                brs.push(json!({"k": "else", "t": Value::Null, "loc": Value::Null,
                    "at": [json!({"k": "attr", "fam": "wx:else", "t": Value::Null, "loc": loc(l), "ch": []})], "ch": nodes(ch)}));
            }
            json!({"k": "if", "t": Value::Null, "loc": loc(&whole), "tl": tl, "at": [], "ch": brs})
        }
        ElementKind::TemplateRef { target, data, .. } => {
            json!({"k": "tmplref", "t": Value::Null, "loc": loc(&whole), "tl": tl,
                "at": [kv("is", &target.0, &target.1), kv("data", &data.0, &data.1)], "ch": []})
        }
        ElementKind::Include { path, .. } => {
            json!({"k": "include", "t": Value::Null, "loc": loc(&whole), "tl": tl,
                "at": [json!({"k": "attr", "fam": "src", "t": Value::Null, "loc": loc(&path.0), "ch": [strname("staticv", &path.1)]})], "ch": []})
        }
        ElementKind::Slot {
            name,
            values,
            common: c,
            ..
        } => {
            let mut at = vec![kv("name", &name.0, &name.1)];
            for a in values {
                at.push(attr("slotv", &a.name, &a.value, a.prefix_location.as_ref()));
            }
            common(c, &mut at);
            json!({"k": "slot", "t": Value::Null, "loc": loc(&whole), "tl": tl, "at": at, "ch": []})
        }
        _ => json!({"k": "unknown-elem", "t": Value::Null, "ch": []}),
    }
}

pub fn project(path: &str, src: &str) -> Value {
    let (t, _ps) = tc::parse::parse(path, src);
    let g = &t.globals;
    let imports: Vec<Value> = g
        .imports
        .iter()
        .map(|i| json!({"k": "import", "t": Value::Null, "loc": loc(&i.src_location), "tl": tagloc(&i.tag_location), "ch": [strname("staticv", &i.src)]}))
        .collect();
    let includes: Vec<Value> = g
        .includes
        .iter()
        .map(|i| json!({"k": "includeref", "t": Value::Null, "loc": loc(&i.src_location), "tl": tagloc(&i.tag_location), "ch": [strname("staticv", &i.src)]}))
        .collect();
    let subs: Vec<Value> = g
        .sub_templates
        .iter()
        .map(|s| json!({"k": "tmpldef", "t": Value::Null, "loc": loc(&s.name_location), "tl": tagloc(&s.tag_location),
            "name": strname("staticv", &s.name), "ch": nodes(&s.content)}))
        .collect();
    let scripts: Vec<Value> = g
        .scripts
        .iter()
        .map(|s| match s {
            Script::Inline {
                tag_location,
                module_location,
                module_name,
                content,
                content_location,
                ..
            } => json!({"k": "wxs-inline", "t": Value::Null, "loc": loc(module_location), "tl": tagloc(tag_location),
                "name": strname("scopename", module_name), "content": content, "cloc": loc(content_location), "ch": []}),
            Script::GlobalRef {
                tag_location,
                module_location,
                module_name,
                src_location,
                src,
                ..
            } => json!({"k": "wxs-ref", "t": Value::Null, "loc": loc(module_location), "tl": tagloc(tag_location),
                "name": strname("scopename", module_name), "srcloc": loc(src_location), "ch": [strname("staticv", src)]}),
            _ => json!({"k": "unknown-script"}),
        })
        .collect();
    json!({"imports": imports, "includes": includes, "subs": subs, "scripts": scripts, "content": nodes(&t.content)})
}
