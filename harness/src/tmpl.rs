use glass_easel_template_compiler as tc;
use serde_json::{json, Map, Value};
use std::panic::{catch_unwind, AssertUnwindSafe};
use tc::stringify::Stringify;
use tc::verif_hooks::verif_bm_trace;
use tc::verif_hooks::verif_trace;

fn want(v: &Value, k: &str) -> bool {
    v.get("want")
        .and_then(|w| w.as_array())
        .map(|a| a.iter().any(|x| x.as_str() == Some(k)))
        .unwrap_or(false)
}

fn warn_json(w: &tc::parse::ParseError) -> Value {
    json!([
        w.code(),
        w.level() as u8,
        w.location.start.line,
        w.location.start.utf16_col,
        w.location.end.line,
        w.location.end.utf16_col
    ])
}

fn guarded<T>(phase: &str, panics: &mut Vec<Value>, f: impl FnOnce() -> T) -> Option<T> {
    match catch_unwind(AssertUnwindSafe(f)) {
        Ok(x) => Some(x),
        Err(e) => {
            let loc = crate::LAST_PANIC_LOC.with(|l| l.borrow().clone());
            panics.push(json!({"phase": phase, "msg": crate::panic_msg(e), "loc": loc}));
            None
        }
    }
}

fn trace_json(evs: &[verif_trace::Ev]) -> Value {
    // compact: [op, a0..] with op 0=adv 1=try 2=ok 3=rb 4=warn
    Value::Array(
        evs.iter()
            .map(|e| {
                let op = match e.op {
                    verif_trace::Op::Adv => 0,
                    verif_trace::Op::Try => 1,
                    verif_trace::Op::Ok => 2,
                    verif_trace::Op::Rb => 3,
                    verif_trace::Op::Warn => 4,
                };
                match e.op {
                    verif_trace::Op::Adv | verif_trace::Op::Rb => {
                        json!([op, e.a[0], e.a[1], e.a[2]])
                    }
                    verif_trace::Op::Try | verif_trace::Op::Ok => json!([op]),
                    verif_trace::Op::Warn => json!([op, e.a[0], e.a[1], e.a[2], e.a[3], e.a[4]]),
                }
            })
            .collect(),
    )
}

fn res_str(r: Result<String, tc::TmplError>) -> Value {
    match r {
        Ok(s) => Value::String(s),
        Err(e) => json!({"err": e.message}),
    }
}

pub fn stringify_one(
    path: &str,
    src: &str,
    mangling: bool,
) -> (String, Vec<Value>, Vec<Value>) {
    let (template, ps) = tc::parse::parse(path, src);
    let warns: Vec<Value> = ps.warnings().map(warn_json).collect();
    let mut stringifier = tc::stringify::Stringifier::new(String::new(), path, src);
    stringifier.set_mangling(mangling);
    template.stringify_write(&mut stringifier).unwrap();
    let (out, sm) = stringifier.finish();
    let toks: Vec<Value> = sm
        .tokens()
        .map(|t| {
            json!([
                t.get_dst_line(),
                t.get_dst_col(),
                t.get_src_line(),
                t.get_src_col(),
                t.get_name()
            ])
        })
        .collect();
    (out, warns, toks)
}

pub fn run_case(v: &Value) -> Value {
    let mut res = Map::new();
    res.insert("id".into(), v.get("id").cloned().unwrap_or(Value::Null));
    let mut panics: Vec<Value> = vec![];
    let dev = v.get("dev").and_then(|x| x.as_bool()).unwrap_or(false);

    // normalise to an op list
    let mut ops: Vec<Vec<String>> = vec![];
    if let Some(a) = v.get("ops").and_then(|x| x.as_array()) {
        for op in a {
            ops.push(
                op.as_array()
                    .map(|x| {
                        x.iter()
                            .map(|s| s.as_str().unwrap_or("").to_string())
                            .collect()
                    })
                    .unwrap_or_default(),
            );
        }
    }
    if let Some(a) = v.get("scripts").and_then(|x| x.as_array()) {
        for f in a {
            ops.push(vec![
                "add_script".into(),
                f[0].as_str().unwrap_or("").into(),
                f[1].as_str().unwrap_or("").into(),
            ]);
        }
    }
    if let Some(a) = v.get("files").and_then(|x| x.as_array()) {
        for f in a {
            ops.push(vec![
                "add_tmpl".into(),
                f[0].as_str().unwrap_or("").into(),
                f[1].as_str().unwrap_or("").into(),
            ]);
        }
    }

    // operations applied after the files were added (e.g. an inline module set by name afterwards)
    if let Some(a) = v.get("post_ops").and_then(|x| x.as_array()) {
        for op in a {
            ops.push(
                op.as_array()
                    .map(|x| {
                        x.iter()
                            .map(|s| s.as_str().unwrap_or("").to_string())
                            .collect()
                    })
                    .unwrap_or_default(),
            );
        }
    }

    let new_group = || {
        if dev {
            tc::TmplGroup::new_dev()
        } else {
            tc::TmplGroup::new()
        }
    };
    let mut group = new_group();
    let mut sub: Option<tc::TmplGroup> = None;
    let mut warns = vec![];
    let mut traces = vec![];
    let mut sources: Vec<(String, String)> = vec![];
    // "incrgroups": a bundle assembled from per-file objects, each generated right after its file was added
    let want_incr = want(v, "incrgroups");
    let mut incr: Vec<(String, String)> = vec![];
    let want_trace = want(v, "trace");
    // calls on the binding-map collectors of this case (second pass of the parser and list_fields at emission)
    let want_bm = want(v, "bmtrace");
    if want_bm {
        verif_bm_trace::start();
    }
    for op in ops.iter() {
        let g = if let Some(s) = sub.as_mut() {
            s
        } else {
            &mut group
        };
        match op[0].as_str() {
            "add_tmpl" => {
                if want_trace {
                    verif_trace::start();
                }
                let w = guarded("add_tmpl", &mut panics, || g.add_tmpl(&op[1], &op[2]));
                let evs = if want_trace {
                    verif_trace::take()
                } else {
                    vec![]
                };
                warns.push(json!({"path": op[1], "w": w.map(|w| w.iter().map(warn_json).collect::<Vec<_>>())}));
                if want_trace {
                    traces.push(json!({"path": op[1], "len": op[2].len(), "ev": trace_json(&evs)}));
                }
                sources.retain(|(p, _)| p != &op[1]);
                sources.push((op[1].clone(), op[2].clone()));
                if want_incr && sub.is_none() {
                    // the object of this file, generated NOW - while later files are not in the group yet
                    let p = op[1].clone();
                    if let Some(r) = guarded("incr:get_tmpl_gen_object", &mut panics, || group.get_tmpl_gen_object(&p)) {
                        if let Ok(code) = r {
                            incr.retain(|(q, _)| q != &p);
                            incr.push((p, code));
                        }
                    }
                }
            }
            "add_script" => {
                g.add_script(&op[1], &op[2]);
            }
            "remove_tmpl" => {
                g.remove_tmpl(&op[1]);
                sources.retain(|(p, _)| p != &op[1]);
            }
            "remove_script" => {
                g.remove_script(&op[1]);
            }
            "set_inline" => {
                let _ = g.set_inline_script_content(&op[1], &op[2], &op[3]);
            }
            "emit" => {
                // an observation in the middle of a history: every emitter runs, the results are dropped
                let paths: Vec<String> = group
                    .list_template_trees()
                    .map(|(p, _)| p.to_string())
                    .collect();
                for p in paths.iter() {
                    let _ = guarded("emit:get_tmpl_gen_object", &mut panics, || {
                        group.get_tmpl_gen_object(p).map(|_| ())
                    });
                }
                let _ = guarded("emit:get_tmpl_gen_object_groups", &mut panics, || {
                    group.get_tmpl_gen_object_groups().map(|_| ())
                });
                let _ = guarded("emit:get_wx_gen_object_groups", &mut panics, || {
                    group.get_wx_gen_object_groups().map(|_| ())
                });
                let _ = guarded("emit:export_all_scripts", &mut panics, || {
                    group.export_all_scripts().map(|_| ())
                });
            }
            "extra_runtime" => {
                g.set_extra_runtime_script(&op[1]);
            }
            "sub_begin" => {
                sub = Some(new_group());
            }
            "sub_end_import" => {
                if let Some(s) = sub.take() {
                    group.import_group(&s);
                }
            }
            _ => {}
        }
    }
    if let Some(s) = sub.take() {
        group.import_group(&s);
    }
    res.insert("warn".into(), Value::Array(warns));
    if want_trace {
        res.insert("trace".into(), Value::Array(traces));
    }

    let mut paths: Vec<String> = group
        .list_template_trees()
        .map(|(p, _)| p.to_string())
        .collect();
    paths.sort();

    if want(v, "art") || want(v, "obj") {
        let mut art = Map::new();
        let mut objs = Map::new();
        for p in paths.iter() {
            if let Some(r) = guarded("get_tmpl_gen_object", &mut panics, || {
                group.get_tmpl_gen_object(p)
            }) {
                objs.insert(p.clone(), res_str(r));
            }
        }
        art.insert("obj".into(), Value::Object(objs));
        if want(v, "art") {
            if let Some(r) = guarded("get_tmpl_gen_object_groups", &mut panics, || {
                group.get_tmpl_gen_object_groups()
            }) {
                art.insert("groups".into(), res_str(r));
            }
            if let Some(r) = guarded("get_wx_gen_object_groups", &mut panics, || {
                group.get_wx_gen_object_groups()
            }) {
                art.insert("wx".into(), res_str(r));
            }
            if let Some(r) = guarded("get_runtime_string", &mut panics, || {
                group.get_runtime_string()
            }) {
                art.insert("runtime".into(), Value::String(r));
            }
            if let Some(r) = guarded("export_globals", &mut panics, || group.export_globals()) {
                art.insert("globals".into(), res_str(r));
            }
            if let Some(r) = guarded("export_all_scripts", &mut panics, || {
                group.export_all_scripts()
            }) {
                art.insert("scripts".into(), res_str(r));
            }
        }
        res.insert("art".into(), Value::Object(art));
    } else if want(v, "groups") {
        if let Some(r) = guarded("get_tmpl_gen_object_groups", &mut panics, || {
            group.get_tmpl_gen_object_groups()
        }) {
            res.insert("groups".into(), res_str(r));
        }
    }

    if want_incr {
        let mut b = String::from("(function(){var G={};var R={};");
        b.push_str(&group.get_runtime_string());
        b.push(';');
        for (p, code) in incr.iter() {
            b.push_str(&format!("G[{}]={};", serde_json::to_string(p).unwrap(), code));
        }
        b.push_str("return G})()");
        res.insert("incrgroups".into(), json!(b));
    }

    if want(v, "deps") {
        let mut deps = Map::new();
        for p in paths.iter() {
            let d: Vec<String> = group
                .direct_dependencies(p)
                .map(|x| x.collect())
                .unwrap_or_default();
            let s: Vec<String> = group
                .script_dependencies(p)
                .map(|x| x.collect())
                .unwrap_or_default();
            let i: Vec<String> = group
                .inline_script_module_names(p)
                .map(|x| x.map(|s| s.to_string()).collect())
                .unwrap_or_default();
            deps.insert(p.clone(), json!({"direct": d, "script": s, "inline": i}));
        }
        res.insert("deps".into(), Value::Object(deps));
    }

    if want(v, "str") {
        let mut strs = Map::new();
        for (p, src) in sources.iter() {
            let mut o = Map::new();
            if let Some((out, w, toks)) =
                guarded("stringify", &mut panics, || stringify_one(p, src, false))
            {
                o.insert("plain".into(), Value::String(out));
                o.insert("w".into(), Value::Array(w));
                o.insert("map".into(), Value::Array(toks));
            }
            if let Some((out, _, _)) =
                guarded("stringify_mangled", &mut panics, || stringify_one(p, src, true))
            {
                o.insert("mangled".into(), Value::String(out));
            }
            if let Some(s) = guarded("stringify_tmpl", &mut panics, || group.stringify_tmpl(p)) {
                o.insert("group".into(), json!(s));
            }
            // second round: parse the printed text again and print it again (C14)
            for (key, mangling) in [("plain", false), ("mangled", true)] {
                let Some(Value::String(first)) = o.get(key).cloned() else { continue };
                if let Some((out, w, _)) = guarded("restringify", &mut panics, || {
                    stringify_one(p, &first, mangling)
                }) {
                    o.insert(format!("{}2", key), Value::String(out));
                    o.insert(format!("{}_w2", key), Value::Array(w));
                }
            }
            strs.insert(p.clone(), Value::Object(o));
        }
        res.insert("str".into(), Value::Object(strs));
    }

    if want(v, "ast") {
        let mut asts = Map::new();
        for (p, src) in sources.iter() {
            if let Some(a) = guarded("ast", &mut panics, || crate::ast::project(p, src)) {
                asts.insert(p.clone(), a);
            }
        }
        res.insert("ast".into(), Value::Object(asts));
    }

    if want_bm {
        let evs: Vec<Value> = verif_bm_trace::take()
            .iter()
            .map(|e| match e.op {
                1 | 4 => json!([e.op, e.id]),
                2 => json!([e.op, e.id, e.field, e.ret]),
                3 => json!([e.op, e.id, e.field]),
                _ => json!([e.op, e.id, e.list.iter().map(|(k, n)| json!([k, n])).collect::<Vec<_>>()]),
            })
            .collect();
        res.insert("bmtrace".into(), Value::Array(evs));
    }
    res.insert("panic".into(), Value::Array(panics));
    Value::Object(res)
}
