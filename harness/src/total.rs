//! `vh total` — the C01 executor: one input text through every public entry point of both compilers.
//!
//! case:   {"id":.., "src": text, "path": template path, "fuel": max parser events (0: unlimited),
//!          "opts": stylesheet options, "phases": ["tmpl","css"] (default both)}
//! result: {"id":.., "panic":[{phase,msg,loc}], "events": n, "warn": n, "sizes": {artefact: bytes},
//!          "us": {phase: microseconds}}
//! Nothing semantic is reported: C01 only asks that every call returns.

use glass_easel_stylesheet_compiler as sc;
use glass_easel_template_compiler as tc;
use serde_json::{json, Map, Value};
use std::panic::{catch_unwind, AssertUnwindSafe};
use std::time::Instant;
use tc::verif_hooks::verif_trace;

fn guarded<T>(phase: &str, panics: &mut Vec<Value>, f: impl FnOnce() -> T) -> Option<T> {
    match catch_unwind(AssertUnwindSafe(f)) {
        Ok(x) => Some(x),
        Err(e) => {
            verif_trace::set_fuel(u64::MAX);
            let _ = verif_trace::take();
            let loc = crate::LAST_PANIC_LOC.with(|l| l.borrow().clone());
            panics.push(json!({"phase": phase, "msg": crate::panic_msg(e), "loc": loc}));
            None
        }
    }
}

fn opt_str(o: &Value, k: &str) -> Option<String> {
    o.get(k).and_then(|x| x.as_str()).map(|s| s.to_string())
}

fn size_of(r: Result<String, tc::TmplError>) -> Value {
    match r {
        Ok(s) => json!(s.len()),
        Err(_) => json!(-1),
    }
}

pub fn run_case(v: &Value) -> Value {
    let mut res = Map::new();
    res.insert("id".into(), v.get("id").cloned().unwrap_or(Value::Null));
    let src = v.get("src").and_then(|x| x.as_str()).unwrap_or("");
    let path = v.get("path").and_then(|x| x.as_str()).unwrap_or("a");
    let fuel = v.get("fuel").and_then(|x| x.as_u64()).unwrap_or(0);
    let phases: Vec<String> = v
        .get("phases")
        .and_then(|x| x.as_array())
        .map(|a| a.iter().filter_map(|s| s.as_str().map(|s| s.to_string())).collect())
        .unwrap_or_else(|| vec!["tmpl".into(), "css".into()]);
    let mut panics: Vec<Value> = vec![];
    let mut sizes = Map::new();
    let mut us = Map::new();
    let mut events = 0usize;
    let mut nwarn = 0usize;

    if phases.iter().any(|p| p == "tmpl") {
        for dev in [false, true] {
            let tag = if dev { "dev:" } else { "" };
            let mut group = if dev { tc::TmplGroup::new_dev() } else { tc::TmplGroup::new() };
            let t0 = Instant::now();
            verif_trace::start();
            verif_trace::set_fuel(if fuel == 0 { u64::MAX } else { fuel });
            let w = guarded(&format!("{}add_tmpl", tag), &mut panics, || group.add_tmpl(path, src));
            verif_trace::set_fuel(u64::MAX);
            let n = verif_trace::take().len();
            if !dev {
                events = n;
                nwarn = w.as_ref().map(|w| w.len()).unwrap_or(0);
                us.insert("parse".into(), json!(t0.elapsed().as_micros() as u64));
            }
            if w.is_none() {
                continue;
            }
            let t1 = Instant::now();
            let paths: Vec<String> = group.list_template_trees().map(|(p, _)| p.to_string()).collect();
            for p in paths.iter() {
                if let Some(r) = guarded(&format!("{}get_tmpl_gen_object", tag), &mut panics, || group.get_tmpl_gen_object(p)) {
                    sizes.insert(format!("{}obj", tag), size_of(r));
                }
                if let Some(r) = guarded(&format!("{}stringify_tmpl", tag), &mut panics, || group.stringify_tmpl(p)) {
                    sizes.insert(format!("{}group_str", tag), json!(r.map(|s| s.len())));
                }
                let _ = guarded(&format!("{}deps", tag), &mut panics, || {
                    let a: Vec<String> = group.direct_dependencies(p).map(|x| x.collect()).unwrap_or_default();
                    let b: Vec<String> = group.script_dependencies(p).map(|x| x.collect()).unwrap_or_default();
                    let c: Vec<String> = group
                        .inline_script_module_names(p)
                        .map(|x| x.map(|s| s.to_string()).collect())
                        .unwrap_or_default();
                    a.len() + b.len() + c.len()
                });
            }
            if let Some(r) = guarded(&format!("{}get_tmpl_gen_object_groups", tag), &mut panics, || group.get_tmpl_gen_object_groups()) {
                sizes.insert(format!("{}groups", tag), size_of(r));
            }
            if let Some(r) = guarded(&format!("{}get_wx_gen_object_groups", tag), &mut panics, || group.get_wx_gen_object_groups()) {
                sizes.insert(format!("{}wx", tag), size_of(r));
            }
            if let Some(r) = guarded(&format!("{}export_globals", tag), &mut panics, || group.export_globals()) {
                sizes.insert(format!("{}globals", tag), size_of(r));
            }
            if let Some(r) = guarded(&format!("{}export_all_scripts", tag), &mut panics, || group.export_all_scripts()) {
                sizes.insert(format!("{}scripts", tag), size_of(r));
            }
            // a hot update of the scripts through the group API: the content of every inline module set again as it is, then
            // a module under a new name - and every emitter once more (C01 quantifies over what is done to a group, not
            // over input texts alone)
            for p in paths.iter() {
                let mods: Vec<(String, String)> = group
                    .inline_script_module_names(p)
                    .map(|x| x.map(|s| s.to_string()).collect::<Vec<_>>())
                    .unwrap_or_default()
                    .into_iter()
                    .map(|n| {
                        let c = group.inline_script_content(p, &n).map(|c| c.to_string()).unwrap_or_default();
                        (n, c)
                    })
                    .collect();
                for (n, c) in mods.iter() {
                    let _ = guarded(&format!("{}hot:inline_script_start_line", tag), &mut panics, || group.inline_script_start_line(p, n).ok());
                    let _ = guarded(&format!("{}hot:set_inline_script_content", tag), &mut panics, || group.set_inline_script_content(p, n, c).is_ok());
                }
                let _ = guarded(&format!("{}hot:set_inline_script_content(new)", tag), &mut panics, || {
                    group.set_inline_script_content(p, "verif_late_module", "exports.a = 1").is_ok()
                });
                let _ = guarded(&format!("{}hot:get_tmpl_gen_object", tag), &mut panics, || group.get_tmpl_gen_object(p).map(|s| s.len()).ok());
                let _ = guarded(&format!("{}hot:stringify_tmpl", tag), &mut panics, || group.stringify_tmpl(p).map(|s| s.len()));
            }
            let _ = guarded(&format!("{}hot:get_tmpl_gen_object_groups", tag), &mut panics, || group.get_tmpl_gen_object_groups().map(|s| s.len()).ok());
            let _ = guarded(&format!("{}hot:get_wx_gen_object_groups", tag), &mut panics, || group.get_wx_gen_object_groups().map(|s| s.len()).ok());
            let _ = guarded(&format!("{}hot:export_all_scripts", tag), &mut panics, || group.export_all_scripts().map(|s| s.len()).ok());
            if !dev {
                if let Some(r) = guarded("get_runtime_string", &mut panics, || group.get_runtime_string()) {
                    sizes.insert("runtime".into(), json!(r.len()));
                }
                us.insert("gen".into(), json!(t1.elapsed().as_micros() as u64));
            }
        }
        // re-stringify, with and without mangling, twice
        let t2 = Instant::now();
        for (key, mangling) in [("plain", false), ("mangled", true)] {
            verif_trace::set_fuel(if fuel == 0 { u64::MAX } else { fuel });
            let first = guarded(&format!("stringify_{}", key), &mut panics, || {
                crate::tmpl::stringify_one(path, src, mangling).0
            });
            verif_trace::set_fuel(u64::MAX);
            if let Some(first) = first {
                sizes.insert(key.into(), json!(first.len()));
                // the printed text is an input text too; its own budget is that of its own length
                let fuel2 = if fuel == 0 { u64::MAX } else { fuel.max(fuel_for(first.len())) };
                verif_trace::set_fuel(fuel2);
                let second = guarded(&format!("restringify_{}", key), &mut panics, || {
                    crate::tmpl::stringify_one(path, &first, mangling).0
                });
                verif_trace::set_fuel(u64::MAX);
                if let Some(second) = second {
                    sizes.insert(format!("{}2", key), json!(second.len()));
                }
            }
        }
        us.insert("stringify".into(), json!(t2.elapsed().as_micros() as u64));
    }

    if phases.iter().any(|p| p == "css") {
        let o = v.get("opts").cloned().unwrap_or(json!({}));
        let t3 = Instant::now();
        let r = guarded("css", &mut panics, || {
            let opts = sc::StyleSheetOptions {
                class_prefix: opt_str(&o, "class_prefix"),
                class_prefix_sign: opt_str(&o, "class_prefix_sign"),
                rpx_ratio: o.get("rpx_ratio").and_then(|x| x.as_f64()).unwrap_or(750.) as f32,
                import_sign: opt_str(&o, "import_sign"),
                convert_host: o.get("convert_host").and_then(|x| x.as_bool()).unwrap_or(false),
                host_is: opt_str(&o, "host_is"),
            };
            let mut t = sc::StyleSheetTransformer::from_css(path, src, opts);
            let nw = t.take_warnings().len();
            let (n, l) = t.output_and_low_priority_output();
            let mut ns = String::new();
            n.write_str(&mut ns).unwrap();
            let mut ls = String::new();
            l.write_str(&mut ls).unwrap();
            let mut m1 = vec![];
            n.extract_source_map().to_writer(&mut m1).unwrap();
            let mut m2 = vec![];
            l.extract_source_map().to_writer(&mut m2).unwrap();
            (nw, ns.len(), ls.len(), m1.len(), m2.len())
        });
        if let Some((nw, a, b, c, d)) = r {
            sizes.insert("css_warn".into(), json!(nw));
            sizes.insert("css_normal".into(), json!(a));
            sizes.insert("css_low".into(), json!(b));
            sizes.insert("css_map".into(), json!(c + d));
        }
        us.insert("css".into(), json!(t3.elapsed().as_micros() as u64));
    }

    res.insert("hwm_kb".into(), json!(peak_rss_kb()));
    res.insert("events".into(), json!(events));
    res.insert("warn".into(), json!(nwarn));
    res.insert("sizes".into(), Value::Object(sizes));
    res.insert("us".into(), Value::Object(us));
    res.insert("panic".into(), Value::Array(panics));
    Value::Object(res)
}

/// The parser-event budget of an input of `n` bytes: 256 (n + 8)^2 (C01 "small polynomial").
pub fn fuel_for(n: usize) -> u64 {
    let m = n as u64 + 8;
    256 * m * m
}

/// Peak resident set size of this process so far (VmHWM), in KiB.
fn peak_rss_kb() -> u64 {
    std::fs::read_to_string("/proc/self/status")
        .ok()
        .and_then(|s| {
            s.lines()
                .find(|l| l.starts_with("VmHWM:"))
                .and_then(|l| l.split_whitespace().nth(1).and_then(|x| x.parse().ok()))
        })
        .unwrap_or(0)
}
