use cssparser::{Parser, ParserInput, Token};
use glass_easel_stylesheet_compiler as sc;
use serde_json::{json, Map, Value};
use std::panic::{catch_unwind, AssertUnwindSafe};

/// line/utf16-col of every byte offset, with CSS's notion of a newline (LF, CRLF, CR, FF)
struct LineIndex {
    starts: Vec<usize>,
}

impl LineIndex {
    fn new(s: &str) -> Self {
        let b = s.as_bytes();
        let mut starts = vec![0];
        let mut i = 0;
        while i < b.len() {
            match b[i] {
                b'\n' | 0x0c => starts.push(i + 1),
                b'\r' => {
                    if i + 1 < b.len() && b[i + 1] == b'\n' {
                        i += 1;
                    }
                    starts.push(i + 1)
                }
                _ => {}
            }
            i += 1;
        }
        Self { starts }
    }
    fn pos(&self, s: &str, off: usize) -> (usize, usize) {
        let line = match self.starts.binary_search(&off) {
            Ok(i) => i,
            Err(i) => i - 1,
        };
        let col = s[self.starts[line]..off].encode_utf16().count();
        (line, col)
    }
}

fn f32j(v: f32) -> Value {
    if v.is_finite() {
        json!(v as f64)
    } else {
        json!(format!("{}", v))
    }
}

fn tok_json(t: &Token) -> (String, Value) {
    match t {
        Token::Ident(s) => ("ident".into(), json!(s.as_ref())),
        Token::AtKeyword(s) => ("at".into(), json!(s.as_ref())),
        Token::Hash(s) => ("hash".into(), json!(s.as_ref())),
        Token::IDHash(s) => ("idhash".into(), json!(s.as_ref())),
        Token::QuotedString(s) => ("string".into(), json!(s.as_ref())),
        Token::UnquotedUrl(s) => ("url".into(), json!(s.as_ref())),
        Token::Delim(c) => ("delim".into(), json!(c.to_string())),
        Token::Number {
            has_sign,
            value,
            int_value,
        } => (
            "num".into(),
            json!({"sign": has_sign, "v": f32j(*value), "int": int_value}),
        ),
        Token::Percentage {
            has_sign,
            unit_value,
            int_value,
        } => (
            "pct".into(),
            json!({"sign": has_sign, "v": f32j(*unit_value), "int": int_value}),
        ),
        Token::Dimension {
            has_sign,
            value,
            int_value,
            unit,
        } => (
            "dim".into(),
            json!({"sign": has_sign, "v": f32j(*value), "int": int_value, "unit": unit.as_ref()}),
        ),
        Token::WhiteSpace(s) => ("ws".into(), json!(s)),
        Token::Comment(s) => ("comment".into(), json!(s)),
        Token::Colon => ("colon".into(), Value::Null),
        Token::Semicolon => ("semi".into(), Value::Null),
        Token::Comma => ("comma".into(), Value::Null),
        Token::IncludeMatch => ("~=".into(), Value::Null),
        Token::DashMatch => ("|=".into(), Value::Null),
        Token::PrefixMatch => ("^=".into(), Value::Null),
        Token::SuffixMatch => ("$=".into(), Value::Null),
        Token::SubstringMatch => ("*=".into(), Value::Null),
        Token::CDO => ("cdo".into(), Value::Null),
        Token::CDC => ("cdc".into(), Value::Null),
        Token::Function(s) => ("func".into(), json!(s.as_ref())),
        Token::ParenthesisBlock => ("(".into(), Value::Null),
        Token::SquareBracketBlock => ("[".into(), Value::Null),
        Token::CurlyBracketBlock => ("{".into(), Value::Null),
        Token::BadUrl(s) => ("badurl".into(), json!(s.as_ref())),
        Token::BadString(s) => ("badstring".into(), json!(s.as_ref())),
        Token::CloseParenthesis => (")".into(), Value::Null),
        Token::CloseSquareBracket => ("]".into(), Value::Null),
        Token::CloseCurlyBracket => ("}".into(), Value::Null),
    }
}

fn walk(p: &mut Parser, src: &str, li: &LineIndex, out: &mut Vec<Value>, depth: usize) {
    loop {
        let start = p.position().byte_index();
        let tok = match p.next_including_whitespace_and_comments() {
            Ok(t) => t.clone(),
            Err(_) => break,
        };
        let end = p.position().byte_index();
        let (k, v) = tok_json(&tok);
        let (line, col) = li.pos(src, start);
        out.push(json!([k, v, start, end, line, col, &src[start..end]]));
        let closer = match tok {
            Token::Function(_) | Token::ParenthesisBlock => Some(")"),
            Token::SquareBracketBlock => Some("]"),
            Token::CurlyBracketBlock => Some("}"),
            _ => None,
        };
        if let Some(c) = closer {
            if depth > 200 {
                // parse_nested_block recursion guard: skip the block contents
                continue;
            }
            let _ = p.parse_nested_block(|p| -> Result<(), cssparser::ParseError<()>> {
                walk(p, src, li, out, depth + 1);
                Ok(())
            });
            // the closing bracket (if present) was consumed by parse_nested_block
            let e = p.position().byte_index();
            if e > 0 && src[..e].ends_with(c) {
                let (line, col) = li.pos(src, e - 1);
                out.push(json!([c, Value::Null, e - 1, e, line, col, c]));
            }
        }
    }
}

pub fn tokenize(src: &str) -> Vec<Value> {
    let mut input = ParserInput::new(src);
    let mut p = Parser::new(&mut input);
    let li = LineIndex::new(src);
    let mut out = vec![];
    walk(&mut p, src, &li, &mut out, 0);
    out
}

fn opt_str(v: &Value, k: &str) -> Option<String> {
    v.get(k).and_then(|x| x.as_str()).map(|s| s.to_string())
}

fn map6(sm: sourcemap6::SourceMap) -> (Vec<Value>, bool) {
    let toks: Vec<Value> = sm
        .tokens()
        .map(|t| {
            json!([
                t.get_dst_line(),
                t.get_dst_col(),
                t.get_src_line(),
                t.get_src_col(),
                t.get_name(),
                t.get_source()
            ])
        })
        .collect();
    // JSON round trip
    let mut buf = vec![];
    let ok = sm.to_writer(&mut buf).is_ok();
    let rt = ok
        && match sourcemap6::SourceMap::from_reader(&buf[..]) {
            Ok(sm2) => {
                let a: Vec<_> = sm
                    .tokens()
                    .map(|t| {
                        (
                            t.get_dst_line(),
                            t.get_dst_col(),
                            t.get_src_line(),
                            t.get_src_col(),
                            t.get_name().map(|s| s.to_string()),
                        )
                    })
                    .collect();
                let b: Vec<_> = sm2
                    .tokens()
                    .map(|t| {
                        (
                            t.get_dst_line(),
                            t.get_dst_col(),
                            t.get_src_line(),
                            t.get_src_col(),
                            t.get_name().map(|s| s.to_string()),
                        )
                    })
                    .collect();
                a == b
            }
            Err(_) => false,
        };
    (toks, rt)
}

pub fn run_case(v: &Value) -> Value {
    let mut res = Map::new();
    res.insert("id".into(), v.get("id").cloned().unwrap_or(Value::Null));
    if let Some(s) = v.get("tokenize").and_then(|x| x.as_str()) {
        res.insert("tok".into(), Value::Array(tokenize(s)));
        return Value::Object(res);
    }
    if let Some(s) = v.get("nth").and_then(|x| x.as_str()) {
        let mut input = ParserInput::new(s);
        let mut p = Parser::new(&mut input);
        let r = cssparser::parse_nth(&mut p);
        res.insert(
            "nth".into(),
            match r {
                Ok((a, b)) => json!([a, b]),
                Err(_) => Value::Null,
            },
        );
        return Value::Object(res);
    }
    if let Some(s) = v.get("urange").and_then(|x| x.as_str()) {
        let mut input = ParserInput::new(s);
        let mut p = Parser::new(&mut input);
        let r = cssparser::UnicodeRange::parse(&mut p);
        res.insert(
            "urange".into(),
            match r {
                Ok(u) => json!([u.start, u.end]),
                Err(_) => Value::Null,
            },
        );
        return Value::Object(res);
    }
    let src = v.get("src").and_then(|x| x.as_str()).unwrap_or("");
    let path = v.get("path").and_then(|x| x.as_str()).unwrap_or("a.wxss");
    let o = v.get("opts").cloned().unwrap_or(json!({}));
    let opts = sc::StyleSheetOptions {
        class_prefix: opt_str(&o, "class_prefix"),
        class_prefix_sign: opt_str(&o, "class_prefix_sign"),
        rpx_ratio: o.get("rpx_ratio").and_then(|x| x.as_f64()).unwrap_or(750.) as f32,
        import_sign: opt_str(&o, "import_sign"),
        convert_host: o.get("convert_host").and_then(|x| x.as_bool()).unwrap_or(false),
        host_is: opt_str(&o, "host_is"),
    };
    let want_tok = v.get("tok").and_then(|x| x.as_bool()).unwrap_or(true);
    let r = catch_unwind(AssertUnwindSafe(|| {
        let mut t = sc::StyleSheetTransformer::from_css(path, src, opts);
        let warns: Vec<Value> = t
            .take_warnings()
            .iter()
            .map(|w| {
                json!([
                    w.code(),
                    w.level() as u8,
                    w.location.start.line,
                    w.location.start.utf16_col,
                    w.location.end.line,
                    w.location.end.utf16_col
                ])
            })
            .collect();
        let (n, l) = t.output_and_low_priority_output();
        let mut ns = String::new();
        n.write_str(&mut ns).unwrap();
        let mut ls = String::new();
        l.write_str(&mut ls).unwrap();
        let (nmap, nrt) = map6(n.extract_source_map());
        let (lmap, lrt) = map6(l.extract_source_map());
        (warns, ns, ls, nmap, lmap, nrt && lrt)
    }));
    match r {
        Ok((warns, ns, ls, nmap, lmap, rt)) => {
            if want_tok {
                res.insert("itok".into(), Value::Array(tokenize(src)));
                res.insert("ntok".into(), Value::Array(tokenize(&ns)));
                res.insert("ltok".into(), Value::Array(tokenize(&ls)));
            }
            res.insert("warn".into(), Value::Array(warns));
            res.insert("normal".into(), json!(ns));
            res.insert("low".into(), json!(ls));
            res.insert("nmap".into(), Value::Array(nmap));
            res.insert("lmap".into(), Value::Array(lmap));
            res.insert("map_rt".into(), json!(rt));
            res.insert("panic".into(), Value::Array(vec![]));
        }
        Err(e) => {
            let loc = crate::LAST_PANIC_LOC.with(|l| l.borrow().clone());
            res.insert(
                "panic".into(),
                json!([{"phase": "css", "msg": crate::panic_msg(e), "loc": loc}]),
            );
        }
    }
    Value::Object(res)
}
