//! `vh` — conformance harness binding the TLA+ specification to the real compilers.
//!
//! Sub-commands read newline-delimited JSON cases on stdin and write one JSON result per line.
//!   vh tmpl    template groups  -> diagnostics, artefacts, stringify, AST projection, cursor trace
//!   vh css     stylesheets      -> outputs, re-tokenised outputs, warnings, source maps
//!   vh total   one text through every entry point of both compilers (C01), sizes and timings only
//!   vh tables  pure functions   -> identifier table, escape table, path resolution table
//!
//! Panics in the code under test are caught and reported as data (`"panic": "<msg>"`).

mod ast;
mod css;
mod tables;
mod tmpl;
mod total;

use std::io::{BufRead, Write};

pub fn panic_msg(e: Box<dyn std::any::Any + Send>) -> String {
    if let Some(s) = e.downcast_ref::<&str>() {
        s.to_string()
    } else if let Some(s) = e.downcast_ref::<String>() {
        s.clone()
    } else {
        "<non-string panic>".to_string()
    }
}

thread_local! {
    pub static LAST_PANIC_LOC: std::cell::RefCell<String> = std::cell::RefCell::new(String::new());
}

fn main() {
    std::panic::set_hook(Box::new(|info| {
        let loc = info
            .location()
            .map(|l| format!("{}:{}", l.file(), l.line()))
            .unwrap_or_default();
        LAST_PANIC_LOC.with(|l| *l.borrow_mut() = loc);
    }));
    let args: Vec<String> = std::env::args().collect();
    let cmd = args.get(1).map(|s| s.as_str()).unwrap_or("");
    let stdin = std::io::stdin();
    let stdout = std::io::stdout();
    let mut out = std::io::BufWriter::with_capacity(1 << 20, stdout.lock());
    // `--announce`: print the case id on stderr before starting it (for the C01 supervisor)
    let announce = args.iter().any(|a| a == "--announce");
    match cmd {
        "tmpl" | "css" | "total" => {
            for line in stdin.lock().lines() {
                let line = line.expect("stdin");
                if line.trim().is_empty() {
                    continue;
                }
                let v: serde_json::Value = match serde_json::from_str(&line) {
                    Ok(v) => v,
                    Err(e) => {
                        eprintln!("vh: bad json: {}", e);
                        std::process::exit(2);
                    }
                };
                if announce {
                    let id = v.get("id").cloned().unwrap_or(serde_json::Value::Null);
                    writeln!(out, "{}", serde_json::json!({"start": id})).unwrap();
                    out.flush().unwrap();
                }
                let r = match cmd {
                    "tmpl" => tmpl::run_case(&v),
                    "total" => total::run_case(&v),
                    _ => css::run_case(&v),
                };
                serde_json::to_writer(&mut out, &r).unwrap();
                out.write_all(b"\n").unwrap();
                if announce {
                    out.flush().unwrap();
                }
            }
        }
        "tables" => tables::run(&args[2..], &mut out),
        _ => {
            eprintln!("usage: vh tmpl|css|tables ...");
            std::process::exit(2);
        }
    }
    out.flush().unwrap();
}
