'use strict'
// Cross-check of spec/Literals.tla's classification against node's own lexer.
// stdin: one JSON line {cases: [{fam, text, valid, kind}]}; stdout: {checked, disagreements: [...]}
const readline = require('readline')
function parses(src, strict) {
  try {
    // eslint-disable-next-line no-new-func
    const f = new Function((strict ? "'use strict';" : '') + 'return (' + src + ')')
    return { ok: true, f }
  } catch (e) { return { ok: false } }
}
const rl = readline.createInterface({ input: process.stdin, crlfDelay: Infinity })
rl.on('line', (line) => {
  if (!line.trim()) return
  const job = JSON.parse(line)
  const out = { checked: 0, disagreements: [] }
  for (const c of job.cases) {
    out.checked += 1
    const sloppy = parses(c.text, false)
    const strict = parses(c.text, true)
    let bad = null
    if (c.fam === 'num' || c.fam === 'big') {
      if (c.fam === 'big') continue
      if (c.valid) {
        if (!sloppy.ok || typeof sloppy.f() !== 'number') bad = 'spec says numeric literal, node disagrees'
      } else if (sloppy.ok && !/[-+]/.test(/^0[xXoObB]/.test(c.text) ? c.text : c.text.replace(/[eE][-+]/g, 'e')) && !/\.\.|\.[a-z]|[0-9a-f][.][a-z]/.test(c.text)) {
        // (a sign makes the text an expression - `0xe-1` is 14 - 1 - unless it follows the exponent mark of a decimal literal)
        bad = 'spec says not a literal, node parses it'
      }
    } else if (c.valid) {
      if (!sloppy.ok || !strict.ok || typeof sloppy.f() !== 'string') bad = 'spec says string literal, node disagrees'
    } else if (c.kind === 'LEG') {
      if (strict.ok) bad = 'spec says legacy escape (sloppy only), node disagrees'
    } else if (sloppy.ok && typeof sloppy.f() === 'string' && !/'.*'.*'/.test(c.text)) {
      bad = 'spec says not a literal, node parses it as a string'
    }
    if (bad && out.disagreements.length < 20) out.disagreements.push({ text: c.text, kind: c.kind, what: bad })
  }
  process.stdout.write(JSON.stringify(out) + '\n')
})
