'use strict'
// C12: the string that reaches the runtime at each embedding site.
// stdin: one JSON per line {bundle, cases: [{id, path, site, expect, data}]}; stdout {results: [{id, ok, got}]}
const readline = require('readline')
const { ProcGenWrapper } = require('./refrt.js')

function firstElem(node) {
  for (const c of node.childNodes || []) {
    if (c.type === 'elem') return c
    if (c.type === 'virt') { const r = firstElem(c); if (r) return r }
  }
  return null
}
function firstOf(node, pred) {
  for (const c of node.childNodes || []) {
    if (pred(c)) return c
    if (c.childNodes) { const r = firstOf(c, pred); if (r) return r }
  }
  return null
}
function texts(node, out) {
  for (const c of node.childNodes || []) {
    if (c.type === 'text') out.push(c.textContent)
    else texts(c, out)
  }
  return out
}
function extract(w, site) {
  const root = w.shadowRoot
  const el = firstElem(root)
  switch (site) {
    case 'static-text': case 'string-literal': case 'template-name': case 'include-path': case 'template-path':
      return texts(root, []).join('')
    case 'attr-value': return el.attrs.r.a
    case 'class-value': return el.attrs.c
    case 'style-value': return el.attrs.y
    case 'id-value': return el.attrs.i
    case 'event-value': return Object.values(el.attrs.v)[0].v
    case 'tag-name': return el.name
    case 'attr-name': return Object.keys(el.attrs.r)[0]
    case 'event-name': return Object.values(el.attrs.v)[0].name
    case 'mark-name': return Object.keys(el.attrs.m)[0]
    case 'mark-value': return Object.values(el.attrs.m)[0]
    case 'data-name': return Object.keys(el.attrs.d)[0]
    case 'data-value': return Object.values(el.attrs.d)[0]
    case 'model-name': return Object.keys(el.attrs.r)[0]
    case 'change-name': return Object.keys(el.attrs.p)[0]
    case 'worklet-name': return Object.keys(el.attrs.wl)[0]
    case 'slot-attr': return el.slot
    case 'slot-name': return firstOf(root, (c) => c.type === 'virt' && c.name === 'slot').slotName
    case 'generic-value': return Object.values(el.generics)[0]
    case 'generic-name': return Object.keys(el.generics)[0]
    case 'extra-attr-value': return Object.values(el.attrs.a)[0]
    case 'wx-key': return firstOf(root, (c) => c.type === 'virt' && c.name === 'wx:for')._$wxTmplArgs.keyList.keyName
    case 'object-key': return Object.keys(el.attrs.r.a)[0]
    case 'member-name': return el.attrs.r.a
    case 'module-member': return el.attrs.r.a
    default: throw new Error('unknown site ' + site)
  }
}
const rl = readline.createInterface({ input: process.stdin, crlfDelay: Infinity })
rl.on('line', (line) => {
  if (!line.trim()) return
  const job = JSON.parse(line)
  const out = { results: [], errors: [] }
  let G
  try {
    // eslint-disable-next-line no-new-func
    G = new Function('return ' + job.bundle)()
  } catch (e) {
    out.errors.push(String(e))
    process.stdout.write(JSON.stringify(out) + '\n')
    return
  }
  for (const c of job.cases) {
    try {
      const w = new ProcGenWrapper(G[c.path](''))
      w.create(c.data || {})
      const got = extract(w, c.site)
      out.results.push({ id: c.id, ok: got === c.expect, got: typeof got === 'string' ? got : String(got) })
    } catch (e) {
      out.results.push({ id: c.id, ok: false, got: 'threw ' + String(e) })
    }
  }
  process.stdout.write(JSON.stringify(out) + '\n')
})
