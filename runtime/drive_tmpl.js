'use strict'
// Replays behaviours of spec/WxmlSem.tla / Instance.tla into the generated JavaScript.
// stdin: one JSON job per line
//   {bundle, fns: {id: source}, cases: [{id, path, data, tree, steps: [...], check: {...}}]}
// step: {op: "update", data, u, tree} | {op: "bm", field, data, tree}
// For every case: create under the reference runtime, project, compare with the spec's tree; after
// every step compare again, and also with a fresh creation from the step's data (second oracle).
const readline = require('readline')
const { ProcGenWrapper, toPathTree, projectRoot } = require('./refrt.js')

const unCache = new Map()
const binCache = new Map()
function unOp(o) {
  let f = unCache.get(o)
  // eslint-disable-next-line no-new-func
  if (!f) { f = new Function('x', `return ${o} x`); unCache.set(o, f) }
  return f
}
function binOp(o) {
  let f = binCache.get(o)
  // eslint-disable-next-line no-new-func
  if (!f) { f = new Function('x', 'y', `return x ${o} y`); binCache.set(o, f) }
  return f
}

let FNS = {}

function toJS(v) {
  switch (v.k) {
    case 'undef': return undefined
    case 'null': return null
    case 'bool': return v.b
    case 'int': return v.i
    case 'str': return v.s
    case 'arr': {
      const out = []
      for (const x of v.xs) {
        if (x.k === 'hole') out.length += 1
        else out.push(toJS(x))
      }
      return out
    }
    case 'obj': {
      const o = {}
      for (const [k, x] of v.kv) o[k] = toJS(x)
      return o
    }
    case 'fn': return FNS[v.id]
    case 'hole': return undefined
    case 'app': {
      const as = v.as.map(toJS)
      // eslint-disable-next-line no-new-func
      if (v.o === 'lit') return new Function('return (' + as[0] + ')')()
      if (v.o === 'spread') {
        // spreading a non-array: JavaScript throws for non-iterables, so the expression has no
        // reference value under this data (C03 owns the string case); the comparison is skipped
        const e = new Error('NOREF')
        e.noref = true
        throw e
      }
      if (v.o === 'call') return (0, as[0])(...as.slice(1))
      if (v.o === 'strcat') return as.map((x, i) => (v.as[i].k === 'str' ? x : (x === null || x === undefined ? '' : String(x)))).join('')
      if (v.as.length === 1) return unOp(v.o)(as[0])
      return binOp(v.o)(as[0], as[1])
    }
    default: throw new Error('toJS: unknown value kind ' + v.k)
  }
}

const Y = (a) => (a === null || a === undefined ? '' : String(a))

function piecesToString(ps) {
  return ps.map((p) => (p.t === 's' ? p.s : Y(toJS(p.v)))).join('')
}

function rv(v) { return v.t === 'raw' ? toJS(v.v) : piecesToString(v.ps) }

// spec tree -> canonical comparable form
function canonSpec(nodes) {
  return nodes.filter((n) => n.t !== 'formark').map((n) => {
    if (n.t === 'text') return { t: 'text', v: piecesToString(n.ps) }
    const o = { t: n.t }
    if (n.t === 'elem') o.tag = n.tag
    if (n.t === 'slot') o.name = Y(rv(n.name))
    if (n.t === 'block') o.slot = Y(rv(n.slot))
    else if (n.slot && n.slot.t !== 'absent') o.slot = Y(rv(n.slot))   // E / S / J all receive Y(value)
    if (n.at) {
      for (const a of n.at) {
        const val = rv(a.v)
        if (a.ch === 'c' || a.ch === 'y' || a.ch === 'i') o[a.ch] = val
        else {
          o[a.ch] = o[a.ch] || {}
          if (a.ch === 'v') o.v[a.n] = MERGE ? { v: val } : { v: val, dyn: !!a.dyn }
          else o[a.ch][a.n] = val
        }
      }
    }
    // dev mode: the names of the attributes the template writes on the node (empty lists are not announced)
    if (DEV && n.dev && n.dev.length && (n.t === 'elem' || n.t === 'slot')) o.dev = n.dev.join(' ')
    if (n.ch) o.ch = canonSpec(n.ch)
    return o
  })
}

// runtime projection -> canonical comparable form
function canonActual(nodes) {
  return nodes.map((n) => {
    if (n.t === 'text') return { t: 'text', v: n.v }
    const o = { t: n.t }
    if (n.t === 'elem') o.tag = n.tag
    if (n.t === 'slot') o.name = n.name
    if (n.slot !== undefined) o.slot = Y(n.slot)
    const a = n.at
    if (a) {
      for (const ch of ['r', 'd', 'm', 'wl', 'a']) if (a[ch]) o[ch] = a[ch]
      for (const ch of ['c', 'y', 'i']) if (a[ch] !== undefined) o[ch] = a[ch]
      // (C14 compares modulo the isDynamic flag: `bind:x="{{ 'h' }}"` is printed as `bind:x="h"`)
      if (a.v) { o.v = {}; for (const k of Object.keys(a.v)) o.v[k] = MERGE ? { v: a.v[k].v } : { v: a.v[k].v, dyn: a.v[k].dyn } }
      if (a.p) { o.p = {}; for (const k of Object.keys(a.p)) o.p[k] = a.p[k].v }
      if (a.l) { o.l = {}; for (const k of Object.keys(a.l)) o.l[k] = a.l[k].v }
    }
    if (n.generics) o.g = n.generics
    if (DEV && n.dev && n.dev.length) o.dev = n.dev.join(' ')
    if (n.ch) o.ch = canonActual(n.ch)
    return o
  })
}

function desc(v, depth) {
  depth = depth || 0
  if (v === undefined) return 'undefined'
  if (v === null) return 'null'
  if (typeof v === 'number') return Object.is(v, -0) ? '-0' : String(v)
  if (typeof v === 'string') return JSON.stringify(v)
  if (typeof v === 'function') return 'fn'
  if (typeof v === 'boolean') return String(v)
  if (depth > 5) return '...'
  if (Array.isArray(v)) {
    const parts = []
    for (let i = 0; i < v.length; i += 1) parts.push(i in v ? desc(v[i], depth + 1) : '<hole>')
    return '[' + parts.join(',') + ']'
  }
  return '{' + Object.keys(v).map((k) => k + ':' + desc(v[k], depth + 1)).join(',') + '}'
}

// adjacent text nodes as one (C14: the printer drops comments, so the texts they separated merge)
function mergeTexts(nodes) {
  const out = []
  for (const n of nodes) {
    const m = n.ch ? Object.assign({}, n, { ch: mergeTexts(n.ch) }) : n
    const last = out[out.length - 1]
    if (m.t === 'text' && m.v === '') continue       // an empty text node renders nothing
    if (m.t === 'text' && last && last.t === 'text') out[out.length - 1] = { t: 'text', v: last.v + m.v }
    else out.push(m)
  }
  return out
}
let MERGE = false
let DEV = false

// first difference between two canonical trees, or null
function diff(a, b, path) {
  if (Object.is(a, b)) return null
  if (typeof a === 'function' && typeof b === 'function') {
    return String(a).replace(/\s+/g, '') === String(b).replace(/\s+/g, '') ? null : { path, want: 'fn', got: 'other fn' }
  }
  if (typeof a !== typeof b || a === null || b === null || typeof a !== 'object') return { path, want: desc(a), got: desc(b) }
  if (Array.isArray(a) !== Array.isArray(b)) return { path, want: desc(a), got: desc(b) }
  if (Array.isArray(a)) {
    if (a.length !== b.length) return { path: path + '.length', want: desc(a), got: desc(b) }
    for (let i = 0; i < a.length; i += 1) {
      if ((i in a) !== (i in b)) return { path: path + '[' + i + ']', want: i in a ? desc(a[i]) : '<hole>', got: i in b ? desc(b[i]) : '<hole>' }
      const d = diff(a[i], b[i], path + '[' + i + ']')
      if (d) return d
    }
    return null
  }
  const ka = Object.keys(a).filter((k) => a[k] !== undefined || k === 'v')
  const kb = Object.keys(b).filter((k) => b[k] !== undefined || k === 'v')
  const sa = ka.slice().sort()
  const sb = kb.slice().sort()
  if (sa.join('\u0000') !== sb.join('\u0000')) return { path: path + '{keys}', want: sa.join(','), got: sb.join(',') }
  // key order matters for plain data objects (wx:for over objects), not for channel maps
  for (const k of sa) {
    const d = diff(a[k], b[k], path + '.' + k)
    if (d) return d
  }
  return null
}


// ---- l-value paths (C11) ------------------------------------------------------------------
function collectSpec(nodes, out) {
  for (const n of nodes) {
    if (n.t === 'formark') out.push({ site: 'for', lp: n.lp })
    else if (n.t === 'elem' || n.t === 'slot') {
      out.push({ site: 'el', at: n.at || [] })
      if (n.ch) collectSpec(n.ch, out)
    } else if (n.ch) collectSpec(n.ch, out)
  }
  return out
}

function collectActual(node, out) {
  for (const c of node.childNodes || []) {
    if (c.type === 'text') continue
    if (c.type === 'virt' && c.name === 'wx:for') {
      out.push({ site: 'for', path: (c._$wxTmplArgs || {}).forLvaluePath })
      collectActual(c, out)
    } else if (c.type === 'elem' || (c.type === 'virt' && c.name === 'slot')) {
      out.push({ site: 'el', node: c })
      collectActual(c, out)
    } else {
      collectActual(c, out)
    }
  }
  return out
}

function sitePaths(a) {
  if (a.site === 'for') return { for: a.path === undefined ? null : a.path }
  const at = a.node.attrs || {}
  const o = {}
  for (const ch of ['model', 'gp']) if (at[ch]) for (const k of Object.keys(at[ch])) o[ch + ':' + k] = at[ch][k] === undefined ? null : at[ch][k]
  for (const ch of ['v', 'p', 'l']) if (at[ch]) for (const k of Object.keys(at[ch])) o[ch + ':' + k] = (at[ch][k] || {}).path === undefined ? null : at[ch][k].path
  return o
}

function pathDiff(A, F) {
  if (A.length !== F.length) return null        // structure differs: reported by the tree comparison
  for (let i = 0; i < A.length; i += 1) {
    if (A[i].site !== F[i].site) return null
    const x = sitePaths(A[i])
    const y = sitePaths(F[i])
    for (const k of new Set(Object.keys(x).concat(Object.keys(y)))) {
      const a = JSON.stringify(x[k] === undefined ? null : x[k])
      const f = JSON.stringify(y[k] === undefined ? null : y[k])
      if (a !== f) return { path: 'site ' + i + ' ' + k, want: f, got: a }
    }
  }
  return null
}

function lpKeys(lp) { return lp.keys.map(toJS) }
function lpGeneral(lp) {
  if (lp.root === 'data') return [0].concat(lpKeys(lp))
  if (lp.root === 'script') return [1, lp.abs].concat(lpKeys(lp))
  return [2, lp.path, lp.mod].concat(lpKeys(lp))
}
function stripPre(p, pre) {
  if (!Array.isArray(p)) return p
  // (the files of a case live under a directory of their own: a script or template path that does not start with it was
  // not resolved against the referring file and names something else)
  return p.map((x, i) => (i === 1 && (p[0] === 1 || p[0] === 2) && typeof x === 'string'
    ? (x.startsWith(pre) ? x.slice(pre.length) : '(outside ' + pre + ') ' + x) : x))
}
function eqPath(a, b) {
  if (!Array.isArray(a) || !Array.isArray(b) || a.length !== b.length) return false
  for (let i = 0; i < a.length; i += 1) if (!Object.is(a[i], b[i])) return false
  return true
}
function cloneData(v) {
  if (Array.isArray(v)) return v.map(cloneData)
  if (v && typeof v === 'object') { const o = {}; for (const k of Object.keys(v)) o[k] = cloneData(v[k]); return o }
  return v
}
function setAt(d, path, w) {
  let cur = d
  for (let i = 0; i < path.length - 1; i += 1) {
    if (cur === null || typeof cur !== 'object' || !(path[i] in cur)) return false
    cur = cur[path[i]]
  }
  if (cur === null || typeof cur !== 'object') return false
  cur[path[path.length - 1]] = w
  return true
}

function checkPaths(res, c, w, procGen, data) {
  const S = collectSpec(c.tree, [])
  const A = collectActual(w.shadowRoot, [])
  res.pathSites = 0
  res.pathsGiven = 0
  if (S.length !== A.length) {
    res.problems.push({ step: -1, what: 'tool: path sites do not line up', msg: S.length + ' vs ' + A.length })
    res.ok = false
    return
  }
  const SENT = { sentinel: true }
  for (let i = 0; i < S.length; i += 1) {
    const s = S[i]
    const a = A[i]
    if (s.site !== a.site) { res.problems.push({ step: -1, what: 'tool: path sites do not line up', msg: 'kind at ' + i }); res.ok = false; return }
    const judge = (obs, lp, conv, what) => {
      res.pathSites += 1
      if (obs === undefined || obs === null) return
      res.pathsGiven += 1
      const o = stripPre(obs, c.pre || '')
      if (!lp || !lp.ok) {
        res.ok = false
        res.problems.push({ step: -1, what: 'l-value path given to a non-assignable expression', diff: { path: what, want: 'none', got: JSON.stringify(o) } })
        return
      }
      const want = conv === 'model' ? (lp.root === 'data' ? lpKeys(lp) : null) : lpGeneral(lp)
      if (want === null || !eqPath(o, want)) {
        res.ok = false
        res.problems.push({ step: -1, what: 'l-value path differs from the location the expression reads', diff: { path: what, want: JSON.stringify(want), got: JSON.stringify(o) } })
      }
    }
    if (s.site === 'for') { judge(a.path, s.lp, 'general', 'wx:for list'); continue }
    const at = a.node.attrs
    for (const e of s.at) {
      if (!('lp' in e)) continue
      if (e.ch === 'r') {
        judge(at.model[e.n], e.lp, 'model', 'model path of ' + e.n)
        judge(at.gp[e.n], e.lp, 'general', 'general path of ' + e.n)
        // get-put on the real code: write a sentinel at the observed model path, re-create, read
        const mp = at.model[e.n]
        if (Array.isArray(mp)) {
          const d2 = cloneData(data)
          if (setAt(d2, mp, SENT)) {
            try {
              const w3 = new ProcGenWrapper(procGen)
              w3.create(d2)
              const A3 = collectActual(w3.shadowRoot, [])
              // the sentinel may change the structure around the site (e.g. it replaces the list of an
              // inner loop); then the sites no longer correspond and nothing can be concluded
              if (A3.length !== A.length) continue
              const got = A3[i] && A3[i].node ? A3[i].node.attrs.r[e.n] : undefined
              res.getput = (res.getput || 0) + 1
              if (got !== SENT) {
                res.ok = false
                res.problems.push({ step: -1, what: 'get-put fails: writing at the emitted model path does not change what the expression reads',
                  diff: { path: e.n, want: 'sentinel', got: desc(got) } })
              }
            } catch (err) { res.problems.push({ step: -1, what: 'get-put creation threw', msg: String(err) }); res.ok = false }
          }
        }
      } else if (e.ch === 'v') judge((at.v[e.n] || {}).path, e.lp, 'general', 'event ' + e.n)
      else if (e.ch === 'p') judge((at.p[e.n] || {}).path, e.lp, 'general', 'change ' + e.n)
      else if (e.ch === 'l') judge((at.l[e.n] || {}).path, e.lp, 'general', 'slot value ' + e.n)
    }
  }
}

function runCase(G, c) {
  const res = { id: c.id, ok: true, problems: [] }
  MERGE = !!c.mergeText
  DEV = !!c.dev
  let procGen
  try {
    const group = G[c.path]
    if (typeof group !== 'function') throw new Error('no group for ' + c.path)
    procGen = group(c.tmpl || '')
  } catch (e) {
    res.ok = false
    res.problems.push({ step: -1, what: 'no generator', msg: String(e) })
    return res
  }
  const opts = {}
  let w
  let B
  const check = (step, wrapper, specTree, data) => {
    let actual
    try { actual = canonActual(projectRoot(wrapper)); if (MERGE) actual = mergeTexts(actual) } catch (e) {
      res.ok = false
      res.problems.push({ step, what: 'projection failed', msg: String(e && e.stack || e) })
      return
    }
    if (specTree !== undefined && specTree !== null) {
      let want
      let noref = false
      try { want = canonSpec(specTree); if (MERGE) want = mergeTexts(want) } catch (e) {
        if (e && e.noref) { noref = true; res.noref = (res.noref || 0) + 1; specTree = null } else {
          res.problems.push({ step, what: 'tool: spec tree conversion failed', msg: String(e && e.stack || e) })
          res.ok = false
          return
        }
      }
      if (!noref) {
        const d = diff(want, actual, '$')
        if (d) { res.ok = false; res.problems.push({ step, what: 'tree differs from the specification', diff: d }) }
      }
    }
    if (step >= 0 && data !== undefined) {
      // second oracle: a fresh creation with the same data
      try {
        const w2 = new ProcGenWrapper(procGen, opts)
        w2.create(data)
        let fresh = canonActual(projectRoot(w2))
        if (MERGE) fresh = mergeTexts(fresh)
        const d2 = diff(fresh, actual, '$')
        if (d2) { res.ok = false; res.problems.push({ step, what: 'tree differs from a fresh creation', diff: d2 }) }
        else {
          // the l-value paths the instance holds are part of its state: they too must be those of a fresh creation
          const pd = pathDiff(collectActual(wrapper.shadowRoot, []), collectActual(w2.shadowRoot, []))
          if (pd) { res.ok = false; res.problems.push({ step, what: 'l-value paths differ from a fresh creation', diff: pd }) }
        }
        if (specTree !== undefined && specTree !== null) {
          const d3 = diff(MERGE ? mergeTexts(canonSpec(specTree)) : canonSpec(specTree), fresh, '$')
          if (d3) res.problems.push({ step, what: 'ORACLES-DISAGREE: fresh creation differs from the specification', diff: d3 })
        }
      } catch (e) {
        res.problems.push({ step, what: 'fresh creation threw', msg: String(e) })
        res.ok = false
      }
    }
  }
  let data
  try {
    data = toJS(c.data)
    w = new ProcGenWrapper(procGen, opts)
    B = w.create(data)
  } catch (e) {
    res.ok = false
    res.problems.push({ step: -1, what: 'creation threw', msg: String(e && e.stack || e) })
    return res
  }
  // the fields the map advertises, as the runtime asks (`map[field]`): own keys, and whatever else answers
  res.bkeys = B ? Object.keys(B).concat(Object.keys(data || {}).filter((k) => !Object.prototype.hasOwnProperty.call(B, k) && B[k])) : []
  res.bmDisabled = w.bindingMapDisabled
  check(-1, w, c.tree, undefined)
  if (c.paths && res.ok) {
    try { checkPaths(res, c, w, procGen, data) } catch (e) {
      res.ok = false
      res.problems.push({ step: -1, what: 'tool: path check threw', msg: String(e && e.stack || e) })
    }
  }
  const steps = c.steps || []
  for (let i = 0; i < steps.length; i += 1) {
    const s = steps[i]
    try {
      data = toJS(s.data)
      w.log = []
      if (s.op === 'update') {
        w.update(data, s.u === true ? true : toPathTree(s.u))
      } else if (s.op === 'bm') {
        // (advertised = what the runtime's own test sees: `const updaters = map[field]; if (!updaters) return false`)
        if (w.bindingMapDisabled || !B || !B[s.field]) {
          // not advertised: the runtime falls back to the tree update; nothing is demanded here, and the
          // rest of this history no longer applies to the instance
          res.bmSkipped = (res.bmSkipped || 0) + 1
          break
        }
        res.bmApplied = (res.bmApplied || 0) + 1
        w.bindingMapUpdate(s.field, data, B)
      }
    } catch (e) {
      res.ok = false
      res.problems.push({ step: i, what: s.op + ' threw', msg: String(e && e.stack || e) })
      break
    }
    check(i, w, s.tree, data)
    if (c.paths && res.ok) {
      // the paths handed to the runtime by this step (tree update or binding-map updaters) must again be the
      // locations the expressions read under the NEW data
      try {
        const r2 = { ok: true, problems: [] }
        checkPaths(r2, { tree: s.tree, pre: c.pre }, w, procGen, data)
        for (const p of r2.problems) {
          if (p.what.startsWith('tool:')) continue
          res.ok = false
          res.problems.push(Object.assign({}, p, { step: i, what: p.what + ' (after ' + s.op + ')' }))
        }
        res.pathsGiven = (res.pathsGiven || 0) + (r2.pathsGiven || 0)
      } catch (e) {
        res.problems.push({ step: i, what: 'tool: path check threw', msg: String(e && e.stack || e) })
      }
    }
  }
  return res
}


// ---- pair mode (C14): two templates must behave identically on the same data ------------------
function runPair(G, c) {
  const res = { id: c.id, ok: true, problems: [], pair: true }
  MERGE = true
  const gens = []
  for (const p of c.pair) {
    try {
      const group = G[p]
      if (typeof group !== 'function') throw new Error('no group for ' + p)
      gens.push(group(''))
    } catch (e) {
      res.problems.push({ step: -1, what: 'tool: no generator', msg: String(e) })
      res.ok = false
      return res
    }
  }
  const ws = []
  const trees = []
  for (let k = 0; k < 2; k += 1) {
    try {
      const w = new ProcGenWrapper(gens[k])
      w.create(c.datas[0])
      ws.push(w)
      trees.push(mergeTexts(canonActual(projectRoot(w))))
    } catch (e) {
      ws.push(null)
      trees.push({ threw: e && e.constructor ? e.constructor.name : 'Error' })
    }
  }
  let d = diff(trees[0], trees[1], '$')
  if (d) { res.ok = false; res.problems.push({ step: -1, what: 're-printed template renders differently', diff: d, data: 0 }) }
  if (!ws[0] || !ws[1]) return res
  for (let i = 1; i < c.datas.length; i += 1) {
    const t2 = []
    for (let k = 0; k < 2; k += 1) {
      try { ws[k].update(c.datas[i], true); t2.push(mergeTexts(canonActual(projectRoot(ws[k])))) } catch (e) { t2.push({ threw: e && e.constructor ? e.constructor.name : 'Error' }) }
    }
    d = diff(t2[0], t2[1], '$')
    if (d) { res.ok = false; res.problems.push({ step: i - 1, what: 're-printed template updates differently', diff: d, data: i }); break }
  }
  return res
}

const rl = readline.createInterface({ input: process.stdin, crlfDelay: Infinity })
rl.on('line', (line) => {
  if (!line.trim()) return
  const job = JSON.parse(line)
  const out = { results: [], errors: [] }
  FNS = {}
  for (const id of Object.keys(job.fns || {})) {
    // eslint-disable-next-line no-new-func
    FNS[id] = new Function('return (' + job.fns[id] + ')')()
  }
  let G
  try {
    // eslint-disable-next-line no-new-func
    G = new Function('return ' + job.bundle)()
  } catch (e) {
    out.errors.push({ what: 'bundle does not evaluate', msg: String(e) })
    process.stdout.write(JSON.stringify(out) + '\n')
    return
  }
  for (const c of job.cases) out.results.push(c.pair ? runPair(G, c) : runCase(G, c))
  process.stdout.write(JSON.stringify(out) + '\n')
})
