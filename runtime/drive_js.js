'use strict'
// C02 driver: every artefact must parse as JavaScript, sloppy and strict.
// stdin: one JSON per line {id, arts: {name: source}}; stdout {id, failures: [{name, mode, msg}]}
const readline = require('readline')
const vm = require('vm')
const rl = readline.createInterface({ input: process.stdin, crlfDelay: Infinity })
rl.on('line', (line) => {
  if (!line.trim()) return
  const job = JSON.parse(line)
  const failures = []
  let n = 0
  for (const name of Object.keys(job.arts)) {
    const src = job.arts[name]
    if (typeof src !== 'string') continue
    for (const mode of ['sloppy', 'strict']) {
      n += 1
      try {
        // eslint-disable-next-line no-new
        new vm.Script(mode === 'strict' ? "'use strict';\n" + src : src)
      } catch (e) {
        failures.push({ name, mode, msg: String(e).slice(0, 200) })
      }
    }
  }
  process.stdout.write(JSON.stringify({ id: job.id, parsed: n, failures }) + '\n')
})
