'use strict'
// Reference evaluation of a WxmlExpr tree (spec/WxmlExpr.tla): JavaScript's own operator at each
// node (delegated to node: the delta-rule), with the three documented deviations of WXML bindings:
//   * a free identifier denotes the data field / scope variable of that name;
//   * a property read on null/undefined yields undefined;
//   * a call invokes the callee as a plain function (no `this`); a non-function callee yields undefined.

const unCache = new Map()
const binCache = new Map()
const litCache = new Map()

function unOp(o) {
  let f = unCache.get(o)
  if (!f) {
    // eslint-disable-next-line no-new-func
    f = new Function('x', `return ${o} x`)
    unCache.set(o, f)
  }
  return f
}

function binOp(o) {
  let f = binCache.get(o)
  if (!f) {
    // eslint-disable-next-line no-new-func
    f = new Function('x', 'y', `return x ${o} y`)
    binCache.set(o, f)
  }
  return f
}

function lit(v) {
  let f = litCache.get(v)
  if (!f) {
    // sloppy mode on purpose: legacy octal literals are part of the accepted spellings
    // eslint-disable-next-line no-new-func
    f = new Function(`return (${v})`)
    litCache.set(v, f)
  }
  return f()
}

function evalTree(e, env) {
  switch (e.k) {
    case 'id':
      return env(e.n)
    case 'lit':
      return lit(e.v)
    case 'un':
      return unOp(e.o)(evalTree(e.x, env))
    case 'bin': {
      if (e.o === '&&') { const l = evalTree(e.l, env); return l ? evalTree(e.r, env) : l }
      if (e.o === '||') { const l = evalTree(e.l, env); return l ? l : evalTree(e.r, env) }
      if (e.o === '??') { const l = evalTree(e.l, env); return l === null || l === undefined ? evalTree(e.r, env) : l }
      const l = evalTree(e.l, env)
      const r = evalTree(e.r, env)
      return binOp(e.o)(l, r)
    }
    case 'cond':
      return evalTree(e.c, env) ? evalTree(e.a, env) : evalTree(e.b, env)
    case 'mem': {
      const o = evalTree(e.e, env)
      return o === null || o === undefined ? undefined : o[e.n]
    }
    case 'idx': {
      const o = evalTree(e.e, env)
      const i = evalTree(e.i, env)
      return o === null || o === undefined ? undefined : o[i]
    }
    case 'call': {
      const f = evalTree(e.f, env)
      const args = e.as.map((a) => evalTree(a, env))
      return typeof f === 'function' ? (0, f)(...args) : undefined
    }
    case 'arr': {
      const out = []
      for (const x of e.xs) {
        if (x.t === 'hole') out.length += 1
        else if (x.t === 'spread') out.push(...evalTree(x.e, env))
        else out.push(evalTree(x.e, env))
      }
      return out
    }
    case 'obj': {
      let out = {}
      for (const f of e.fs) {
        if (f.t === 'spread') out = { ...out, ...evalTree(f.e, env) }
        else if (f.t === 'short') out[f.n] = env(f.n)
        else out[f.n] = evalTree(f.e, env)
      }
      return out
    }
    default:
      throw new Error('evalref: unknown node ' + e.k)
  }
}

function idsOf(e, acc) {
  acc = acc || new Set()
  if (e === null || typeof e !== 'object') return acc
  if (e.k === 'id') acc.add(e.n)
  if (e.k === 'obj') for (const f of e.fs) if (f.t === 'short') acc.add(f.n)
  for (const key of Object.keys(e)) {
    const v = e[key]
    if (Array.isArray(v)) v.forEach((x) => idsOf(x, acc))
    else if (v && typeof v === 'object') idsOf(v, acc)
  }
  return acc
}

// Object.is-deep equality: distinguishes -0 / +0 and holes, equates NaN, functions by identity
function same(a, b, depth) {
  depth = depth || 0
  if (Object.is(a, b)) return true
  if (typeof a !== typeof b) return false
  if (a === null || b === null || typeof a !== 'object') return false
  if (depth > 8) return true
  if (Array.isArray(a) !== Array.isArray(b)) return false
  if (Array.isArray(a)) {
    if (a.length !== b.length) return false
    for (let i = 0; i < a.length; i += 1) {
      if ((i in a) !== (i in b)) return false
      if (!same(a[i], b[i], depth + 1)) return false
    }
    return true
  }
  const ka = Object.keys(a)
  const kb = Object.keys(b)
  if (ka.length !== kb.length) return false
  for (let i = 0; i < ka.length; i += 1) {
    if (ka[i] !== kb[i]) return false
    if (!same(a[ka[i]], b[kb[i]], depth + 1)) return false
  }
  return true
}

function describe(v, depth) {
  depth = depth || 0
  if (v === undefined) return 'undefined'
  if (v === null) return 'null'
  if (typeof v === 'number') return Object.is(v, -0) ? '-0' : String(v)
  if (typeof v === 'string') return JSON.stringify(v)
  if (typeof v === 'function') return 'fn:' + (v.name || '?')
  if (typeof v === 'boolean') return String(v)
  if (depth > 4) return '...'
  if (Array.isArray(v)) {
    const parts = []
    for (let i = 0; i < v.length; i += 1) parts.push(i in v ? describe(v[i], depth + 1) : '<hole>')
    return '[' + parts.join(',') + ']'
  }
  if (typeof v === 'object') {
    return '{' + Object.keys(v).map((k) => k + ':' + describe(v[k], depth + 1)).join(',') + '}'
  }
  return String(v)
}

module.exports = { evalTree, idsOf, same, describe }
