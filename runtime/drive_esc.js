'use strict'
// C12: evaluate emitted string literals back.  stdin: lines `[cp, succIndex, literal]` (from `vh tables escape`);
// argv[2]: JSON list of successor strings.  Literals are evaluated in batches, in sloppy and strict mode, and
// compared with String.fromCodePoint(cp) + succ.  stdout: one JSON {checked, bad: [...]}
const readline = require('readline')
const vm = require('vm')
const succs = JSON.parse(process.argv[2])
let batch = []
let checked = 0
const bad = []
function flush() {
  if (!batch.length) return
  for (const strict of [false, true]) {
    let vals
    const src = (strict ? "'use strict';" : '') + '[' + batch.map((b) => b[2]).join(',') + ']'
    try {
      vals = vm.runInThisContext(src)
    } catch (e) {
      // find the culprit(s) one by one
      vals = batch.map((b) => {
        try { return vm.runInThisContext((strict ? "'use strict';" : '') + '(' + b[2] + ')') } catch (e2) { return { err: String(e2) } }
      })
    }
    for (let i = 0; i < batch.length; i += 1) {
      const want = String.fromCodePoint(batch[i][0]) + succs[batch[i][1]]
      if (vals[i] !== want && bad.length < 50) {
        bad.push({ cp: batch[i][0], succ: succs[batch[i][1]], lit: batch[i][2], strict, got: typeof vals[i] === 'string' ? Array.from(vals[i]).map((c) => c.codePointAt(0)) : vals[i] })
      }
    }
  }
  checked += batch.length
  batch = []
}
const rl = readline.createInterface({ input: process.stdin, crlfDelay: Infinity })
rl.on('line', (line) => {
  if (!line) return
  batch.push(JSON.parse(line))
  if (batch.length >= 4000) flush()
})
rl.on('close', () => { flush(); process.stdout.write(JSON.stringify({ checked, bad }) + '\n') })
