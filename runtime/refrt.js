'use strict'
// Reference runtime: a plain-JS implementation of the protocol that compiled templates drive
// (`ProcGenWrapper` in glass-easel/src/tmpl/proc_gen_wrapper.ts, `RangeListManager` in
// range_list_diff.ts, the update-path-tree construction of tmpl/index.ts) over a trivial DOM.
// The TypeScript sources cannot be built offline; this is a line-by-line port of the control flow
// with the component machinery replaced by the minimum the protocol needs:
//   * every tag is a native node, except tags starting with `dyn-`, which are dynamic-slot
//     components: they own slots (see `slotConfig`) and receive slot values from their properties;
//   * setters store what they are given (raw values) in per-channel maps.
// Ported from (sha256 recorded by tools/rtsha.py): proc_gen_wrapper.ts, range_list_diff.ts, index.ts.

let NODE_ID = 0

class Node_ {
  constructor(type) {
    this.type = type
    this.id = ++NODE_ID
    this.parentNode = null
    this.parentIndex = -1
    this._$wxTmplArgs = undefined
  }
}

class TextNode extends Node_ {
  constructor(text) {
    super('text')
    this.textContent = text
    this.slotElement = undefined
  }
}

class Element extends Node_ {
  constructor(type, name) {
    super(type) // 'elem' | 'virt'
    this.name = name // tag name or virtual kind
    this.childNodes = []
    this._slot = undefined
    this.inheritSlots = false
    this.slotElement = undefined
    this.slotName = undefined // for <slot>
    this.attrs = null
    this.isComponent = false
    this.shadow = null
    this.slotNodes = undefined // for slot elements of dyn components
  }

  //  stringifies what it is given (element.ts: )
  get slot() { return this._slot }
  set slot(x) { this._slot = String(x) }

  _reindex(from) {
    const c = this.childNodes
    for (let i = from; i < c.length; i += 1) c[i].parentIndex = i
  }

  // port of Element.insertChildSingleOperation (tree part only)
  _single(newChild, oriPosIndex, replace) {
    let posIndex = oriPosIndex
    const relChild = posIndex >= 0 ? this.childNodes[posIndex] : undefined
    let removal
    if (replace) {
      if (!relChild) removal = false
      else if (newChild === relChild) removal = false
      else removal = true
    } else removal = false
    if (!removal && !newChild) return
    if (newChild) {
      const oldParent = newChild.parentNode
      if (oldParent) {
        const oldPosIndex = newChild.parentIndex
        oldParent.childNodes.splice(oldPosIndex, 1)
        oldParent._reindex(oldPosIndex)
        newChild.parentIndex = -1
        if (oldParent === this && oldPosIndex < posIndex) posIndex -= 1
      }
      newChild.parentNode = this
    }
    if (relChild) {
      if (removal) {
        relChild.parentNode = null
        relChild.parentIndex = -1
        if (newChild) this.childNodes[posIndex] = newChild
        else this.childNodes.splice(posIndex, 1)
      } else if (newChild) {
        this.childNodes.splice(posIndex, 0, newChild)
      }
      this._reindex(posIndex)
    } else if (newChild) {
      this.childNodes.push(newChild)
      newChild.parentIndex = this.childNodes.length - 1
    }
  }

  insertChildAt(child, index) { this._single(child, index, false) }
  replaceChildAt(child, index) { this._single(child, index, true) }
  replaceChild(child, relChild) { this._single(child, relChild.parentIndex, true) }

  insertChildren(children, index) {
    for (const c of children) {
      if (c.parentNode) {
        const p = c.parentNode
        p.childNodes.splice(c.parentIndex, 1)
        p._reindex(0)
      }
      c.parentNode = this
    }
    if (index < 0 || index >= this.childNodes.length) {
      const from = this.childNodes.length
      this.childNodes.push(...children)
      this._reindex(from)
    } else {
      this.childNodes.splice(index, 0, ...children)
      this._reindex(index)
    }
  }

  removeChildren(index, count) {
    const removed = this.childNodes.splice(index, count)
    for (const c of removed) {
      c.parentNode = null
      c.parentIndex = -1
    }
    this._reindex(index)
  }
}

const getTmplArgs = (elem) => (elem._$wxTmplArgs = elem._$wxTmplArgs || {})
const getTmplDevArgs = (elem) => (elem._$wxTmplDevArgs = elem._$wxTmplDevArgs || {})

const dataValueToString = (v) => (v === null || v === undefined ? '' : String(v))

const dashToCamelCase = (dash) => dash.replace(/-(.|$)/g, (s) => (s[1] ? s[1].toUpperCase() : ''))

// -------------------------------------------------------------------------------------------
// RangeListManager (port of range_list_diff.ts)

class RangeListManager {
  constructor(keyName, dataList, elem, wrapper, newListItem) {
    this.wrapper = wrapper
    this.elem = elem
    this.keyName = keyName
    this.updateKeys(dataList)
    const items = this.items
    const indexes = this.indexes
    const children = []
    for (let i = 0; i < items.length; i += 1) {
      const item = items[i]
      const index = indexes === null ? i : indexes[i]
      children.push(newListItem(item, index))
    }
    elem.insertChildren(children, -1)
  }

  updateKeys(dataList) {
    let items
    let indexes
    if (Array.isArray(dataList)) {
      items = dataList
      indexes = null
    } else if (typeof dataList === 'object' && dataList !== null) {
      const k = Object.keys(dataList)
      items = new Array(k.length)
      indexes = new Array(k.length)
      for (let i = 0; i < k.length; i += 1) {
        const key = k[i]
        items[i] = dataList[key]
        indexes[i] = key
      }
    } else if (typeof dataList === 'string') {
      this.wrapper.warn('string as for-list')
      items = new Array(dataList.length)
      indexes = null
      for (let i = 0; i < dataList.length; i += 1) items[i] = dataList[i]
    } else if (typeof dataList === 'number') {
      this.wrapper.warn('number as for-list')
      const length = Number.isSafeInteger(dataList) && dataList >= 0 && dataList < 2 ** 32 ? dataList : 0
      items = new Array(length)
      indexes = null
      for (let i = 0; i < length; i += 1) items[i] = i
    } else {
      this.wrapper.warn('for-list is neither Array nor Object')
      items = []
      indexes = null
    }
    this.items = items
    this.indexes = indexes

    const keyName = this.keyName
    const rawKeys = new Array(items.length)
    const keyMap = Object.create(null)
    let sharedKeyMap
    if (keyName !== null) {
      for (let i = 0; i < items.length; i += 1) {
        const item = items[i]
        const rawKeyField = keyName === '*this' ? item : item?.[keyName]
        const rawKey = rawKeyField !== undefined && rawKeyField !== null ? String(rawKeyField) : ''
        rawKeys[i] = rawKey
        if (keyMap[rawKey] !== undefined) {
          if (!sharedKeyMap) sharedKeyMap = Object.create(null)
          sharedKeyMap[rawKey] = [keyMap[rawKey], i]
          delete keyMap[rawKey]
        } else if (sharedKeyMap?.[rawKey]) {
          sharedKeyMap[rawKey].push(i)
        } else {
          keyMap[rawKey] = i
        }
      }
      if (sharedKeyMap) {
        const keys = Object.keys(sharedKeyMap)
        this.wrapper.warn('keys are not unique')
        for (let i = 0; i < keys.length; i += 1) {
          const key = keys[i]
          const its = sharedKeyMap[key]
          let inc = 0
          for (let j = 0; j < its.length; j += 1) {
            const index = its[j]
            while (keyMap[`${key}--${inc}`] !== undefined) inc += 1
            const k = `${key}--${inc}`
            keyMap[k] = index
            rawKeys[index] = k
          }
        }
      }
    }
    this.rawKeys = rawKeys
    this.keyMap = keyMap
    this.sharedKeyMap = sharedKeyMap
  }

  diff(dataList, oriUpdatePathTree, elem, newListItem, updateListItem) {
    const oldRawKeys = this.rawKeys
    const oldKeyMap = this.keyMap
    const oldSharedKeyMap = this.sharedKeyMap
    const oldIndexes = this.indexes
    this.updateKeys(dataList)
    const newRawKeys = this.rawKeys
    const newSharedKeyMap = this.sharedKeyMap
    const items = this.items
    const indexes = this.indexes
    const keyName = this.keyName
    const isSpliceUpdate =
      typeof oriUpdatePathTree === 'object' && oriUpdatePathTree !== null &&
      Array.isArray(Object.getPrototypeOf(oriUpdatePathTree))

    // DELIBERATE DEVIATION from range_list_diff.ts: for a keyed list over an *object* the original
    // indexes the update path tree by position although the tree is keyed by object key, and looks
    // shared keys up by their rewritten names, so marked items are missed.  That is a defect of the
    // TypeScript runtime, outside the compilers under test; here such lists are re-evaluated in full
    // (over-approximation), so that the generated code is judged against a sound runtime.
    if (keyName !== null && indexes !== null && oriUpdatePathTree !== undefined) oriUpdatePathTree = true
    if (keyName !== null && oldIndexes !== null && oriUpdatePathTree !== undefined) oriUpdatePathTree = true
    // Same for a keyed list whose keys are not unique (the runtime warns 'keys are not unique'): the
    // original looks the shared keys up by their rewritten names (`k--0`), so an item that is matched with
    // another element of the same key keeps that element's stale bindings.  Outside the compilers as well.
    if (keyName !== null && (oldSharedKeyMap || newSharedKeyMap) && oriUpdatePathTree !== undefined) oriUpdatePathTree = true
    let allowFastComparison
    let updatePathTree
    if (oriUpdatePathTree === true) {
      updatePathTree = true
      allowFastComparison = keyName === null
    } else if (oriUpdatePathTree === undefined) {
      updatePathTree = oriUpdatePathTree
      allowFastComparison = true
    } else if (keyName === null) {
      updatePathTree = true
      allowFastComparison = true
    } else {
      let needUpdate = false
      if (isSpliceUpdate) {
        needUpdate = true
      } else {
        const keys = Object.keys(oriUpdatePathTree)
        for (let i = 0; i < keys.length; i += 1) {
          const k = keys[i]
          const subTree = oriUpdatePathTree[k]
          if (subTree === true || (keyName === '*this' ? subTree : subTree?.[keyName])) {
            needUpdate = true
            break
          }
        }
      }
      if (needUpdate) {
        updatePathTree = new Array(newRawKeys.length)
        for (let i = 0; i < newRawKeys.length; i += 1) {
          const k = newRawKeys[i]
          if (oldSharedKeyMap?.[k] !== undefined || newSharedKeyMap?.[k] !== undefined) {
            updatePathTree[i] = true
          } else {
            const subTree = oriUpdatePathTree[i]
            if (subTree === undefined) {
              // empty
            } else if (subTree === true || (keyName === '*this' ? subTree : subTree?.[keyName])) {
              updatePathTree[i] = true
            } else {
              updatePathTree[i] = subTree
            }
          }
        }
        allowFastComparison = false
      } else {
        updatePathTree = oriUpdatePathTree
        allowFastComparison = false
      }
    }

    if (allowFastComparison) {
      let updatePathTree
      if (isSpliceUpdate) updatePathTree = true
      else updatePathTree = oriUpdatePathTree
      let i = 0
      while (i < oldRawKeys.length && i < newRawKeys.length) {
        const item = items[i]
        const index = indexes === null ? i : indexes[i]
        const oldIndex = oldIndexes === null ? i : oldIndexes[i]
        const u = updatePathTree === true || updatePathTree === undefined ? updatePathTree : updatePathTree[index]
        updateListItem(item, index, u, index !== oldIndex, elem.childNodes[i])
        i += 1
      }
      if (i < oldRawKeys.length) {
        elem.removeChildren(i, oldRawKeys.length - i)
      } else if (i < newRawKeys.length) {
        const children = []
        for (; i < newRawKeys.length; i += 1) {
          const item = items[i]
          const index = indexes === null ? i : indexes[i]
          children.push(newListItem(item, index))
        }
        elem.insertChildren(children, -1)
      }
      return
    }

    const minIndexByLen = []
    const minIndexByLenIndexes = []
    const minIndexPrev = new Array(newRawKeys.length)
    const oldPosList = new Array(newRawKeys.length)
    let prevOldIndex = -1
    let prevMinIndexByLenIndex = -1
    for (let i = 0; i < newRawKeys.length; i += 1) {
      const rawKey = newRawKeys[i]
      if (oldRawKeys[prevOldIndex + 1] === rawKey) {
        prevOldIndex += 1
        prevMinIndexByLenIndex += 1
        minIndexByLen[prevMinIndexByLenIndex] = prevOldIndex
        minIndexByLenIndexes[prevMinIndexByLenIndex] = i
        minIndexPrev[i] = prevMinIndexByLenIndex > 0 ? minIndexByLenIndexes[prevMinIndexByLenIndex - 1] : -1
        oldPosList[i] = prevOldIndex
        continue
      }
      const oldIndex = oldKeyMap[rawKey]
      if (oldIndex === undefined) {
        oldPosList[i] = -1
        continue
      }
      let bottom = 0
      let top = minIndexByLen.length
      while (bottom < top) {
        const mid = Math.floor((bottom + top) / 2)
        if (oldIndex < minIndexByLen[mid]) top = mid
        else bottom = mid + 1
      }
      minIndexByLen[top] = oldIndex
      minIndexByLenIndexes[top] = i
      minIndexPrev[i] = top > 0 ? minIndexByLenIndexes[top - 1] : -1
      oldPosList[i] = oldIndex
      prevOldIndex = oldIndex
      prevMinIndexByLenIndex = top
    }
    const lcsLen = minIndexByLenIndexes.length

    if (lcsLen === newRawKeys.length && lcsLen === oldRawKeys.length) {
      let i = 0
      while (i < oldRawKeys.length && i < newRawKeys.length) {
        const item = items[i]
        const index = indexes === null ? i : indexes[i]
        const oldIndex = oldIndexes === null ? i : oldIndexes[i]
        const u = updatePathTree === true || updatePathTree === undefined ? updatePathTree : updatePathTree[i]
        updateListItem(item, index, u, index !== oldIndex, elem.childNodes[i])
        i += 1
      }
      return
    }

    let prevLcsIndex = lcsLen > 0 ? minIndexByLenIndexes[lcsLen - 1] : -1
    let curLcsArrIndex = lcsLen
    while (prevLcsIndex !== -1) {
      curLcsArrIndex -= 1
      minIndexByLen[curLcsArrIndex] = prevLcsIndex
      prevLcsIndex = minIndexPrev[prevLcsIndex]
    }
    const lcsArr = minIndexByLen

    const Stable = 0
    const ForwardMove = 1
    const BackwardMove = 2
    const oldListOp = new Array(oldRawKeys.length)
    const changedItems = new Array(newRawKeys.length)
    let prevLcsOldPos = -1
    for (let i = 0; i < oldPosList.length; i += 1) {
      const oldPos = oldPosList[i]
      if (i === lcsArr[curLcsArrIndex]) {
        prevLcsOldPos = oldPos
        curLcsArrIndex += 1
        oldListOp[oldPos] = Stable
        continue
      }
      if (oldPos === -1) {
        const item = items[i]
        const index = indexes === null ? i : indexes[i]
        changedItems[i] = newListItem(item, index)
        continue
      }
      if (oldPos > prevLcsOldPos) oldListOp[oldPos] = BackwardMove
      else oldListOp[oldPos] = ForwardMove
      changedItems[i] = elem.childNodes[oldPos]
    }

    let realListDiff = 0
    let opOldPos = 0
    let opIndex = 0
    curLcsArrIndex = 0
    do {
      const nextStable = curLcsArrIndex < lcsArr.length ? lcsArr[curLcsArrIndex] : changedItems.length
      const nextStableOldPos = curLcsArrIndex < lcsArr.length ? oldPosList[nextStable] : oldListOp.length

      while (opOldPos < nextStableOldPos) {
        if (oldListOp[opOldPos] === undefined) {
          const start = opOldPos
          opOldPos += 1
          let count = 1
          while (opOldPos < nextStableOldPos && oldListOp[opOldPos] === undefined) {
            opOldPos += 1
            count += 1
          }
          elem.removeChildren(start + realListDiff, count)
          realListDiff -= count
        } else {
          if (oldListOp[opOldPos] === BackwardMove) realListDiff -= 1
          opOldPos += 1
        }
      }

      while (opIndex < nextStable) {
        const newItem = changedItems[opIndex]
        const oldPos = oldPosList[opIndex]
        if (oldPos === -1) {
          const start = opIndex
          opIndex += 1
          let count = 1
          while (opIndex < nextStable && oldPosList[opIndex] === -1) {
            opIndex += 1
            count += 1
          }
          elem.insertChildren(changedItems.slice(start, start + count), nextStableOldPos + realListDiff)
          realListDiff += count
        } else {
          if (newItem) elem.insertChildAt(newItem, nextStableOldPos + realListDiff)
          const item = items[opIndex]
          const index = indexes === null ? opIndex : indexes[opIndex]
          const oldIndex = oldIndexes === null ? oldPos : oldIndexes[oldPos]
          const u = updatePathTree === true || updatePathTree === undefined ? updatePathTree : updatePathTree[opIndex]
          updateListItem(item, index, u, index !== oldIndex, newItem)
          if (oldListOp[oldPos] === BackwardMove) realListDiff += 1
          opIndex += 1
        }
      }

      if (curLcsArrIndex < lcsArr.length) {
        const item = items[nextStable]
        const index = indexes === null ? nextStable : indexes[nextStable]
        const oldIndex = oldIndexes === null ? nextStableOldPos : oldIndexes[nextStableOldPos]
        const u = updatePathTree === true || updatePathTree === undefined ? updatePathTree : updatePathTree[nextStable]
        const node = elem.childNodes[nextStableOldPos + realListDiff]
        updateListItem(item, index, u, index !== oldIndex, node)
      }

      opOldPos = nextStableOldPos + 1
      opIndex = nextStable + 1
      curLcsArrIndex += 1
    } while (curLcsArrIndex <= lcsArr.length)
  }
}

// -------------------------------------------------------------------------------------------
// Dynamic-slot component emulation.
// A `dyn-*` element owns the slots listed in its `slots` property (default: one unnamed slot).
// Each slot receives as slot values every property of the component whose name starts with `sv`
// (e.g. property `sv-x` -> slot value `x`, `sv-a-b` -> `aB`).

class DynShadow {
  constructor(host) {
    this.host = host
    this.slots = [] // slot elements (virtual nodes of kind 'slot' living in the component's shadow)
    this.handler = null
    this.pendingValues = Object.create(null)
    this.applied = false
  }

  slotSpec() {
    const spec = this.host.attrs.r.slots
    if (Array.isArray(spec)) return spec.map((x) => String(x))
    return ['']
  }

  slotValues() {
    const out = {}
    const r = this.host.attrs.r
    for (const k of Object.keys(r)) {
      if (k.startsWith('sv-') && k.length > 3) out[dashToCamelCase(k.slice(3))] = r[k]
    }
    return out
  }

  setDynamicSlotHandler(names, insertSlots, removeSlots, updateSlot) {
    this.handler = { names, insertSlots, removeSlots, updateSlot }
  }

  // creation: materialise the slots and ask the handler to fill them;
  // update: slots whose name set changed are removed/inserted, the rest updated
  applySlotUpdates() {
    const spec = this.slotSpec()
    const h = this.handler
    if (!h) return
    const values = this.slotValues()
    if (!this.applied) {
      this.applied = true
      this.prevValues = values
      const slots = spec.map((name) => {
        const s = new Element('virt', 'slot')
        s.slotName = name
        s.slotNodes = []
        s.isShadowSlot = true
        s.slotValues = {}
        for (const n of h.names) s.slotValues[n] = values[n]
        return s
      })
      this.slots = slots
      h.insertSlots(slots.map((s) => ({ slot: s, name: s.slotName, slotValues: s.slotValues })))
      return
    }
    const prevNames = this.slots.map((s) => s.slotName)
    const same = prevNames.length === spec.length && prevNames.every((n, i) => n === spec[i])
    if (!same) {
      h.removeSlots(this.slots)
      this.applied = false
      this.applySlotUpdates()
      return
    }
    for (const s of this.slots) {
      const trees = Object.create(null)
      let any = false
      for (const n of h.names) {
        if (!Object.is(s.slotValues[n], values[n]) || (values[n] !== null && typeof values[n] === 'object')) {
          trees[n] = true
          any = true
        }
        s.slotValues[n] = values[n]
      }
      h.updateSlot(s, s.slotValues, any ? trees : Object.create(null))
    }
  }
}

// -------------------------------------------------------------------------------------------
// ProcGenWrapper (port)

class ProcGenWrapper {
  constructor(procGen, opts) {
    this.shadowRoot = new Element('virt', 'shadow-root')
    this.procGen = procGen
    this.bindingMapDisabled = false
    this.changePropFilter = (x) => x
    this.eventListenerWrapper = null
    this.log = [] // setter sites fired: [name, nodeId, key]
    this.warnings = []
    this.order = [] // document-order callback trace during creation
    this.opts = opts || {}
    this.inSlotMode = false
    const self = this
    // setters are arrow-like bound fields, as in the original
    this.s = (elem, v) => { self.fire('s', elem, ''); elem.slot = v }
    this.l = (elem, name, value, generalLvaluePath) => {
      self.fire('l', elem, name)
      elem.attrs.l[name] = { v: value, path: generalLvaluePath }
    }
    this.i = (elem, v) => { self.fire('i', elem, ''); elem.attrs.i = v }
    this.c = (elem, v) => { self.fire('c', elem, ''); elem.attrs.c = v }
    this.y = (elem, v) => { self.fire('y', elem, ''); elem.attrs.y = v }
    this.d = (elem, name, v) => { self.fire('d', elem, name); elem.attrs.d[name] = v }
    this.m = (elem, name, v) => { self.fire('m', elem, name); elem.attrs.m[name] = v }
    this.v = (elem, evName, v, final, mutated, capture, isDynamic, generalLvaluePath) => {
      self.fire('v', elem, evName)
      const key = `${evName}|${final ? 1 : 0}${mutated ? 1 : 0}${capture ? 1 : 0}`
      const rec = { name: evName, v, final: !!final, mutated: !!mutated, capture: !!capture, dyn: !!isDynamic, path: generalLvaluePath }
      elem.attrs.v[key] = rec
    }
    this.r = (elem, name, v, modelLvaluePath, generalLvaluePath) => {
      self.fire('r', elem, name)
      // (the real runtime camel-cases property names of components; the raw name is kept here because
      // it is the compiler's output that is under test)
      const key = name
      elem.attrs.r[key] = v
      if (modelLvaluePath !== undefined) elem.attrs.model[key] = modelLvaluePath
      if (generalLvaluePath !== undefined) elem.attrs.gp[key] = generalLvaluePath
    }
    this.a = (elem, name, v) => { self.fire('a', elem, name); elem.attrs.a[name] = v }
    this.wl = (elem, name, value) => { self.fire('wl', elem, name); elem.attrs.wl[name] = value }
    this.p = (elem, name, v, generalLvaluePath) => {
      self.fire('p', elem, name)
      elem.attrs.p[name] = { v: self.changePropFilter(v, generalLvaluePath), path: generalLvaluePath }
    }
  }

  fire(setter, elem, key) { this.log.push([setter, elem.id, key]) }
  warn(msg) { this.warnings.push(msg) }
  setFnFilter(f) { this.changePropFilter = f }
  setEventListenerWrapper(w) { if (typeof w === 'function') this.eventListenerWrapper = w }
  devArgs(elem) { return getTmplDevArgs(elem) }

  createTextNode(text) { return new TextNode(text) }
  createVirtualNode(name) { return new Element('virt', name) }

  createComponent(tagName, genericImpls, initPropValues) {
    const elem = new Element('elem', tagName)
    elem.generics = genericImpls
    elem.attrs = { r: {}, model: {}, gp: {}, c: undefined, y: undefined, i: undefined, d: {}, m: {}, v: {}, p: {}, wl: {}, a: {}, l: {} }
    if (tagName.startsWith('dyn-')) {
      elem.isComponent = true
      elem.shadow = new DynShadow(elem)
    }
    initPropValues(elem)
    return elem
  }

  create(data) {
    const children = this.procGen(this, true, data, undefined)
    this.handleChildrenCreationAndInsert(children.C, this.shadowRoot, undefined, undefined)
    return children.B
  }

  update(data, dataUpdatePathTree) {
    const children = this.procGen(this, false, data, dataUpdatePathTree)
    this.handleChildrenUpdate(children.C, this.shadowRoot, undefined, undefined)
  }

  bindingMapUpdate(field, data, bindingMapGenList) {
    if (this.bindingMapDisabled) return false
    const updaters = bindingMapGenList[field]
    if (!updaters) return false
    for (let i = 0; i < updaters.length; i += 1) {
      const bindingMapGen = updaters[i]
      bindingMapGen(data, () => {}, (elem, v) => { this.fire('T', elem, ''); elem.textContent = v })
    }
    return true
  }

  slotElementSlotNodesAdd(slotElement, node) {
    if (slotElement && slotElement.slotNodes) slotElement.slotNodes.push(node)
  }

  setSlotElement(node, slotElement) {
    node.slotElement = slotElement
  }

  handleChildrenCreation(children, slotElement, dynamicSlotName) {
    const childNodes = []
    children(
      true,
      // text node
      (textContent, textInit) => {
        this.order.push('T')
        if (slotElement && dynamicSlotName !== '') {
          childNodes.push(this.createDynamicPlaceholder(slotElement))
          return
        }
        const elem = this.createTextNode(textContent)
        if (slotElement) this.setSlotElement(elem, slotElement)
        if (slotElement) getTmplArgs(elem).dynamicSlotNameMatched = true
        if (textInit) textInit(elem)
        childNodes.push(elem)
      },
      // element
      (tagName, genericImpls, propertyInit, children, slot, dynamicSlotValueNames) => {
        this.order.push('E:' + tagName)
        if (slotElement && dynamicSlotName !== (slot || '')) {
          childNodes.push(this.createDynamicPlaceholder(slotElement))
          return
        }
        const elem = this.createCommonElement(tagName, genericImpls, propertyInit, children, dynamicSlotValueNames)
        if (slotElement) {
          this.setSlotElement(elem, slotElement)
          getTmplArgs(elem).dynamicSlotNameMatched = true
        } else if (slot !== undefined) {
          elem.slot = slot
        }
        childNodes.push(elem)
      },
      // wx:if / template-is
      (branchKey, branchFunc) => {
        this.order.push('B')
        const elem = this.createVirtualNode('wx:if')
        elem.inheritSlots = true
        if (slotElement) this.setSlotElement(elem, slotElement)
        getTmplArgs(elem).key = branchKey
        this.handleChildrenCreationAndInsert(branchFunc, elem, slotElement, dynamicSlotName)
        childNodes.push(elem)
      },
      // wx:for
      (list, key, oriListUpdatePathTree, lvaluePath, itemCallback) => {
        this.order.push('F')
        const elem = this.createVirtualNode('wx:for')
        elem.inheritSlots = true
        if (slotElement) this.setSlotElement(elem, slotElement)
        const tmplArgs = getTmplArgs(elem)
        tmplArgs.forLvaluePath = lvaluePath
        tmplArgs.keyList = new RangeListManager(key, list, elem, this, (item, index) => {
          const childNode = this.createVirtualNode('wx:for-item')
          childNode.inheritSlots = true
          this.handleChildrenCreationAndInsert(
            (isCreation, defineTextNode, defineElement, defineIfGroup, defineForLoop, defineSlot, definePureVirtualNode) => {
              itemCallback(true, item, index, undefined, undefined, lvaluePath ? [...lvaluePath, index] : null,
                defineTextNode, defineElement, defineIfGroup, defineForLoop, defineSlot, definePureVirtualNode)
            },
            childNode, slotElement, dynamicSlotName)
          return childNode
        })
        childNodes.push(elem)
      },
      // slot
      (slotName, slotValueInit, slot) => {
        this.order.push('S')
        const elem = this.createVirtualNode('slot')
        elem.attrs = { r: {}, model: {}, gp: {}, c: undefined, y: undefined, i: undefined, d: {}, m: {}, v: {}, p: {}, wl: {}, a: {}, l: {} }
        elem.slotName = dataValueToString(slotName)
        if (slotElement) this.setSlotElement(elem, slotElement)
        else if (slot !== undefined) elem.slot = slot
        if (slotValueInit) slotValueInit(elem)
        childNodes.push(elem)
      },
      // pure virtual node
      (children, slot) => {
        this.order.push('J')
        if (slot !== undefined) {
          if (slotElement) {
            if (dynamicSlotName === slot) {
              const elem = this.createVirtualNode('virtual')
              this.setSlotElement(elem, slotElement)
              getTmplArgs(elem).dynamicSlotNameMatched = true
              this.handleChildrenCreationAndInsert(children, elem, undefined, undefined)
              childNodes.push(elem)
            } else {
              childNodes.push(this.createDynamicPlaceholder(slotElement))
            }
          } else {
            const elem = this.createVirtualNode('virtual')
            elem.slot = slot
            this.handleChildrenCreationAndInsert(children, elem, undefined, undefined)
            childNodes.push(elem)
          }
        } else {
          const elem = this.createVirtualNode('virtual')
          elem.inheritSlots = true
          if (slotElement) this.setSlotElement(elem, slotElement)
          this.handleChildrenCreationAndInsert(children, elem, slotElement, dynamicSlotName)
          childNodes.push(elem)
        }
      },
      undefined,
      undefined,
    )
    return childNodes
  }

  handleChildrenCreationAndInsert(children, parentNode, slotElement, dynamicSlotName) {
    const childNodes = this.handleChildrenCreation(children, slotElement, dynamicSlotName)
    if (slotElement) for (const n of childNodes) this.slotElementSlotNodesAdd(slotElement, n)
    if (childNodes.length) parentNode.insertChildren(childNodes, -1)
  }

  handleChildrenUpdate(children, parentNode, slotElement, dynamicSlotName) {
    let index = 0
    const childNodes = slotElement
      ? slotElement.slotNodes.filter((node) => node.parentNode === parentNode)
      : parentNode.childNodes
    const replaceInSlot = (newElem, elem) => {
      if (slotElement) {
        const k = slotElement.slotNodes.indexOf(elem)
        if (k >= 0) slotElement.slotNodes[k] = newElem
      }
      parentNode.replaceChild(newElem, elem)
    }
    children(
      false,
      // text
      (textContent) => {
        const elem = childNodes[index]
        index += 1
        if (!elem) return
        if (slotElement) {
          if (!getTmplArgs(elem).dynamicSlotNameMatched) return
        }
        if (textContent !== undefined) {
          this.fire('T', elem, '')
          elem.textContent = textContent
        }
      },
      // element
      (tagName, genericImpls, propertyInit, children, slot, dynamicSlotValueNames) => {
        const elem = childNodes[index]
        index += 1
        if (!elem) return
        if (slotElement) {
          const tmplArgs = getTmplArgs(elem)
          if (dynamicSlotName === (slot || '')) {
            if (!tmplArgs.dynamicSlotNameMatched) {
              const newElem = this.createCommonElement(tagName, genericImpls, propertyInit, children, dynamicSlotValueNames)
              this.setSlotElement(newElem, slotElement)
              getTmplArgs(newElem).dynamicSlotNameMatched = true
              replaceInSlot(newElem, elem)
              return
            }
          } else {
            if (tmplArgs.dynamicSlotNameMatched) {
              replaceInSlot(this.createDynamicPlaceholder(slotElement), elem)
            }
            return
          }
        }
        propertyInit(elem, false)
        let dynSlot = false
        if (elem.isComponent) {
          const sr = this.dynamicSlotUpdate(elem, dynamicSlotValueNames, children)
          if (sr) dynSlot = true
          sr?.applySlotUpdates()
        }
        if (!slotElement) {
          if (slot !== undefined) elem.slot = slot
        }
        if (!dynSlot) this.handleChildrenUpdate(children, elem, undefined, undefined)
      },
      // wx:if / template-is
      (branchKey, branchFunc) => {
        const elem = childNodes[index]
        index += 1
        if (!elem) return
        const prevTmplArgs = getTmplArgs(elem)
        if (prevTmplArgs.key === branchKey) {
          this.handleChildrenUpdate(branchFunc, elem, slotElement, dynamicSlotName)
        } else {
          const newElem = this.createVirtualNode('wx:if')
          newElem.inheritSlots = true
          if (slotElement) this.setSlotElement(newElem, slotElement)
          const tmplArgs = getTmplArgs(newElem)
          prevTmplArgs.key = tmplArgs.key = branchKey
          this.handleChildrenCreationAndInsert(branchFunc, newElem, slotElement, dynamicSlotName)
          if (slotElement) replaceInSlot(newElem, elem)
          else parentNode.replaceChildAt(newElem, index - 1)
        }
      },
      // wx:for
      (list, key, oriListUpdatePathTree, lvaluePath, itemCallback) => {
        const elem = childNodes[index]
        index += 1
        if (!elem) return
        const tmplArgs = getTmplArgs(elem)
        tmplArgs.forLvaluePath = lvaluePath
        const keyListManager = tmplArgs.keyList
        keyListManager.diff(
          list,
          oriListUpdatePathTree,
          elem,
          (item, index) => {
            const childNode = this.createVirtualNode('wx:for-item')
            childNode.inheritSlots = true
            this.handleChildrenCreationAndInsert(
              (isCreation, defineTextNode, defineElement, defineIfGroup, defineForLoop, defineSlot, definePureVirtualNode) => {
                itemCallback(true, item, index, undefined, undefined, lvaluePath ? [...lvaluePath, index] : null,
                  defineTextNode, defineElement, defineIfGroup, defineForLoop, defineSlot, definePureVirtualNode)
              },
              childNode, slotElement, dynamicSlotName)
            return childNode
          },
          (item, index, updatePathTree, indexChanged, childNode) => {
            if (!childNode) return
            this.handleChildrenUpdate(
              (isCreation, defineTextNode, defineElement, defineIfGroup, defineForLoop, defineSlot, definePureVirtualNode) => {
                itemCallback(false, item, index, updatePathTree, indexChanged ? true : undefined,
                  lvaluePath ? [...lvaluePath, index] : null,
                  defineTextNode, defineElement, defineIfGroup, defineForLoop, defineSlot, definePureVirtualNode)
              },
              childNode, slotElement, dynamicSlotName)
          },
        )
      },
      // slot
      (slotName, slotValueInit, slot) => {
        const elem = childNodes[index]
        index += 1
        if (!elem) return
        if (slotName !== undefined) elem.slotName = dataValueToString(slotName)
        if (!slotElement) {
          if (slot !== undefined) elem.slot = slot
        }
        if (slotValueInit) slotValueInit(elem)
      },
      // pure virtual node
      (children, slot) => {
        const elem = childNodes[index]
        index += 1
        if (!elem) return
        if (slot !== undefined) {
          if (slotElement) {
            const tmplArgs = getTmplArgs(elem)
            if (dynamicSlotName === slot) {
              if (tmplArgs.dynamicSlotNameMatched) {
                this.handleChildrenUpdate(children, elem, undefined, undefined)
              } else {
                const newElem = this.createVirtualNode('virtual')
                this.setSlotElement(newElem, slotElement)
                getTmplArgs(newElem).dynamicSlotNameMatched = true
                this.handleChildrenCreationAndInsert(children, newElem, undefined, undefined)
                replaceInSlot(newElem, elem)
              }
            } else if (tmplArgs.dynamicSlotNameMatched) {
              replaceInSlot(this.createDynamicPlaceholder(slotElement), elem)
            }
          } else {
            elem.slot = slot
            this.handleChildrenUpdate(children, elem, undefined, undefined)
          }
        } else {
          this.handleChildrenUpdate(children, elem, slotElement, dynamicSlotName)
        }
      },
      undefined,
      undefined,
    )
  }

  dynamicSlotUpdate(elem, dynamicSlotValueNames, children) {
    const sr = elem.shadow
    if (!sr) return null
    sr.setDynamicSlotHandler(
      dynamicSlotValueNames || [],
      (slots) => {
        const childNodes = []
        for (let i = 0; i < slots.length; i += 1) {
          const { slot, name: slotName, slotValues } = slots[i]
          const slotChildNodes = this.handleChildrenCreation(
            (isCreation, defineTextNode, defineElement, defineIfGroup, defineForLoop, defineSlot, definePureVirtualNode) => {
              children(true, defineTextNode, defineElement, defineIfGroup, defineForLoop, defineSlot, definePureVirtualNode, slotValues, undefined)
            },
            slot, slotName)
          for (const n of slotChildNodes) slot.slotNodes.push(n)
          childNodes.push(...slotChildNodes)
        }
        if (childNodes.length) elem.insertChildren(childNodes, -1)
      },
      (slots) => {
        for (const s of slots) {
          for (const n of s.slotNodes) {
            if (n.parentNode === elem) elem.removeChildren(n.parentIndex, 1)
          }
          s.slotNodes = []
        }
      },
      (slot, slotValues, slotValueUpdatePathTrees) => {
        const slotName = slot.slotName || ''
        this.handleChildrenUpdate(
          (isCreation, defineTextNode, defineElement, defineIfGroup, defineForLoop, defineSlot, definePureVirtualNode) => {
            children(false, defineTextNode, defineElement, defineIfGroup, defineForLoop, defineSlot, definePureVirtualNode, slotValues, slotValueUpdatePathTrees)
          },
          elem, slot, slotName)
      },
    )
    return sr
  }

  createDynamicPlaceholder(slotElement) {
    const elem = this.createVirtualNode('virtual')
    this.setSlotElement(elem, slotElement)
    getTmplArgs(elem).dynamicSlotNameMatched = false
    elem.placeholder = true
    return elem
  }

  createCommonElement(tagName, genericImpls, propertyInit, children, dynamicSlotValueNames) {
    let dynSlot = false
    const initPropValues = (elem) => {
      const sr = elem.isComponent ? this.dynamicSlotUpdate(elem, dynamicSlotValueNames, children) : null
      if (sr) dynSlot = true
      propertyInit(elem, true)
      if (elem.isComponent) sr?.applySlotUpdates()
    }
    const elem = this.createComponent(tagName, genericImpls, initPropValues)
    if (dynSlot) this.bindingMapDisabled = true
    else this.handleChildrenCreationAndInsert(children, elem, undefined, undefined)
    return elem
  }
}

// -------------------------------------------------------------------------------------------
// update-path-tree construction (port of GlassEaselTemplateInstance.updateValues)

const isPositiveInteger = (x) => String(x >>> 0) === x

function buildUpdatePathTree(changes) {
  const dataUpdatePathTree = Object.create(null)
  for (let i = 0; i < changes.length; i += 1) {
    const [p, newVal, spliceIndex, spliceDel] = changes[i]
    let cur = dataUpdatePathTree
    for (let j = 0; j < p.length; j += 1) {
      const field = p[j]
      const v = cur[field]
      if (v === true) break
      if (j === p.length - 1) {
        if (spliceDel === undefined) {
          cur[field] = true
        } else {
          const startIndex = spliceIndex
          if (v === undefined) {
            cur[field] = Object.create(new Array(startIndex))
          } else if (!Array.isArray(Object.getPrototypeOf(v))) {
            const arr = new Array(startIndex)
            const keys = Object.keys(v)
            let lengthChanged = false
            for (let i = 0; i < keys.length; i += 1) {
              const key = keys[i]
              const item = v[key]
              if (isPositiveInteger(key)) arr[Number(key)] = item
              else if (key === 'length') lengthChanged = true
            }
            const wrappedArr = Object.create(arr)
            if (lengthChanged) wrappedArr.length = true
            cur[field] = wrappedArr
          } else {
            const arr = Object.getPrototypeOf(v)
            if (arr.length < startIndex) arr.length = startIndex
            const wrapper = v
            const keys = Object.keys(wrapper)
            for (let i = 0; i < keys.length; i += 1) {
              const key = keys[i]
              if (isPositiveInteger(key)) {
                arr[Number(key)] = wrapper[key]
                delete wrapper[key]
              }
            }
          }
          const arr = Object.getPrototypeOf(cur[field])
          const inserts = new Array(newVal.length)
          inserts.fill(true)
          arr.splice(spliceIndex, spliceDel, ...inserts)
        }
        break
      }
      if (v === undefined) {
        const next = Object.create(null)
        cur[field] = next
        cur = next
      } else {
        cur = v
      }
    }
  }
  return dataUpdatePathTree
}

// a plain JSON path tree ({a:{b:true}} | true) -> null-prototype tree as the runtime builds it
function toPathTree(j) {
  if (j === true) return true
  if (j === undefined || j === null) return undefined
  const o = Object.create(null)
  for (const k of Object.keys(j)) o[k] = toPathTree(j[k])
  return o
}

// -------------------------------------------------------------------------------------------
// projection to the abstract tree of spec/WxmlSem.tla

function projValue(v, enc) { return enc ? enc(v) : v }

function projAttrs(a, enc) {
  const o = {}
  const m = (x) => {
    const r = {}
    for (const k of Object.keys(x)) r[k] = projValue(x[k], enc)
    return r
  }
  if (Object.keys(a.r).length) o.r = m(a.r)
  if (Object.keys(a.model).length) o.model = a.model
  if (Object.keys(a.gp).length) o.gp = a.gp
  if (a.c !== undefined) o.c = projValue(a.c, enc)
  if (a.y !== undefined) o.y = projValue(a.y, enc)
  if (a.i !== undefined) o.i = projValue(a.i, enc)
  if (Object.keys(a.d).length) o.d = m(a.d)
  if (Object.keys(a.m).length) o.m = m(a.m)
  if (Object.keys(a.v).length) {
    o.v = {}
    for (const k of Object.keys(a.v)) {
      const e = a.v[k]
      o.v[k] = { v: projValue(e.v, enc), dyn: e.dyn }
      if (e.path !== undefined) o.v[k].path = e.path
    }
  }
  if (Object.keys(a.p).length) {
    o.p = {}
    for (const k of Object.keys(a.p)) {
      o.p[k] = { v: projValue(a.p[k].v, enc) }
      if (a.p[k].path !== undefined) o.p[k].path = a.p[k].path
    }
  }
  if (Object.keys(a.wl).length) o.wl = m(a.wl)
  if (Object.keys(a.a).length) o.a = m(a.a)
  if (Object.keys(a.l).length) {
    o.l = {}
    for (const k of Object.keys(a.l)) {
      o.l[k] = { v: projValue(a.l[k].v, enc) }
      if (a.l[k].path !== undefined) o.l[k].path = a.l[k].path
    }
  }
  return o
}

function project(node, enc, out) {
  if (node.type === 'text') {
    out.push({ t: 'text', v: node.textContent })
    return
  }
  if (node.type === 'elem') {
    const ch = []
    for (const c of node.childNodes) project(c, enc, ch)
    const e = { t: 'elem', tag: node.name, at: projAttrs(node.attrs, enc), ch }
    if (node.generics && Object.keys(node.generics).length) e.generics = node.generics
    if (node.slot !== undefined) e.slot = projValue(node.slot, enc)
    if (node.slotElement) e.inSlot = node.slotElement.slotName
    if (node._$wxTmplDevArgs && node._$wxTmplDevArgs.A) e.dev = node._$wxTmplDevArgs.A.slice()
    out.push(e)
    return
  }
  // virtual
  if (node.placeholder) return
  if (node.name === 'slot') {
    const e = { t: 'slot', name: node.slotName, at: projAttrs(node.attrs, enc) }
    if (node.slot !== undefined) e.slot = projValue(node.slot, enc)
    if (node._$wxTmplDevArgs && node._$wxTmplDevArgs.A) e.dev = node._$wxTmplDevArgs.A.slice()
    out.push(e)
    return
  }
  if (node.slot !== undefined && !node.inheritSlots) {
    const ch = []
    for (const c of node.childNodes) project(c, enc, ch)
    out.push({ t: 'block', slot: projValue(node.slot, enc), ch })
    return
  }
  for (const c of node.childNodes) project(c, enc, out)
}

function projectRoot(wrapper, enc) {
  const out = []
  for (const c of wrapper.shadowRoot.childNodes) project(c, enc, out)
  return out
}

module.exports = {
  ProcGenWrapper, RangeListManager, buildUpdatePathTree, toPathTree, projectRoot, Element, TextNode,
  dataValueToString, getTmplArgs,
}
