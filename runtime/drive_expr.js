'use strict'
// C03 driver.  stdin: one JSON object per line
//   {bundle, cases: [{path, tree, text}], nenv, seed, full}
// For every case the compiled template `<v a="{{text}}"/>` is created under the reference runtime
// for each data environment; the raw value that reaches R.r is compared with evalref(tree, env),
// and (oracle cross-check) evalref is compared with node's own evaluation of the text where the
// documented deviations cannot matter.
const readline = require('readline')
const { ProcGenWrapper } = require('./refrt.js')
const { evalTree, idsOf, same, describe } = require('./evalref.js')

const CALLS = []
function makePool() {
  'use strict'
  // (every call is logged: which calls an expression makes, and in which order, is part of its meaning)
  const fn = function f(x) { CALLS.push(x); return [this === undefined ? 'plain' : 'method', x] }
  const arr = [1, 2]
  const obj = { p: 1, length: 7, q: { p: null, 'q.p': 'inner' }, 'q.p': 'dotted', 'p-1': 'dashed', 'p q': 'spaced', 'p.length': 'pl', 'length ': 'ls' }
  return [undefined, null, true, false, 0, -0, 1, NaN, '', 'x', '10', arr, obj, fn]
}
const POOL = makePool()
// functions cannot be copied for the generated code (see deepCopy), so they are frozen instead: faulty
// generated code that writes into one (`Object.assign(f, ..)`) throws instead of changing what the oracles see
;(function freezeFns(v, seen) {
  if (v === null || (typeof v !== 'object' && typeof v !== 'function') || seen.has(v)) return
  seen.add(v)
  if (typeof v === 'function') Object.freeze(v)
  for (const k of Object.keys(v)) freezeFns(v[k], seen)
})(POOL, new Set())

function rng(seed) {
  let s = (seed >>> 0) || 1
  return () => {
    s ^= s << 13; s >>>= 0
    s ^= s >>> 17
    s ^= s << 5; s >>>= 0
    return s / 4294967296
  }
}

function* envs(ids, nenv, full, rand) {
  const n = ids.length
  const total = Math.pow(POOL.length, n)
  if (full && total <= 3000) {
    const idx = new Array(n).fill(0)
    for (let c = 0; c < total; c += 1) {
      yield idx.slice()
      for (let i = 0; i < n; i += 1) {
        idx[i] += 1
        if (idx[i] < POOL.length) break
        idx[i] = 0
      }
    }
    return
  }
  if (total <= nenv) {
    const idx = new Array(n).fill(0)
    for (let c = 0; c < total; c += 1) {
      yield idx.slice()
      for (let i = 0; i < n; i += 1) {
        idx[i] += 1
        if (idx[i] < POOL.length) break
        idx[i] = 0
      }
    }
    return
  }
  for (let c = 0; c < nenv; c += 1) yield ids.map(() => Math.floor(rand() * POOL.length))
}

function deepCopy(v, memo) {
  // (identity is kept: two fields holding one object hold one copy, so `a == b` keeps its value)
  memo = memo || new Map()
  if (v === null || typeof v !== 'object') return v
  if (memo.has(v)) return memo.get(v)
  if (Array.isArray(v)) {
    const out = new Array(v.length)
    memo.set(v, out)
    for (let i = 0; i < v.length; i += 1) if (i in v) out[i] = deepCopy(v[i], memo)
    return out
  }
  if (Object.getPrototypeOf(v) === Object.prototype) {
    const o = {}
    memo.set(v, o)
    for (const k of Object.keys(v)) o[k] = deepCopy(v[k], memo)
    return o
  }
  return v
}

function needsDeviation(e) {
  // member / index / call anywhere: native JavaScript may throw or pass `this`
  if (e === null || typeof e !== 'object') return false
  if (e.k === 'mem' || e.k === 'idx' || e.k === 'call') return true
  for (const key of Object.keys(e)) {
    const v = e[key]
    if (Array.isArray(v)) { if (v.some(needsDeviation)) return true } else if (v && typeof v === 'object' && needsDeviation(v)) return true
  }
  return false
}

// classes of array-spread operands under this environment (for known-finding attribution)
function spreadClasses(e, env, acc) {
  acc = acc || []
  if (e === null || typeof e !== 'object') return acc
  if (e.k === 'arr') {
    for (const x of e.xs) {
      if (x.t === 'spread') {
        let v
        try { v = evalTree(x.e, env) } catch (err) { v = undefined }
        if (typeof v === 'string') acc.push('array-spread-of-string')
        else if (!Array.isArray(v)) acc.push('array-spread-of-other')
        else if (Object.keys(v).length !== v.length) acc.push('array-spread-of-holey-array')
      }
    }
  }
  for (const key of Object.keys(e)) {
    const v = e[key]
    if (Array.isArray(v)) v.forEach((x) => spreadClasses(x, env, acc))
    else if (v && typeof v === 'object') spreadClasses(v, env, acc)
  }
  return acc
}

function containsCall(e) {
  if (e === null || typeof e !== 'object') return false
  if (e.k === 'call') return true
  for (const key of Object.keys(e)) {
    const v = e[key]
    if (Array.isArray(v)) { if (v.some(containsCall)) return true } else if (v && typeof v === 'object' && containsCall(v)) return true
  }
  return false
}

// an index expression holding a call, at a position JavaScript evaluates only sometimes (a branch of ?:, the right
// operand of && || ??): the known finding "the index is computed ahead of the binding" is attributed to exactly this
function hasLazyIndexCall(e, lazy) {
  if (e === null || typeof e !== 'object') return false
  if (e.k === 'idx' && lazy && containsCall(e.i)) return true
  if (e.k === 'cond') return hasLazyIndexCall(e.c, lazy) || hasLazyIndexCall(e.a, true) || hasLazyIndexCall(e.b, true)
  if (e.k === 'bin' && (e.o === '&&' || e.o === '||' || e.o === '??')) return hasLazyIndexCall(e.l, lazy) || hasLazyIndexCall(e.r, true)
  for (const key of Object.keys(e)) {
    const v = e[key]
    if (Array.isArray(v)) { if (v.some((x) => hasLazyIndexCall(x, lazy))) return true } else if (v && typeof v === 'object' && hasLazyIndexCall(v, lazy)) return true
  }
  return false
}

function isSubsequence(small, big) {
  let i = 0
  for (const x of big) if (i < small.length && same(small[i], x)) i += 1
  return i === small.length
}

function runChunk(job) {
  const out = { evals: 0, noref: 0, mismatches: [], oracle: [], errors: [], cases: job.cases.length }
  let G
  try {
    // eslint-disable-next-line no-new-func
    G = new Function('return ' + job.bundle)()
  } catch (e) {
    out.errors.push({ what: 'bundle does not evaluate', msg: String(e) })
    return out
  }
  const rand = rng(job.seed || 1)
  for (const c of job.cases) {
    const ids = Array.from(idsOf(c.tree)).sort()
    let procGen
    try {
      procGen = G[c.path]('')
    } catch (e) {
      out.errors.push({ path: c.path, what: 'no generator', msg: String(e) })
      continue
    }
    let native = null
    if (!needsDeviation(c.tree)) {
      try {
        // eslint-disable-next-line no-new-func
        native = new Function(...ids, 'return (' + c.text + ')')
      } catch (e) {
        out.oracle.push({ path: c.path, text: c.text, what: 'node cannot parse the printed text', msg: String(e) })
      }
    }
    let reported = 0
    for (const pick of envs(ids, job.nenv, job.full, rand)) {
      const data = {}
      ids.forEach((n, i) => { data[n] = POOL[pick[i]] })
      // scoped cases: the binding stands in two nested lists that both call their item `a` and their index `b`; the
      // identifiers denote the INNER item and index (the lists are objects with one key each, so that the two indexes
      // differ and the binding is evaluated once), not the outer ones, not the data fields
      const env = c.scoped ? (n) => (n === 'b' ? 'ki' : data[n]) : (n) => data[n]
      const genData = c.scoped ? Object.assign({}, data, { zo: { ko: 'OUTER-A' }, zi: { ki: data.a }, a: 'DATA-A', b: 'DATA-B' }) : data
      let want
      let wantErr = null
      CALLS.length = 0
      try { want = evalTree(c.tree, env) } catch (e) { wantErr = e && e.constructor ? e.constructor.name : 'Error' }
      const wantCalls = CALLS.slice()
      CALLS.length = 0
      let got
      let gotErr = null
      let eager = false
      try {
        const w = new ProcGenWrapper(procGen)
        // (a deep copy: faulty generated code such as `++D.a` or `Object.assign(D.o, ..)` must not change what
        // the oracles see; and since no expression form of WXML assigns, the copy must come back unchanged)
        const mine = deepCopy(genData)
        w.create(mine)
        let root = w.shadowRoot.childNodes[0]
        if (c.scoped) {
          const found = []
          const walk = (n) => { if (n && n.attrs && n.attrs.r && 'a' in n.attrs.r) found.push(n); for (const ch of (n && n.childNodes) || []) walk(ch) }
          walk(w.shadowRoot)
          root = found[found.length - 1] || { attrs: { r: {} } }
        }
        got = root.attrs.r.a
        if (!('a' in root.attrs.r)) gotErr = 'no value delivered'
        else if (!same(mine, genData)) gotErr = 'the evaluation changed the data to ' + describe(mine)
        else if (!wantErr && !same(CALLS.slice(), wantCalls)) {
          gotErr = 'calls f with ' + describe(CALLS.slice()) + ' where JavaScript calls it with ' + describe(wantCalls)
          if (isSubsequence(wantCalls, CALLS.slice()) && hasLazyIndexCall(c.tree, false)) eager = true
        }
      } catch (e) { gotErr = e && e.constructor ? e.constructor.name : 'Error' }
      out.evals += 1
      if (wantErr) {
        // JavaScript assigns no value to e under this environment: the property says nothing
        out.noref += 1
        continue
      }
      const ok = gotErr ? false : same(got, want)
      if (!ok && reported < 3) {
        reported += 1
        out.mismatches.push({
          path: c.path,
          text: c.text,
          env: (c.scoped ? '(inner item a, inner index b) ' : '') + ids.map((n) => n + '=' + describe(env(n))).join(' '),
          got: gotErr ? (/^(calls f|the evaluation|no value)/.test(gotErr) ? '' : 'throws ') + gotErr : describe(got),
          want: wantErr ? 'throws ' + wantErr : describe(want),
          cls: spreadClasses(c.tree, env).concat(eager ? ['eager-index-call'] : []),
        })
      } else if (!ok) {
        reported += 1
      }
      if (native) {
        let nat
        let natErr = null
        try { nat = native(...ids.map((n) => env(n))) } catch (e) { natErr = e && e.constructor ? e.constructor.name : 'Error' }
        const ook = wantErr || natErr ? wantErr === natErr : same(nat, want)
        if (!ook && out.oracle.length < 20) {
          out.oracle.push({ path: c.path, text: c.text, env: ids.map((n) => n + '=' + describe(data[n])).join(' '),
            evalref: wantErr ? 'throws ' + wantErr : describe(want), node: natErr ? 'throws ' + natErr : describe(nat) })
        }
      }
    }
    if (reported > 3) out.mismatches.push({ path: c.path, text: c.text, more: reported - 3 })
  }
  return out
}

const rl = readline.createInterface({ input: process.stdin, crlfDelay: Infinity })
rl.on('line', (line) => {
  if (!line.trim()) return
  const job = JSON.parse(line)
  process.stdout.write(JSON.stringify(runChunk(job)) + '\n')
})
