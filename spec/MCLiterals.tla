----------------------------- MODULE MCLiterals -----------------------------
EXTENDS Literals, TLC, Json
CONSTANTS MaxNum, MaxStr
VARIABLES fam, s
vars == <<fam, s>>

NumStrings == UNION {[1..n -> {NumAlphabet[i] : i \in 1..Len(NumAlphabet)}] : n \in 1..MaxNum}
StrStrings == UNION {[1..n -> {StrAlphabet[i] : i \in 1..Len(StrAlphabet)}] : n \in 0..MaxStr}

Init == \/ fam = "num" /\ s \in {x \in NumStrings : x[1] \in Dig \cup {"."}}
        \/ fam = "str" /\ s \in StrStrings
        \/ fam = "big" /\ s \in BigNums
Next == UNCHANGED vars
Spec == Init /\ [][Next]_vars

(* automaton sanity: the dead state is absorbing; every accepted numeric spelling starts with a
   digit or a dot and never ends in "e", "-", "x" or a lone "." *)
Sane == fam = "big" \/
        /\ (fam = "num" /\ NumValid(s)) => s[Len(s)] \notin {"-", "x"} /\ (s[Len(s)] = "e" => NumKind(s) = "HEX")
        /\ (fam = "str" /\ StrValid(s)) => (Len(s) = 0 \/ s[Len(s)] # "\\" \/ (Len(s) >= 2 /\ s[Len(s) - 1] = "\\"))

Emit == PrintT(<<"CASE", ToJson([fam |-> fam, s |-> s,
                  valid |-> CASE fam = "num" -> NumValid(s) [] fam = "str" -> StrValid(s) [] OTHER -> TRUE,
                  kind |-> CASE fam = "num" -> NumKind(s) [] fam = "str" -> StrKind(s) [] OTHER -> "BIG"])>>)
=============================================================================
