SPECIFICATION DSpec
CONSTANT DFamily = "dup"
INVARIANTS ExpectSane DEmit
CHECK_DEADLOCK FALSE
