SPECIFICATION Spec
CONSTANT MaxLen = 3
INVARIANT RoundTrip
CHECK_DEADLOCK FALSE
