SPECIFICATION DSpec
CONSTANT DFamily = "prefix"
INVARIANTS ExpectSane DEmit
CHECK_DEADLOCK FALSE
