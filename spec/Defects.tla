------------------------------- MODULE Defects -------------------------------
(***************************************************************************)
(* Structural defects of WXML source and the diagnostics they must raise   *)
(* (C15).  Each defect is an injection into a well-formed abstract         *)
(* template — a mark the concretiser turns into defective text — together  *)
(* with the set of acceptable diagnostic kinds and the *documented minimum *)
(* level* (the level table below is copied from the documentation of       *)
(* ParseErrorKind::level: a code change that lowers a level disagrees with *)
(* this table).                                                            *)
(***************************************************************************)
EXTENDS WxmlSem, Json

CONSTANT DFamily
VARIABLES files, expect, what
dvars == <<files, expect, what>>

Note == 1  Warn == 2  Error == 3  Fatal == 4

(* documented levels *)
LevelOf == [MissingEndTag |-> Warn, IncompleteTag |-> Fatal, MissingExpressionEnd |-> Fatal,
            UnexpectedExpressionCharacter |-> Fatal, InvalidAttributePrefix |-> Warn, DuplicatedAttribute |-> Warn,
            InvalidAttribute |-> Warn, ChildNodesNotAllowed |-> Error, MissingSourcePath |-> Error,
            MissingModuleName |-> Error, UnmatchedParenthesis |-> Fatal, UnmatchedBracket |-> Fatal,
            IncompleteConditionExpression |-> Fatal, InvalidIdentifier |-> Fatal, InvalidEndTag |-> Warn,
            UnexpectedCharacter |-> Fatal, DuplicatedName |-> Note, IllegalEntity |-> Error,
            IllegalEscapeSequence |-> Error, EmptyExpression |-> Warn, ShouldQuoted |-> Warn]

Expect(kinds) == [kinds |-> kinds, level |-> CHOOSE l \in 1..4 : \A k \in kinds : LevelOf[k] >= l /\ \E k2 \in kinds : LevelOf[k2] = l]

EA == Id("a")  EB == Id("b")
S(s) == [t |-> "s", s |-> s]
P(e) == [t |-> "e", e |-> e]
File1(root) == << [path |-> "a", imports |-> <<>>, wxs |-> <<>>, defs |-> <<>>, root |-> root] >>
Mark(n, dx) == [x \in {"dx"} \cup DOMAIN n |-> IF x = "dx" THEN dx ELSE n[x]]

(* base shapes: an element somewhere in a context *)
Ctx(n) == { <<n>>, <<Elem("o", <<Attr("plain", "p", EV(EA))>>, <<Text(<<S("t")>>), n>>)>>,
            <<If(<<[c |-> EV(EA), ch |-> <<n>>]>>, TRUE, <<Elem("e", <<>>, <<>>)>>)>>,
            <<For(EV(Id("l")), "item", "index", "", <<n>>)>>, <<Elem("x", <<>>, <<>>), n, Text(<<S("after")>>)>> }
Leafs == { Elem("v", <<Attr("plain", "p", EV(EA))>>, <<Text(<<S("t"), P(EB)>>)>>),
           Elem("v", <<>>, <<Elem("w", <<>>, <<>>)>>),
           Elem("v", <<Attr("class", "", SV("c"))>>, <<>>) }

(* --- missing end tag: the element's end tag is omitted *)
DMissingEnd == UNION {{ [f |-> File1(c), e |-> Expect({"MissingEndTag"}), w |-> "missing end tag"] :
                          c \in Ctx(Mark(n, "noend"))} : n \in {x \in Leafs : x.ch # <<>>} }
(* --- unterminated tag: the source ends inside the start tag *)
DCut == UNION {{ [f |-> File1(c), e |-> Expect({"IncompleteTag"}), w |-> "unterminated tag"] :
                   c \in { <<Mark(n, "cut")>>, <<Elem("x", <<>>, <<>>), Mark(n, "cut")>>,
                           <<Elem("o", <<>>, <<Mark(n, "cut")>>)>> } } : n \in Leafs }
(* --- unterminated END tag: the source ends inside `</name` *)
DCutEnd == UNION {{ [f |-> File1(c), e |-> Expect({"IncompleteTag", "MissingEndTag", "InvalidEndTag"}), w |-> "unterminated end tag"] :
                      c \in { <<Mark(n, "cutend")>>, <<Elem("x", <<>>, <<>>), Mark(n, "cutend")>>,
                              <<Elem("o", <<>>, <<Mark(n, "cutend")>>)>> } } : n \in Leafs }
(* --- unterminated {{ and trailing garbage in a binding, in text and attribute positions *)
BadVals(dx) == { Mark(EV(e), dx) : e \in {EA, Mem(Id("o"), "p"), Bin("+", EA, Lit("1")), Call(Id("f"), <<EA>>),
                                          Arr(<<Item(EA)>>), Cond(EA, EB, Lit("1")),
                                          (* object literals: the garbage stands after the last field, inside the braces or in
                                             the form without braces *)
                                          Obj(<<Named("k", EA)>>), Obj(<<Named("k", EA), Named("j", Lit("1"))>>), Obj(<<Short("a"), Named("k", EB)>>)} }
DUnterminated == UNION {{ [f |-> File1(c), e |-> Expect({"MissingExpressionEnd", "UnexpectedExpressionCharacter"}), w |-> "unterminated {{"] :
                            c \in Ctx(Elem("v", <<Attr(fam, "p", v)>>, <<>>)) \cup {<<Text(<<S("x"), [t |-> "e", e |-> v.e, dx |-> "unterminated"]>>)>>} } :
                          v \in BadVals("unterminated"), fam \in {"plain", "data:", "bind"} }
DGarbage == UNION {{ [f |-> File1(c), e |-> Expect({"UnexpectedExpressionCharacter", "IncompleteConditionExpression", "UnmatchedParenthesis", "UnmatchedBracket"}),
                      w |-> "trailing garbage in a binding"] :
                       c \in Ctx(Elem("v", <<Attr(fam, "p", v)>>, <<>>)) \cup {<<Text(<<S("x"), [t |-> "e", e |-> v.e, dx |-> "garbage"]>>)>>} } :
                     v \in BadVals("garbage"), fam \in {"plain", "class", "wxif"} }
(* --- unknown wx: directive / unknown attribute prefix *)
DPrefix == UNION {{ [f |-> File1(c), e |-> Expect({"InvalidAttributePrefix"}), w |-> "unknown directive or prefix: " \o fam] :
                      c \in Ctx(Elem("v", <<Attr("plain", "p", EV(EA)), Attr(fam, "foo", SV("1"))>>, <<>>)) } :
                    fam \in {"wx:bad", "badprefix", "twoprefix"} }
(* --- duplicated attribute, for every family where a second occurrence is meaningless *)
DupFams == { <<"plain", "p">>, <<"id", "">>, <<"class", "">>, <<"style", "">>, <<"slot", "">>, <<"data:", "k">>, <<"data-", "k">>,
             <<"mark:", "k">>, <<"model:", "v">>, <<"change:", "p">>, <<"worklet:", "w">>, <<"generic:", "g">>,
             <<"extra-attr:", "e">>, <<"slot:", "x">>, <<"class:", "on">>, <<"style:", "color">> }
           \* (not the event families: the same event bound twice registers two listeners - the unit test event_listener pins it)
DDup == UNION {{ [f |-> File1(c), e |-> Expect({"DuplicatedAttribute", "InvalidAttribute"}), w |-> "duplicated attribute " \o fn[1]] :
                   c \in Ctx(Elem("v", <<Attr(fn[1], fn[2], IF fn[1] \in {"worklet:", "generic:", "extra-attr:", "slot:"} THEN SV("s1") ELSE EV(EA)),
                                         Attr(fn[1], fn[2], IF fn[1] \in {"worklet:", "generic:", "extra-attr:"} THEN SV("s2") ELSE IF fn[1] = "slot:" THEN SV("s1") ELSE SV("s2"))>>, <<>>)) } :
                 fn \in DupFams }
        \cup { [f |-> File1(<<Mark(Elem("v", <<>>, <<>>), d)>>), e |-> Expect({"DuplicatedAttribute", "InvalidAttribute"}), w |-> "duplicated " \o d] :
                 d \in {"dup-wx:if", "dup-wx:for", "dup-wx:key", "dup-wx:for-item", "dup-wx:for-index", "dup-is", "dup-data", "dup-src",
                        "dup-module", "dup-name", "dup-slotname", "dup-wx:elif", "dup-wx:else"} }
(* --- children under a childless element; missing src / module / is *)
(* (what the children are must not matter: an element, text, a binding, and each of them after a comment or white space) *)
KidForms == {"elem", "text", "binding", "comment-elem", "comment-text", "ws-elem", "comment-comment-elem", "elem-comment"}
DStruct == { [f |-> File1(<<Mark(Elem("v", <<>>, <<>>), d \o ":" \o k)>>), e |-> Expect({"ChildNodesNotAllowed"}), w |-> d \o " " \o k] :
               d \in {"kids-include", "kids-import", "kids-slot", "kids-template-is"}, k \in KidForms }
           \cup
           { [f |-> File1(<<Mark(Elem("v", <<>>, <<>>), d[1])>>), e |-> Expect(d[2]), w |-> d[1]] :
               d \in { <<"kids-wxs-src", {"ChildNodesNotAllowed"}>>,
                       <<"nosrc-include", {"MissingSourcePath"}>>, <<"nosrc-import", {"MissingSourcePath"}>>,
                       <<"nomodule-wxs", {"MissingModuleName"}>>, <<"nois-template", {"MissingModuleName"}>> } }

DCases == CASE DFamily = "end" -> DMissingEnd [] DFamily = "cut" -> DCut \cup DCutEnd [] DFamily = "unterminated" -> DUnterminated
            [] DFamily = "garbage" -> DGarbage [] DFamily = "prefix" -> DPrefix [] DFamily = "dup" -> DDup
            [] DFamily = "struct" -> DStruct

DInit == \E c \in DCases : files = c.f /\ expect = c.e /\ what = c.w
DNext == UNCHANGED dvars
DSpec == DInit /\ [][DNext]_dvars

(* the table is total and monotone: every expectation names a documented level *)
ExpectSane == expect.level \in 1..4 /\ expect.kinds # {} /\ \A k \in expect.kinds : k \in DOMAIN LevelOf
DEmit == PrintT(<<"CASE", ToJson([files |-> files, expect |-> expect, what |-> what])>>)
=============================================================================
