SPECIFICATION Spec
CONSTANTS
  MaxAlloc = 5
  MaxDepth = 3
INVARIANTS Fresh AllOK
CHECK_DEADLOCK FALSE
