SPECIFICATION Spec
CONSTANT Family = "F5"
INVARIANTS CommentInsensitive BlockInsensitive Emit
CHECK_DEADLOCK FALSE
