SPECIFICATION DSpec
CONSTANT DFamily = "cut"
INVARIANTS ExpectSane DEmit
CHECK_DEADLOCK FALSE
