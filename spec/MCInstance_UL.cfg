SPECIFICATION ISpec
CONSTANTS
  Family = "UL"
  MaxLen = 2
  CoverKinds = {"exact", "true"}
INVARIANTS InstanceInv IEmit
CHECK_DEADLOCK FALSE
