----------------------------- MODULE BindMapOps -----------------------------
(***************************************************************************)
(* The binding-map collector of the template compiler's second pass        *)
(* (`BindingMapCollector`, C07): while the tree is walked, every data      *)
(* field read by a binding the map can reach is REGISTERED (it is handed   *)
(* the next updater slot of that field), every field read where the map    *)
(* cannot reach - a condition, a list, a key, template data, slot values,  *)
(* anything inside a dynamic subtree - is WITHDRAWN, and an `<include>`    *)
(* withdraws the whole map.                                                *)
(*                                                                         *)
(* One action per method of the implementation:                            *)
(*   Add(f)      add_field      -> the slot handed out, or none            *)
(*   Disable(f)  disable_field                                             *)
(*   DisableAll  disable_all                                               *)
(*   List        list_fields    -> what the generated code advertises      *)
(*                                                                         *)
(* A collector is a value [m, off]: m maps a field to its number of slots   *)
(* (>= 1) or to Withdrawn.  The requirement (the compiler's half of C07):   *)
(* what is advertised at the end is a function of the SETS of registered    *)
(* and withdrawn fields, not of the order in which the walk met them -      *)
(* a field withdrawn once stays withdrawn whatever was or will be           *)
(* registered (`Sticky`, `OrderFree`), and the slots of an advertised       *)
(* field are exactly 0 .. n-1 (`Dense`: the runtime runs every slot).       *)
(***************************************************************************)
EXTENDS Naturals, Sequences, FiniteSets

CONSTANT Lenient

Withdrawn == 0
None == 0 - 1

NewCol == [m |-> [f \in {} |-> 0], off |-> FALSE]

Has(c, f) == f \in DOMAIN c.m
Put(m, f, v) == [g \in DOMAIN m \cup {f} |-> IF g = f THEN v ELSE m[g]]

(* add_field: the slot handed out (None for a withdrawn field) and the collector afterwards *)
AddRet(c, f) == IF ~Has(c, f) THEN 0 ELSE IF c.m[f] = Withdrawn THEN None ELSE c.m[f]
AddCol(c, f) == IF ~Has(c, f) THEN [c EXCEPT !.m = Put(c.m, f, 1)]
                ELSE IF c.m[f] = Withdrawn THEN c
                ELSE [c EXCEPT !.m = Put(c.m, f, c.m[f] + 1)]
(* `Lenient` = TRUE models a disable_field that leaves a field alone once it has slots (`entry().or_insert(..)`): TLC then
   exhibits two orders of the same registrations and withdrawals with different maps (config MCBindMapDefect) *)
DisableCol(c, f) == IF Lenient /\ Has(c, f) THEN c ELSE [c EXCEPT !.m = Put(c.m, f, Withdrawn)]
DisableAllCol(c) == [c EXCEPT !.off = TRUE]

(* list_fields: the advertised fields with their slot counts *)
Advertised(c) == IF c.off THEN {} ELSE {f \in DOMAIN c.m : c.m[f] # Withdrawn}
Listing(c) == [f \in Advertised(c) |-> c.m[f]]
=============================================================================
