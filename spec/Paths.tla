-------------------------------- MODULE Paths --------------------------------
(***************************************************************************)
(* Reference resolution of cross-file references (C13).  A path is a       *)
(* sequence of segments; `abs` says the reference starts with "/".         *)
(*   ResolvePath(base, rel, abs): the directory of the referring template      *)
(*   (its normalised path minus the last segment), or the root for an      *)
(*   absolute reference, followed by the reference's segments, where "."   *)
(*   is dropped and ".." removes the previous segment (nothing at the      *)
(*   root).  Empty segments are ordinary segments: the property speaks of  *)
(*   "the template registered under that normalised path", so resolution   *)
(*   and registration only have to normalise identically.                  *)
(***************************************************************************)
EXTENDS Naturals, Sequences

RECURSIVE Walk(_, _)
Walk(acc, segs) ==
    IF segs = <<>> THEN acc
    ELSE LET s == Head(segs) IN
         CASE s = "."  -> Walk(acc, Tail(segs))
           [] s = ".." -> Walk(IF acc = <<>> THEN <<>> ELSE SubSeq(acc, 1, Len(acc) - 1), Tail(segs))
           [] OTHER    -> Walk(Append(acc, s), Tail(segs))

Normalize(p) == Walk(<<>>, p)
DirOf(p) == IF p = <<>> THEN <<>> ELSE SubSeq(p, 1, Len(p) - 1)

ResolvePath(base, rel, abs) ==
    IF abs THEN Walk(<<>>, rel) ELSE Walk(DirOf(Normalize(base)), rel)

RECURSIVE JoinPath(_)
JoinPath(p) == IF p = <<>> THEN "" ELSE IF Len(p) = 1 THEN p[1] ELSE p[1] \o "/" \o JoinPath(Tail(p))

(* laws *)
NoDots(p)   == \A i \in 1..Len(p) : p[i] \notin {".", ".."}
PathIdempotent(base, rel, abs) == Normalize(ResolvePath(base, rel, abs)) = ResolvePath(base, rel, abs)
NeverAboveRoot(base, rel, abs) == NoDots(ResolvePath(base, rel, abs))
AbsIgnoresBase(b1, b2, rel) == ResolvePath(b1, rel, TRUE) = ResolvePath(b2, rel, TRUE)
DotIsIdentity(base, rel, abs) == ResolvePath(base, <<".">> \o rel, abs) = ResolvePath(base, rel, abs)
=============================================================================
