SPECIFICATION Spec
CONSTANT Family = "F6"
INVARIANTS Stutter Idempotent Emit
CHECK_DEADLOCK FALSE
