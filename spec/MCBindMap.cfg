SPECIFICATION MCSpec
CONSTANTS
  Fields = {"a", "b", "c"}
  MaxOps = 7
  Lenient = FALSE
INVARIANTS OrderFree Dense
PROPERTY Sticky
CHECK_DEADLOCK FALSE
