SPECIFICATION Spec
INVARIANTS RoundTrip ParenInsensitive Emit
CHECK_DEADLOCK FALSE
