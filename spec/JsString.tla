------------------------------- MODULE JsString -------------------------------
(***************************************************************************)
(* JavaScript's string-literal reader as a state machine over character    *)
(* classes (ECMA-262 §12.9.4), in sloppy and strict mode, and the          *)
(* round-trip law for the literal encoder (C12, C02):                      *)
(*        Decode(Encode(s)) = s   for every s in Class^(<= MaxLen)         *)
(* `Forms` is *observed*: for a representative of every class, the         *)
(* sequence of output symbols the real gen_lit_str produced (through the   *)
(* cfg-guarded hook), lexed by the harness.  Output symbols:               *)
(*   "BS" backslash, "DQ", "SQ", "x", "u", "LB" {, "RB" }, "0", "d" 1-7,   *)
(*   "9" 8-9, "h" a-f, "n" one of n t r b f v, "l" other letter,           *)
(*   "LF" "CR" "LS" raw line terminators, "P" other printable, "A" astral, *)
(*   "C" raw control character, <<"HX", c>> two hex digits denoting class  *)
(*   c, <<"HU", c>> hex digits of class c (inside \u{} or \uXXXX).         *)
(***************************************************************************)
EXTENDS Naturals, Sequences, TLC, Json, IOUtils

CONSTANT MaxLen
Classes == {"NUL", "DIG0", "DIG7", "DIG9", "HEX", "LETX", "LETU", "LETN", "LET", "DQ", "SQ", "BS", "LF", "CR", "LS", "CTRL",
            "DEL", "PRINT", "ASTRAL", "LBRACE", "RBRACE"}
Forms == JsonDeserialize(IOEnv.VERIF_FORMS)       \* class -> Seq(symbol)

RECURSIVE EncodeFrom(_, _)
EncodeFrom(s, i) == IF i > Len(s) THEN <<>> ELSE Forms[s[i]] \o EncodeFrom(s, i + 1)
Encode(s) == EncodeFrom(s, 1)

(* raw symbol -> the class it denotes when read outside an escape; a symbol is a record [k] or [k, c] *)
RawClass(y) == CASE y = "DQ" -> "DQ" [] y = "SQ" -> "SQ" [] y = "x" -> "LETX" [] y = "u" -> "LETU" [] y = "LB" -> "LBRACE"
                 [] y = "RB" -> "RBRACE" [] y = "0" -> "DIG0" [] y = "d" -> "DIG7" [] y = "9" -> "DIG9" [] y = "h" -> "HEX"
                 [] y = "n" -> "LETN" [] y = "l" -> "LET" [] y = "P" -> "PRINT" [] y = "A" -> "ASTRAL" [] y = "C" -> "CTRL"
                 [] y = "LS" -> "LS" [] y = "DEL" -> "DEL" [] OTHER -> "?"
IsDigitSym(y) == y \in {"0", "d", "9"}

(* the reader: returns [ok, v]; a double-quoted literal *)
RECURSIVE Dec(_, _, _)
Dec(o, strict, acc) ==
    IF o = <<>> THEN [ok |-> TRUE, v |-> acc]
    ELSE LET y == Head(o).k  r == Tail(o) IN
      IF y \in {"LF", "CR"} THEN [ok |-> FALSE, v |-> acc]          \* raw line terminator: unterminated literal
      ELSE IF y = "DQ" THEN [ok |-> FALSE, v |-> acc]               \* unescaped closing quote
      ELSE IF y # "BS" THEN Dec(r, strict, Append(acc, RawClass(y)))
      ELSE IF r = <<>> THEN [ok |-> FALSE, v |-> acc]
      ELSE LET e == Head(r).k  rr == Tail(r) IN
        CASE e = "DQ" -> Dec(rr, strict, Append(acc, "DQ"))
          [] e = "SQ" -> Dec(rr, strict, Append(acc, "SQ"))
          [] e = "BS" -> Dec(rr, strict, Append(acc, "BS"))
          [] e = "n"  -> Dec(rr, strict, Append(acc, "LF/CR/TAB"))   \* \n \r \t ...: decided by the harness per char
          [] e = "0"  -> IF rr # <<>> /\ IsDigitSym(Head(rr).k)
                         THEN (IF strict THEN [ok |-> FALSE, v |-> acc] ELSE Dec(Tail(rr), strict, Append(acc, "OCTAL")))
                         ELSE Dec(rr, strict, Append(acc, "NUL"))
          [] e = "d"  -> IF strict THEN [ok |-> FALSE, v |-> acc] ELSE Dec(rr, strict, Append(acc, "OCTAL"))
          [] e = "9"  -> IF strict THEN [ok |-> FALSE, v |-> acc] ELSE Dec(rr, strict, Append(acc, "DIG9"))
          [] e = "x"  -> IF rr # <<>> /\ Head(rr).k = "HX"
                         THEN Dec(Tail(rr), strict, Append(acc, Head(rr).c)) ELSE [ok |-> FALSE, v |-> acc]
          [] e = "u"  -> IF rr # <<>> /\ Head(rr).k = "LB"
                         THEN (IF Len(rr) >= 3 /\ rr[2].k = "HU" /\ rr[3].k = "RB"
                               THEN Dec(SubSeq(rr, 4, Len(rr)), strict, Append(acc, rr[2].c)) ELSE [ok |-> FALSE, v |-> acc])
                         ELSE IF rr # <<>> /\ Head(rr).k = "HU4"
                         THEN Dec(Tail(rr), strict, Append(acc, Head(rr).c)) ELSE [ok |-> FALSE, v |-> acc]
          [] e \in {"LF", "CR", "LS"} -> Dec(rr, strict, acc)                         \* line continuation
          [] OTHER -> Dec(rr, strict, Append(acc, RawClass(e)))                       \* identity escape
Decode(o, strict) == Dec(o, strict, <<>>)

(* the classes \n \r stand for themselves: the encoder's named escapes are checked per character by
   the harness; here they are transparent *)
Norm(c) == IF c \in {"LF", "CR"} THEN "LF/CR/TAB" ELSE c
NormSeq(s) == [i \in 1..Len(s) |-> Norm(s[i])]

VARIABLES s, strict
vars == <<s, strict>>
Init == s \in UNION {[1..n -> Classes] : n \in 1..MaxLen} /\ strict \in BOOLEAN
Next == UNCHANGED vars
Spec == Init /\ [][Next]_vars

RoundTrip == LET d == Decode(Encode(s), strict) IN d.ok /\ NormSeq(d.v) = NormSeq(s)
=============================================================================
