SPECIFICATION Spec
CONSTANT Family = "F4"
INVARIANTS CommentInsensitive BlockInsensitive Emit
CHECK_DEADLOCK FALSE
