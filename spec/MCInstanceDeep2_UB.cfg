SPECIFICATION ISpec
CONSTANTS
  Family = "UB"
  MaxLen = 2
  CoverKinds = {"exact", "coarse", "true"}
INVARIANTS InstanceInv IEmit
CHECK_DEADLOCK FALSE
