SPECIFICATION ISpec
CONSTANTS
  Family = "UC"
  MaxLen = 1
  CoverKinds = {"exact", "coarse", "true"}
INVARIANTS InstanceInv IEmit
CHECK_DEADLOCK FALSE
