SPECIFICATION Spec
CONSTANTS
  MaxNum = 5
  MaxStr = 4
INVARIANTS Sane Emit
CHECK_DEADLOCK FALSE
