SPECIFICATION TraceSpec
CONSTANTS
  Lenient = FALSE
POSTCONDITION Accepted
CHECK_DEADLOCK FALSE
