SPECIFICATION Spec
CONSTANTS
  MaxLen = 120
INVARIANTS TypeOK EmitWalk
CHECK_DEADLOCK FALSE
