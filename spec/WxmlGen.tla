------------------------------- MODULE WxmlGen -------------------------------
(***************************************************************************)
(* C01 - input generator for the template compiler, as a state machine     *)
(* over the lexical contexts of WXML.  One step emits one lexical class    *)
(* and moves to the context a reader would be in afterwards; every prefix  *)
(* of every path is itself an input (end of input in every context).       *)
(* The property quantifies over all strings, so no path is "invalid": the  *)
(* machine only steers the enumeration into the deep contexts (attribute   *)
(* values, bindings, operators, end tags, comments, wxs bodies) within few *)
(* steps, and it offers in every context the classes that do NOT belong    *)
(* there (stray closers, junk, non-ASCII white space, NUL, astral          *)
(* characters, end of input).                                              *)
(*                                                                         *)
(* Lex maps each class to its lexemes; the harness spells a path by        *)
(* choosing one lexeme per step (all lexemes of a class are cycled         *)
(* through) and substituting the ~XX~ placeholders, which stand for        *)
(* characters TLA+ strings cannot hold.                                    *)
(***************************************************************************)
EXTENDS Naturals, Sequences, FiniteSets, TLC, Json

CONSTANT MaxLen

VARIABLES ctx,     \* lexical context after the path
          ret,     \* context a binding `{{` returns to at `}}`
          path     \* the emitted classes, as <<context, class>> pairs
vars == <<ctx, ret, path>>

Lex == [
  txt      |-> <<"a", "hello world", "A-b_1", "0", "wx", "&">>,
  ws       |-> <<" ", "\n", "\t", "\r\n", "   ", "\f">>,
  uws      |-> <<"~NBSP~", "~LSEP~", "~IDSP~", "~NEL~", "~ZWSP~", "~BOM~", "~VT~", "~ENSP~">>,
  odd      |-> <<"~NUL~", "~ASTRAL~", "~COMB~", "~RTL~", "~DEL~", "~ESC~", "~PUA~", "~MAXCP~">>,
  lt       |-> <<"<">>,
  ltslash  |-> <<"</">>,
  gt       |-> <<">">>,
  selfclose|-> <<"/>">>,
  slash    |-> <<"/">>,
  cmtopen  |-> <<"<!--", "<!", "<!-", "<!DOCTYPE html>", "<?xml?>", "<![CDATA[">>,
  metaopen |-> <<"<!DOCTYPE", "<!META", "<!a", "<!doctype html PUBLIC", "<!A-b">>,      \* unknown meta tags: an attribute loop of their own
  cmtclose |-> <<"-->", "--!>", "->">>,
  dash     |-> <<"-", "--", "---">>,
  open2    |-> <<"{{", "{{{", "{ {", "{">>,
  close2   |-> <<"}}", "}}}", "} }", "}">>,
  ent      |-> <<"&amp;", "&lt;", "&#65;", "&#x41;", "&bogus;", "&#xFFFFFFFF;", "&#99999999999;", "&#;", "&#x;", "&amp", "&;",
                 "&#0;", "&#xD800;", "&#1114112;", "&nbsp;", "&NotEqualTilde;",
                 (* a name that goes on with letters and digits outside ASCII (no reference at all: `Q&A..;` in running text) *)
                 "&A~UIDENT~;", "&a~COMB~;", "&x~UDIGIT~;", "&ab~UIDENT~;", "&~UIDENT~;", "&#~UDIGIT~;", "&#x~UDIGIT~;">>,
  name     |-> <<"div", "view", "block", "template", "slot", "import", "include", "wxs", "wx-x", "a:b", "A", "a.b", "_", "a1">>,
  badname  |-> <<"1", "-", ".", ":", "!", "?", "=", "\"", "'", "#", "%", "@", "*", "\\", "`", "$", "(", ")", "[", "]", ",", ";", "+", "|", "^", "~">>,
  attr     |-> <<"a", "class", "style", "id", "slot", "hidden", "wx:if", "wx:elif", "wx:else", "wx:for", "wx:for-item", "wx:for-index",
                 "wx:key", "wx:bogus", "bind:tap", "bindtap", "catch:x", "capture-bind:x", "mut-bind:x", "capture-mut-bind:x", "capture-catch:x",
                 "model:value", "change:prop", "data:x", "data-x", "mark:m", "slot:a", "slot:a-b", "generic:g", "extra-attr:e", "worklet:w",
                 "class:a", "style:b", "let:x", "is", "name", "src", "module", "data", "bogus:x", "a:b:c", "wx:", ":a", "bind:", "A-B", "xmlns:x">>,
  eq       |-> <<"=">>,
  dq       |-> <<"\"">>,
  sq       |-> <<"'">>,
  bare     |-> <<"abc", "1", "a{{b}}", "{{a}}", "a/b", "`x`", "a=b">>,
  colon    |-> <<":">>,
  ident    |-> <<"a", "b1", "_", "$", "true", "false", "null", "undefined", "this", "typeof", "void", "in", "instanceof", "new", "function",
                 "index", "item", "NaN", "Infinity", "~UIDENT~", "a~ZWSP~b">>,
  num      |-> <<"0", "1", "12", ".5", "5.", "1e3", "1e", "1e-", "1e-3", "1E3", "1e+3", "0x1F", "0xg", "0xG", "0x", "0xz1", "0X1F", "017", "08", "09.5",
                 "0o17", "0b11", "1_000", "1n", "0.", "0.e1", "00", "0e0", "1.2.3", "1..2", "..1", "1.e3",
                 "9223372036854775807", "9223372036854775808", "99999999999999999999", "123456789012345678901234567890",
                 "0x7fffffffffffffff", "0x8000000000000000", "0xffffffffffffffff", "0xfffffffffffffffffffffffffffffffffff",
                 "0777777777777777777777", "01000000000000000000000", "01777777777777777777777", "07777777777777777777777777777",
                 "1e308", "1e309", "1e-324", "1e99999", "1e-99999", "0.00000000000000000000000000000000000001",
                 "1a", "1_", "0xfg", "017a", "018", "1e3a", "1.5px">>,
  str      |-> <<"'s'", "\"s\"", "''", "'a\\'b'", "'\\n'", "'\\x41'", "'\\u0041'", "'\\u{1F600}'", "'\\u{110000}'", "'\\u{}'", "'\\u{FFFFFFFFF}'",
                 "'\\x4'", "'\\xZZ'", "'\\u12'", "'\\uD800'", "'\\'", "'abc", "'\\", "'\\u{41'", "'\\0'", "'\\08'", "'\\q'", "'a\nb'", "'~ASTRAL~'",
                 "'~NUL~'", "'{{'", "'}}'", "`t`", "`${a}`">>,
  unop     |-> <<"!", "-", "+", "~", "typeof ", "void ", "--", "++", "!!", "- -", "new ", "delete ", "await ">>,
  binop    |-> <<"+", "-", "*", "/", "%", "**", "<", ">", "<=", ">=", "==", "!=", "===", "!==", "&&", "||", "??", "&", "|", "^", "<<", ">>", ">>>",
                 " in ", " instanceof ", "=", "+=", "=>", "|>", "?.", "??=", "<=>", "<!--", "//", "/*">>,
  quest    |-> <<"?">>,
  dot      |-> <<".", "?.", "..", "...">>,
  lparen   |-> <<"(">>,
  rparen   |-> <<")">>,
  lbrack   |-> <<"[">>,
  rbrack   |-> <<"]">>,
  lbrace   |-> <<"{", "{a:", "{a,", "{...", "{'k':", "{1:", "{[a]:", "{a:1,", "{a:{b:">>,
  rbrace   |-> <<"}">>,
  comma    |-> <<",", ",,", ", ,">>,
  spread   |-> <<"...">>,
  jscmt    |-> <<"/* c */", "/**/", "/*", "/* *", "// c", "//", "/* }} */", "/*/">>,
  junk     |-> <<"#", "@", "\\", "`", ";", "$", "~UJUNK~">>,
  wxsopen  |-> <<"wxs module=\"m\">", "wxs module=\"m\" src=\"./s\">", "wxs>", "wxs module='m' >", "wxs module=\"{{m}}\">", "wxs module=\"m\"/>", "wxs module=\"1\">">>,
  js       |-> <<"var a = 1;", "module.exports = { f: function(x){ return x } };", "\"</wxs\"", "// c", "/* </wxs> */", "</wx", "<", "</", "</wxs", "</wxs ", "{{", "<!--",
                 "'", "\"", "`", "\\", "~ASTRAL~", "~NUL~", "~LSEP~">>,
  wxsclose |-> <<"</wxs>", "</wxs >", "</wxs\n>", "</WXS>", "</wxs a>">>,
  endattr  |-> <<"a=\"b\"", "a", "/", "=">>
]

Classes == DOMAIN Lex

(* transitions: context -> set of <<class, next context>>.  "RET" stands for the context in ret. *)
T == [
  Text |-> { <<"txt", "Text">>, <<"ws", "Text">>, <<"uws", "Text">>, <<"odd", "Text">>, <<"lt", "TagOpen">>, <<"ltslash", "EndTag">>,
             <<"cmtopen", "Comment">>, <<"open2", "Operand">>, <<"ent", "Text">>, <<"gt", "Text">>, <<"close2", "Text">>, <<"junk", "Text">>,
             <<"metaopen", "InTag">> },
  TagOpen |-> { <<"name", "InTag">>, <<"wxsopen", "WxsBody">>, <<"badname", "InTag">>, <<"ws", "InTag">>, <<"uws", "InTag">>, <<"odd", "InTag">>,
                <<"gt", "Text">>, <<"slash", "InTag">>, <<"lt", "TagOpen">>, <<"open2", "Operand">>, <<"selfclose", "Text">> },
  InTag |-> { <<"ws", "InTag">>, <<"uws", "InTag">>, <<"odd", "InTag">>, <<"attr", "AfterName">>, <<"colon", "InTag">>, <<"eq", "AfterEq">>,
              <<"gt", "Text">>, <<"selfclose", "Text">>, <<"slash", "InTag">>, <<"dq", "AttrDQ">>, <<"sq", "AttrSQ">>, <<"badname", "InTag">>,
              <<"open2", "Operand">>, <<"lt", "TagOpen">>, <<"ltslash", "EndTag">>, <<"junk", "InTag">> },
  AfterName |-> { <<"eq", "AfterEq">>, <<"ws", "InTag">>, <<"uws", "InTag">>, <<"odd", "InTag">>, <<"gt", "Text">>, <<"selfclose", "Text">>,
                  <<"colon", "InTag">>, <<"dq", "AttrDQ">>, <<"badname", "InTag">>, <<"lt", "TagOpen">>, <<"open2", "Operand">> },
  AfterEq |-> { <<"dq", "AttrDQ">>, <<"sq", "AttrSQ">>, <<"ws", "AfterEq">>, <<"uws", "AfterEq">>, <<"odd", "InTag">>, <<"bare", "InTag">>,
                <<"open2", "Operand">>, <<"gt", "Text">>, <<"selfclose", "Text">>, <<"eq", "AfterEq">>, <<"lt", "TagOpen">>, <<"badname", "InTag">> },
  AttrDQ |-> { <<"txt", "AttrDQ">>, <<"ws", "AttrDQ">>, <<"uws", "AttrDQ">>, <<"odd", "AttrDQ">>, <<"open2", "Operand">>, <<"dq", "InTag">>,
               <<"sq", "AttrDQ">>, <<"lt", "AttrDQ">>, <<"gt", "AttrDQ">>, <<"ent", "AttrDQ">>, <<"close2", "AttrDQ">>, <<"junk", "AttrDQ">> },
  AttrSQ |-> { <<"txt", "AttrSQ">>, <<"ws", "AttrSQ">>, <<"uws", "AttrSQ">>, <<"open2", "Operand">>, <<"sq", "InTag">>, <<"dq", "AttrSQ">>,
               <<"ent", "AttrSQ">>, <<"close2", "AttrSQ">>, <<"gt", "AttrSQ">> },
  Operand |-> { <<"ident", "Operator">>, <<"num", "Operator">>, <<"str", "Operator">>, <<"unop", "Operand">>, <<"lparen", "Operand">>,
                <<"lbrack", "Operand">>, <<"lbrace", "Operand">>, <<"spread", "Operand">>, <<"close2", "RET">>, <<"ws", "Operand">>,
                <<"uws", "Operand">>, <<"odd", "Operand">>, <<"jscmt", "Operand">>, <<"rparen", "Operator">>, <<"rbrack", "Operator">>,
                <<"rbrace", "Operator">>, <<"comma", "Operand">>, <<"junk", "Operand">>, <<"binop", "Operand">>, <<"dq", "RETQ">>,
                <<"gt", "Operand">>, <<"lt", "Operand">>, <<"quest", "Operand">>, <<"colon", "Operand">>, <<"dot", "Member">> },
  Operator |-> { <<"binop", "Operand">>, <<"quest", "Operand">>, <<"colon", "Operand">>, <<"dot", "Member">>, <<"lbrack", "Operand">>,
                 <<"lparen", "Operand">>, <<"rparen", "Operator">>, <<"rbrack", "Operator">>, <<"rbrace", "Operator">>, <<"comma", "Operand">>,
                 <<"close2", "RET">>, <<"ws", "Operator">>, <<"uws", "Operator">>, <<"odd", "Operator">>, <<"jscmt", "Operator">>,
                 <<"ident", "Operator">>, <<"num", "Operator">>, <<"str", "Operator">>, <<"junk", "Operator">>, <<"dq", "RETQ">>,
                 <<"unop", "Operand">>, <<"lbrace", "Operand">>, <<"open2", "Operand">> },
  Member |-> { <<"ident", "Operator">>, <<"num", "Operator">>, <<"str", "Operator">>, <<"ws", "Member">>, <<"uws", "Member">>, <<"junk", "Operator">>,
               <<"dot", "Member">>, <<"lbrack", "Operand">>, <<"lparen", "Operand">>, <<"close2", "RET">>, <<"jscmt", "Member">>, <<"odd", "Operator">> },
  EndTag |-> { <<"name", "EndTagAfter">>, <<"ws", "EndTag">>, <<"uws", "EndTag">>, <<"odd", "EndTagAfter">>, <<"gt", "Text">>, <<"badname", "EndTagAfter">>,
               <<"lt", "TagOpen">>, <<"slash", "EndTag">>, <<"open2", "Operand">> },
  EndTagAfter |-> { <<"gt", "Text">>, <<"ws", "EndTagAfter">>, <<"uws", "EndTagAfter">>, <<"odd", "EndTagAfter">>, <<"endattr", "EndTagAfter">>,
                    <<"lt", "TagOpen">>, <<"selfclose", "Text">>, <<"ltslash", "EndTag">> },
  Comment |-> { <<"txt", "Comment">>, <<"dash", "Comment">>, <<"cmtclose", "Text">>, <<"gt", "Comment">>, <<"open2", "Comment">>, <<"uws", "Comment">>,
                <<"odd", "Comment">>, <<"cmtopen", "Comment">>, <<"lt", "Comment">> },
  WxsBody |-> { <<"js", "WxsBody">>, <<"wxsclose", "Text">>, <<"ws", "WxsBody">>, <<"uws", "WxsBody">>, <<"ltslash", "EndTag">>, <<"cmtclose", "WxsBody">> }
]

Contexts == DOMAIN T

Init == ctx = "Text" /\ ret = "Text" /\ path = <<>>

(* the context a quote inside a binding falls back to: the binding was inside an attribute value *)
Step(c, cl, nx) ==
    /\ ctx = c
    /\ Len(path) < MaxLen
    /\ path' = Append(path, <<c, cl>>)
    /\ IF cl = "open2" /\ nx = "Operand" /\ c \notin {"Operand", "Operator", "Member"}
       THEN ret' = (IF c \in {"AttrDQ", "AttrSQ", "Text", "InTag"} THEN c ELSE "InTag")
       ELSE ret' = ret
    /\ ctx' = CASE nx = "RET" -> ret
                [] nx = "RETQ" -> "InTag"
                [] OTHER -> nx

Next == \E c \in Contexts : \E t \in T[c] : Step(c, t[1], t[2])

Spec == Init /\ [][Next]_vars

-----------------------------------------------------------------------------
(* the machine is well-formed: classes exist, contexts exist, every context is left by some class and every
   context can return to Text (so that a well-formed completion of every prefix exists) *)
TableOK == /\ \A c \in Contexts : \A t \in T[c] : t[1] \in Classes /\ t[2] \in Contexts \cup {"RET", "RETQ"}
           /\ \A cl \in Classes : Len(Lex[cl]) >= 1
           /\ \A cl \in Classes : \E c \in Contexts : \E t \in T[c] : t[1] = cl
RECURSIVE Reach(_, _)
Succ(c) == {IF t[2] \in {"RET", "RETQ"} THEN "InTag" ELSE t[2] : t \in T[c]} \cup (IF \E t \in T[c] : t[2] = "RET" THEN {"Text", "AttrDQ", "AttrSQ"} ELSE {})
Reach(S, n) == IF n = 0 THEN S ELSE Reach(S \cup UNION {Succ(c) : c \in S}, n - 1)
Connected == \A c \in Contexts : "Text" \in Reach({c}, Cardinality(Contexts)) /\ c \in Reach({"Text"}, Cardinality(Contexts))
ASSUME TableOK /\ Connected

TypeOK == ctx \in Contexts /\ ret \in {"Text", "AttrDQ", "AttrSQ", "InTag"} /\ Len(path) <= MaxLen

ASSUME PrintT(<<"TABLE", ToJson([lex |-> Lex])>>)
Emit == PrintT(<<"CASE", ToJson([p |-> path])>>)
EmitWalk == Len(path) = MaxLen => PrintT(<<"WALK", ToJson([p |-> path])>>)
=============================================================================
