SPECIFICATION Spec
CONSTANT Family = "F1"
INVARIANTS Stutter Idempotent Emit
CHECK_DEADLOCK FALSE
