SPECIFICATION Spec
CONSTANTS
  Family = "host"
  Scale = "thorough"
INVARIANTS BalancedBoth Partition Emit
CHECK_DEADLOCK FALSE
