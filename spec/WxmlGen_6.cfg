SPECIFICATION Spec
CONSTANTS
  MaxLen = 6
INVARIANTS TypeOK Emit
CHECK_DEADLOCK FALSE
