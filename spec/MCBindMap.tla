------------------------------ MODULE MCBindMap ------------------------------
(* every interleaving of registrations and withdrawals of three fields, up to MaxOps operations *)
EXTENDS BindMap
CONSTANT MaxOps
VARIABLE n
MCInit == Init /\ n = 0
MCNext == n < MaxOps /\ n' = n + 1 /\ (Next \/ DisableAll)
MCSpec == MCInit /\ [][MCNext]_<<bvars, n>>
=============================================================================
