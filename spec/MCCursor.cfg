SPECIFICATION Spec
CONSTANTS
  MaxLen = 3
  MaxDepth = 2
  MaxSteps = 5
CONSTRAINT Bound
INVARIANTS TypeOK PosInv SavedInv HereInText DoneInv WarnEnabled
PROPERTY Mono
CHECK_DEADLOCK FALSE
