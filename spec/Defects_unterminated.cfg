SPECIFICATION DSpec
CONSTANT DFamily = "unterminated"
INVARIANTS ExpectSane DEmit
CHECK_DEADLOCK FALSE
