------------------------------- MODULE WxmlTags -------------------------------
(***************************************************************************)
(* C01 (and the diagnostics of C15) - structural directive combinations.   *)
(* The lexeme machine WxmlGen reaches single attributes within its length  *)
(* bound, not combinations of complete directives; this family enumerates  *)
(* them: an element of every kind carrying every set of up to MaxDirs      *)
(* structural directives, in every sibling / parent context that gives a   *)
(* directive its meaning (after an if / elif branch, inside a list, inside *)
(* a template definition, as slot content, ...), self-closed or with       *)
(* content.  Most combinations are ill-formed on purpose: the compilers    *)
(* must answer each with diagnostics and a best-effort result.             *)
(***************************************************************************)
EXTENDS Naturals, Sequences, FiniteSets, TLC, Json

CONSTANTS MaxDirs

Kinds == {"a", "block", "template", "slot", "include", "import", "wxs", "c"}
Dirs  == {"wx:if", "wx:elif", "wx:else", "wx:for", "wx:key", "wx:for-item", "slot", "slot:x", "is", "name", "data", "src", "module",
          "generic:g", "model:v", "wx:bogus"}
Contexts == {"none", "afterIf", "afterElif", "afterElse", "afterFor", "afterText", "afterComment", "inFor", "inIf", "inTemplateDef",
             "inSlotHost", "inSlot", "inInclude", "inWxs", "afterIfWs"}
Forms == {"self", "content", "unclosed", "nested"}

VARIABLES ctx, kind, dirs, form
vars == <<ctx, kind, dirs, form>>

Init == /\ ctx \in Contexts /\ kind \in Kinds /\ form \in Forms
        /\ dirs \in {d \in SUBSET Dirs : Cardinality(d) <= MaxDirs}
Next == UNCHANGED vars
Spec == Init /\ [][Next]_vars

TypeOK == Cardinality(dirs) <= MaxDirs
Emit == PrintT(<<"CASE", ToJson([ctx |-> ctx, kind |-> kind, dirs |-> dirs, form |-> form])>>)
=============================================================================
