------------------------------- MODULE CssGen --------------------------------
(***************************************************************************)
(* C01 - input generator for the stylesheet compiler: a state machine over *)
(* the syntactic contexts of a stylesheet (top level, selector, at-rule    *)
(* prelude, declaration list, value, inside parentheses).  One step emits  *)
(* one lexical class; every prefix of every path is an input.  As in       *)
(* WxmlGen no path is invalid: every context also offers what does not     *)
(* belong there (stray closers, unterminated strings / urls / comments,    *)
(* bad escapes, CDO/CDC, NUL, end of input).                               *)
(***************************************************************************)
EXTENDS Naturals, Sequences, FiniteSets, TLC, Json

CONSTANT MaxLen

VARIABLES ctx, ret, path
vars == <<ctx, ret, path>>

Lex == [
  selstart |-> <<".a", "#i", "div", "*", "&", ":host", ":HOST", "::before", ":hover", "[x]", "[x=y]", "[x=\"y\" i]", ".~UIDENT~", ".\\31 a", ".a\\", ".-", ".--x",
                 ".1a", ". a", "..a", "#", ":", "::", ".a.b", "a|b", "*|*", ".\\", ".a\\~NUL~", "~ASTRAL~", ".host", ":host.a", ":host:hover", ":host>a">>,
  selfunc  |-> <<":not(", ":is(", ":where(", ":has(", ":host(", "::slotted(", ":nth-child(", ":host-context(", "f(", ":NOT(", ":-x(", ":not( ">>,
  comb     |-> <<" ", ">", "+", "~", ",", "||", "|", " > ", " + ", ">>", "- ", " -", "-">>,
  lbrace   |-> <<"{">>,
  rbrace   |-> <<"}">>,
  lparen   |-> <<"(">>,
  rparen   |-> <<")">>,
  lbrack   |-> <<"[">>,
  rbrack   |-> <<"]">>,
  semi     |-> <<";", ";;">>,
  colon    |-> <<":", "::", ": ">>,
  comma    |-> <<",">>,
  at       |-> <<"@media ", "@supports ", "@layer ", "@container ", "@scope ", "@document ", "@starting-style", "@font-face", "@keyframes k", "@page :first",
                 "@property --x", "@charset \"utf-8\"", "@namespace svg url(x)", "@unknown", "@", "@-x", "@\\", "@import ", "@IMPORT ", "@import", "@media",
                 "@layer a, b", "@layer", "@font-feature-values f", "@counter-style c", "@~UIDENT~", "@media screen and ", "@supports not ", "@import;", "@import{">>,
  importarg|-> <<"'a'", "\"a b\"", "url(a)", "url(\"a\")", "url(", "url(a b)", "'unterminated", "layer", "layer(x)", "layer(x.y)", "layer(", "LAYER",
                 "supports(display:grid)", "supports(", "supports(.a{})", "screen", "(min-width:1rpx)", "and", "not all", "'*/'", "'~ASTRAL~%20 %'", "''",
                 "url()", "url('')", "'a' 'b'", "layer layer", "supports(a) supports(b)", "\"\\\"\"", "'a\nb'">>,
  importstmt |-> <<"@import 'a';", "@import \"a b\" layer(x);", "@import url(a) Layer(x);", "@import 'a' LAYER(x) supports(a:b);", "@import 'a' SUPPORTS(a:b) screen;",
                 "@import 'a' Supports((a:b) and (c:d)) print and (min-width:1rpx);", "@IMPORT 'a' layer;", "@Import url(\"a\") LAYER;", "@import 'a' layer( x ) supports( (a:b) );",
                 "@import 'a' layer(;", "@import 'a' supports(;", "@import layer(x);", "@import 'a' layer(x) layer(y);", "@import 'a' supports(a:b) layer(b);", "@import 'a' x(y);",
                 "@import 'a' layer(x) supports(a:b) supports(c:d) screen;", "@import 'a' URL(b);", "@import 'a' layer(x)screen", "@import 'a' supports(a:b){}", "@import 'a' (a:b) layer(x);",
                 "@import 'a' not all and (color), print;", "@import url( 'a' ) layer(x.y) supports(selector(.a > .b));", "@import 'a' layer(~UIDENT~);", "@import 'a' Layer;",
                 "@import 'a' supports(font-format(woff2)) SCREEN;", "@import 'a' layer() ;", "@import 'a' supports() ;", "@import 'a'layer(x);", "@import\n'a'\nlayer(x)\n;">>,
  prop     |-> <<"color", "width", "--x", "-", "--", "*zoom", "_height", "1", "~UIDENT~", "\\", "COLOR", "a b", "a.b", "!x", "$v", "@x", "">>,
  num      |-> <<"1rpx", "-0rpx", "+.5rpx", "1e3rpx", "1e999rpx", "1e-999rpx", "2147483648rpx", "-2147483649rpx", "1RPX", "1rpx2", "1\\72px", "1r\\70x", "0", "1", "-1", "+1",
                 "1.5", "100%", "1e", "1e+", ".", "+", "1px", "1e3e", "1e-", "99999999999999999999999999999999999999999", "1--x", "1e39rpx", "-1e39%", "0.0000000000000000000000000000000000000000000001rpx",
                 "1.rpx", "1e1.5rpx", "0x10rpx", "1rpx%", "NaNrpx", "infinityrpx", "1e+308%", "2147483647", "2147483648", "-2147483648">>,
  valtok   |-> <<"red", "#fff", "#", "\"s\"", "'s'", "\"unterminated", "\"a\\", "url(x)", "url( \"x\" )", "url(x y)", "url(", "url(\\", "url(x'y)", "u+26", "U+0-7F", "U+??????", "U+",
                 "U+110000", "U+1-0", "!important", "!", "! important", "!IMPORTANT", "/", "*", "%", "<!--", "-->", "\\", "\\0", "\\110000 ", "\\\n", "\\41 ", "=", "~=", "|=", "^=", "$=", "*=",
                 "#\\", "--", "-->x", "<!-", "$", "`", "?", "\"\n\"", "'\\\n'", "\"~NUL~\"", "progid:DXImageTransform.Microsoft.gradient(startColorstr='#80000000')",
                 "expression(a+b)", "a:b", "{}", "[]", "()">>,
  func     |-> <<"calc(", "var(", "min(", "rgb(", "url(", "f(", "env(", "CALC(", "-webkit-calc(", "calc( ", "calc((", "calc(calc(", "translate(", "attr(", "image-set(">>,
  cmt      |-> <<"/* c */", "/**/", "/*", "/* } */", "*/", "/*/", "/* /* */", "//", "/* ~ASTRAL~ */", "/*\n*/">>,
  ws       |-> <<" ", "\n", "\t", "\r\n", "\f", "   ", "\r">>,
  uws      |-> <<"~NBSP~", "~LSEP~", "~IDSP~", "~NEL~", "~ZWSP~", "~BOM~">>,
  odd      |-> <<"~NUL~", "~ASTRAL~", "~COMB~", "~RTL~", "~DEL~", "~ESC~", "~PUA~", "~MAXCP~", "~VT~">>
]

Classes == DOMAIN Lex

Common(c) == { <<"cmt", c>>, <<"ws", c>>, <<"uws", c>>, <<"odd", c>> }

T == [
  Top |-> Common("Top") \cup
          { <<"importstmt", "Top">>, <<"selstart", "Sel">>, <<"selfunc", "Paren">>, <<"at", "AtPre">>, <<"lbrace", "Block">>, <<"rbrace", "Top">>, <<"rparen", "Top">>,
            <<"rbrack", "Top">>, <<"semi", "Top">>, <<"num", "Sel">>, <<"valtok", "Sel">>, <<"colon", "Sel">>, <<"comma", "Sel">>, <<"lparen", "Paren">>,
            <<"lbrack", "Paren">>, <<"func", "Paren">>, <<"comb", "Sel">> },
  Sel |-> Common("Sel") \cup
          { <<"selstart", "Sel">>, <<"comb", "Sel">>, <<"selfunc", "Paren">>, <<"lbrack", "Paren">>, <<"lparen", "Paren">>, <<"lbrace", "Block">>,
            <<"rbrace", "Top">>, <<"semi", "Sel">>, <<"rparen", "Sel">>, <<"rbrack", "Sel">>, <<"num", "Sel">>, <<"at", "Sel">>, <<"valtok", "Sel">>,
            <<"colon", "Sel">>, <<"comma", "Sel">>, <<"func", "Paren">> },
  AtPre |-> Common("AtPre") \cup
          { <<"importarg", "AtPre">>, <<"lparen", "Paren">>, <<"func", "Paren">>, <<"selfunc", "Paren">>, <<"lbrack", "Paren">>, <<"num", "AtPre">>,
            <<"lbrace", "Top">>, <<"semi", "Top">>, <<"rbrace", "Top">>, <<"selstart", "AtPre">>, <<"comb", "AtPre">>, <<"valtok", "AtPre">>,
            <<"at", "AtPre">>, <<"colon", "AtPre">>, <<"comma", "AtPre">>, <<"rparen", "AtPre">>, <<"rbrack", "AtPre">> },
  Block |-> Common("Block") \cup
          { <<"importstmt", "Block">>, <<"prop", "AfterProp">>, <<"rbrace", "Top">>, <<"semi", "Block">>, <<"selstart", "Sel">>, <<"at", "AtPre">>, <<"lbrace", "Block">>,
            <<"colon", "Val">>, <<"num", "Val">>, <<"valtok", "Val">>, <<"rparen", "Block">>, <<"rbrack", "Block">>, <<"lparen", "Paren">>,
            <<"func", "Paren">>, <<"selfunc", "Paren">>, <<"comb", "Block">> },
  AfterProp |-> Common("AfterProp") \cup
          { <<"colon", "Val">>, <<"semi", "Block">>, <<"rbrace", "Top">>, <<"lbrace", "Block">>, <<"valtok", "Val">>, <<"num", "Val">>,
            <<"prop", "AfterProp">>, <<"lparen", "Paren">>, <<"comb", "AfterProp">> },
  Val |-> Common("Val") \cup
          { <<"num", "Val">>, <<"valtok", "Val">>, <<"func", "Paren">>, <<"lparen", "Paren">>, <<"lbrack", "Paren">>, <<"semi", "Block">>,
            <<"rbrace", "Top">>, <<"lbrace", "Block">>, <<"rparen", "Val">>, <<"rbrack", "Val">>, <<"comb", "Val">>, <<"at", "Val">>, <<"colon", "Val">>,
            <<"selstart", "Val">>, <<"selfunc", "Paren">>, <<"comma", "Val">>, <<"importarg", "Val">> },
  Paren |-> Common("Paren") \cup
          { <<"num", "Paren">>, <<"valtok", "Paren">>, <<"selstart", "Paren">>, <<"comb", "Paren">>, <<"func", "Paren">>, <<"selfunc", "Paren">>,
            <<"lparen", "Paren">>, <<"lbrack", "Paren">>, <<"rparen", "RET">>, <<"rbrack", "RET">>, <<"rbrace", "Paren">>, <<"semi", "Paren">>,
            <<"lbrace", "Paren">>, <<"colon", "Paren">>, <<"comma", "Paren">>, <<"at", "Paren">>, <<"prop", "Paren">> }
]

Contexts == DOMAIN T

Init == ctx = "Top" /\ ret = "Top" /\ path = <<>>

Step(c, cl, nx) ==
    /\ ctx = c
    /\ Len(path) < MaxLen
    /\ path' = Append(path, <<c, cl>>)
    /\ ret' = IF nx = "Paren" /\ c # "Paren" THEN (IF c = "Top" THEN "Sel" ELSE IF c \in {"Block", "AfterProp"} THEN "Val" ELSE c) ELSE ret
    /\ ctx' = IF nx = "RET" THEN ret ELSE nx

Next == \E c \in Contexts : \E t \in T[c] : Step(c, t[1], t[2])

Spec == Init /\ [][Next]_vars

-----------------------------------------------------------------------------
TableOK == /\ \A c \in Contexts : \A t \in T[c] : t[1] \in Classes /\ t[2] \in Contexts \cup {"RET"}
           /\ \A cl \in Classes : Len(Lex[cl]) >= 1
           /\ \A cl \in Classes : \E c \in Contexts : \E t \in T[c] : t[1] = cl
RECURSIVE Reach(_, _)
Succ(c) == {IF t[2] = "RET" THEN "Val" ELSE t[2] : t \in T[c]} \cup (IF \E t \in T[c] : t[2] = "RET" THEN {"Sel", "AtPre"} ELSE {})
Reach(S, n) == IF n = 0 THEN S ELSE Reach(S \cup UNION {Succ(c) : c \in S}, n - 1)
Connected == \A c \in Contexts : "Top" \in Reach({c}, Cardinality(Contexts)) /\ c \in Reach({"Top"}, Cardinality(Contexts))
ASSUME TableOK /\ Connected

TypeOK == ctx \in Contexts /\ ret \in {"Top", "Sel", "AtPre", "Val"} /\ Len(path) <= MaxLen

ASSUME PrintT(<<"TABLE", ToJson([lex |-> Lex])>>)
Emit == PrintT(<<"CASE", ToJson([p |-> path])>>)
EmitWalk == Len(path) = MaxLen => PrintT(<<"WALK", ToJson([p |-> path])>>)
=============================================================================
