SPECIFICATION TraceSpec
INVARIANTS OrderedInv PendHere
POSTCONDITION Accepted
CHECK_DEADLOCK FALSE
