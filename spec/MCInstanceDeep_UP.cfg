SPECIFICATION ISpec
CONSTANTS
  Family = "UP"
  MaxLen = 3
  CoverKinds = {"exact", "coarse", "true"}
INVARIANTS InstanceInv IEmit
CHECK_DEADLOCK FALSE
