------------------------------- MODULE IdentNames -------------------------------
(***************************************************************************)
(* Generated JavaScript identifiers (C02).  The emitter allocates local    *)
(* names from a counter per function scope; a nested function continues    *)
(* from its parent's counter.  Requirement: every name handed out          *)
(*   - is a JavaScript identifier,                                         *)
(*   - is not a reserved word in sloppy or strict code (ES2023 incl.       *)
(*     future reserved words) nor a value name the generated code itself   *)
(*     relies on (undefined, NaN, Infinity, arguments, eval),              *)
(*   - is not one of the one-letter names the runtime protocol reserves,   *)
(*   - differs from every name already allocated in an enclosing open      *)
(*     function scope.                                                     *)
(* The numbering itself is not modelled: `Tab` is the table id -> name     *)
(* *observed* from the implementation through the cfg-guarded hook, so a   *)
(* repaired numbering is checked by the same specification.                *)
(***************************************************************************)
EXTENDS Naturals, Sequences, FiniteSets, TLC, Json, IOUtils

First == 26                                         \* ids 0..25 are the preserved letters, never allocated

(* names are sequences of character codes (TLC interns strings; 10^5 distinct ones make it crawl) *)
Code(ch) == CASE ch = "$" -> 36 [] ch = "_" -> 95 [] OTHER -> 0
IsLower(c) == c >= 97 /\ c <= 122
IsUpper(c) == c >= 65 /\ c <= 90
IsDigit(c) == c >= 48 /\ c <= 57
IsStart(c) == IsLower(c) \/ IsUpper(c) \/ c = 95 \/ c = 36
IsPart(c)  == IsStart(c) \/ IsDigit(c)

(* reserved words of ES2023 in sloppy and strict code, future reserved words, and the value names the
   generated code relies on; `ReservedCodes` is the same set as code sequences (cross-checked by the harness) *)
Reserved == {"break","case","catch","class","const","continue","debugger","default","delete","do","else","enum","export",
             "extends","false","finally","for","function","if","import","in","instanceof","new","null","return","super",
             "switch","this","throw","true","try","typeof","var","void","while","with","yield","let","static","implements",
             "interface","package","private","protected","public","await",
             "undefined","Infinity","arguments","eval"}
ReservedCodes == LET R == JsonDeserialize(IOEnv.VERIF_RESERVED) IN {R[i] : i \in 1..Len(R)}

IsIdent(s) == Len(s) > 0 /\ IsStart(s[1]) /\ \A i \in 2..Len(s) : IsPart(s[i])
IsPreserved(s) == Len(s) = 1 /\ IsUpper(s[1])

NameOK(s) == IsIdent(s) /\ s \notin ReservedCodes /\ ~IsPreserved(s)

=============================================================================
