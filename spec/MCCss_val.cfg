SPECIFICATION Spec
CONSTANTS
  Family = "val"
  Scale = "quick"
INVARIANTS BalancedBoth Partition Emit
CHECK_DEADLOCK FALSE
