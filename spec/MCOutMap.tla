------------------------------ MODULE MCOutMap ------------------------------
(* Model check of the output machine over a small alphabet: every interleaving of entries and writes
   up to MaxSteps; the invariants say that an accepted behaviour never holds an entry beyond the write
   position and that pending entries always describe the token written next. *)
EXTENDS OutMap
CONSTANT MaxSteps
VARIABLE n
St == <<0, 3, LineBase + 1>>          \* three source tokens: 0:0, 0:3, 1:1
Init == /\ starts = St /\ oline = 0 /\ ocol = 0 /\ pend = <<>> /\ lastDst = <<0, 0>> /\ stack = <<>> /\ closed = FALSE
        /\ n = 0
Next == /\ n < MaxSteps /\ n' = n + 1
        /\ \/ \E dl \in 0..1, dc \in 0..3, sp \in {0, 3, 7, LineBase + 1}, nm \in BOOLEAN : Entry(dl, dc, sp, nm)
           \/ \E k \in 0..3, nl \in 0..1, tail \in 0..2, raw \in BOOLEAN, mn \in BOOLEAN, own \in BOOLEAN,
                 cands \in {<<>>, <<0>>, <<3, LineBase + 1>>} :
                 Write(k, nl, tail, raw, mn, own, cands, 1, 0)
           \/ Close
Spec == Init /\ [][Next]_<<ovars, n>>
=============================================================================
