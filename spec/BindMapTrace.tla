----------------------------- MODULE BindMapTrace -----------------------------
(***************************************************************************)
(* Trace validation of the real binding-map collectors against BindMapOps.   *)
(*                                                                         *)
(* VERIF_TRACE ndjson, one event per line, recorded by the cfg-guarded     *)
(* hook in binding_map.rs after each call (several collectors live side by *)
(* side: one per template definition, one per file, fresh ones at          *)
(* emission; `id` tells them apart):                                       *)
(*   [0]                      a new case (all collectors forgotten)        *)
(*   [1, id]                  BindingMapCollector::new                     *)
(*   [2, id, field, ret]      add_field -> slot (-1: none)                 *)
(*   [3, id, field]           disable_field                                *)
(*   [4, id]                  disable_all                                  *)
(*   [5, id, [[field, n]..]]  list_fields -> what the generated code       *)
(*                            advertises, with the number of slots         *)
(* Each trace action is IsEv(op) /\ <BindMap operator on that collector>   *)
(* /\ <logged result = the specification's result>.                        *)
(***************************************************************************)
EXTENDS BindMapOps, TLC, Json, IOUtils

Rec == ndJsonDeserialize(IOEnv.VERIF_TRACE)

VARIABLES l, cs        \* cs: id -> collector
tvars == <<l, cs>>

IsEv(op) == l <= Len(Rec) /\ Rec[l][1] = op /\ l' = l + 1
Known(id) == id \in DOMAIN cs
Set(id, c) == [i \in DOMAIN cs \cup {id} |-> IF i = id THEN c ELSE cs[i]]

TrCase == IsEv(0) /\ cs' = [i \in {} |-> NewCol]
TrNew  == IsEv(1) /\ ~Known(Rec[l][2]) /\ cs' = Set(Rec[l][2], NewCol)
TrAdd  == /\ IsEv(2)
          /\ LET e == Rec[l] IN
             /\ Known(e[2])
             /\ e[4] = AddRet(cs[e[2]], e[3])                  \* the slot handed out is the specification's
             /\ cs' = Set(e[2], AddCol(cs[e[2]], e[3]))
TrDisable == IsEv(3) /\ LET e == Rec[l] IN Known(e[2]) /\ cs' = Set(e[2], DisableCol(cs[e[2]], e[3]))
TrDisableAll == IsEv(4) /\ LET e == Rec[l] IN Known(e[2]) /\ cs' = Set(e[2], DisableAllCol(cs[e[2]]))
(* what list_fields yields is the specification's listing: the same fields, the same numbers of slots *)
TrList == /\ IsEv(5)
          /\ LET e == Rec[l]
                 got == e[3]
             IN /\ Known(e[2])
                /\ {got[i][1] : i \in 1..Len(got)} = Advertised(cs[e[2]])
                /\ \A i \in 1..Len(got) : got[i][2] = cs[e[2]].m[got[i][1]]
                /\ Len(got) = Cardinality(Advertised(cs[e[2]]))
          /\ UNCHANGED cs

TraceInit == l = 1 /\ cs = [i \in {} |-> NewCol]
TraceNext == TrCase \/ TrNew \/ TrAdd \/ TrDisable \/ TrDisableAll \/ TrList
TraceSpec == TraceInit /\ [][TraceNext]_tvars

Accepted ==
    LET d == TLCGet("stats").diameter
    IN IF d - 1 = Len(Rec) THEN TRUE
       ELSE /\ PrintT(<<"REJECT", d, Rec[d]>>)
            /\ FALSE
=============================================================================
