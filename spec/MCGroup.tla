------------------------------- MODULE MCGroup -------------------------------
(* Histories of Group with the operation log, emitted for replay (C20): every history, its final map. *)
EXTENDS Group, Json
VARIABLE hist
hvars == <<gvars, hist>>

HInit == Init /\ hist = <<>>
HNext == \/ \E p \in Paths, c \in Contents : AddTmpl(p, c) /\ hist' = Append(hist, <<"add_tmpl", p, c>>)
         \/ \E p \in ScriptPaths, c \in ScriptContents : AddScript(p, c) /\ hist' = Append(hist, <<"add_script", p, c>>)
         \/ \E p \in Paths : RemoveTmpl(p) /\ hist' = Append(hist, <<"remove_tmpl", p>>)
         \/ SubBegin /\ hist' = Append(hist, <<"sub_begin">>)
         \/ ImportGroup /\ hist' = Append(hist, <<"sub_end_import">>)
         \/ Observe /\ hist' = Append(hist, <<"emit">>)
         \/ \E p \in Paths : SetInline(p) /\ hist' = Append(hist, <<"set_inline", p>>)
HSpec == HInit /\ [][HNext]_hvars

Final == [p \in DOMAIN tmpls |-> tmpls[p]]
ScriptSeq == IF DOMAIN scripts = {} THEN <<>> ELSE <<<<"u", scripts["u"]>>>>       \* (one script path in the model)
HEmit == (~sub.open /\ DOMAIN tmpls # {}) =>
            PrintT(<<"CASE", ToJson([hist |-> hist, final |-> [i \in 1..Len(SortedSeq(DOMAIN tmpls)) |->
                                        <<SortedSeq(DOMAIN tmpls)[i], tmpls[SortedSeq(DOMAIN tmpls)[i]]>>] \o ScriptSeq])>>)
=============================================================================
