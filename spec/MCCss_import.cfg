SPECIFICATION Spec
CONSTANTS
  Family = "import"
  Scale = "quick"
INVARIANTS BalancedBoth Partition Emit
CHECK_DEADLOCK FALSE
