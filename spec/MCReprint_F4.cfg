SPECIFICATION Spec
CONSTANT Family = "F4"
INVARIANTS Stutter Idempotent Emit
CHECK_DEADLOCK FALSE
