SPECIFICATION Spec
CONSTANTS
  MaxLen = 4
  MaxDepth = 2
  MaxSteps = 6
CONSTRAINT Bound
INVARIANTS TypeOK PosInv SavedInv HereInText DoneInv WarnEnabled
PROPERTY Mono
CHECK_DEADLOCK FALSE
