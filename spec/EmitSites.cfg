SPECIFICATION Spec
INVARIANTS SitesSafe Emit
CHECK_DEADLOCK FALSE
