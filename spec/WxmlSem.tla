------------------------------- MODULE WxmlSem -------------------------------
(***************************************************************************)
(* Reference semantics of WXML templates: values, expression evaluation    *)
(* over the structural core of the expression language, lexical scoping,   *)
(* and `Render`, the node tree a template denotes for given data.          *)
(*                                                                         *)
(* Written from the documented language (guide, group.rs header comment,   *)
(* the TypeScript protocol types), not from the Rust code.  JavaScript's   *)
(* primitive operators are not re-implemented: an operator applied to      *)
(* values yields a deferred application `VApp(op, args)` which the harness *)
(* hands to node (delta-rule); the spec decides which values flow where,   *)
(* which branches are taken, how lists unfold and which names resolve to   *)
(* which scope.                                                            *)
(***************************************************************************)
EXTENDS Naturals, Integers, Sequences, FiniteSets, TLC, WxmlExpr

-----------------------------------------------------------------------------
(* Values *)
VU      == [k |-> "undef"]
VN      == [k |-> "null"]
VB(b)   == [k |-> "bool", b |-> b]
VI(i)   == [k |-> "int", i |-> i]
VS(s)   == [k |-> "str", s |-> s]
VA(xs)  == [k |-> "arr", xs |-> xs]           \* elements: values or VHole
VO(kv)  == [k |-> "obj", kv |-> kv]           \* kv: sequence of <<key, value>>, insertion order
VF(id)  == [k |-> "fn", id |-> id]            \* an opaque function known to the harness by id
VHole   == [k |-> "hole"]
VApp(o, as) == [k |-> "app", o |-> o, as |-> as]   \* deferred primitive application

Truthy(v) == CASE v.k \in {"undef", "null", "hole"} -> FALSE
               [] v.k = "bool" -> v.b
               [] v.k = "int"  -> v.i # 0
               [] v.k = "str"  -> v.s # ""
               [] OTHER        -> TRUE          \* arrays, objects, functions

RECURSIVE FindKey(_, _, _)
FindKey(kv, key, i) == IF i = 0 THEN 0 ELSE IF kv[i][1] = key THEN i ELSE FindKey(kv, key, i - 1)

(* decimal spelling of small naturals: object keys reached through a numeric index *)
DigitStr == <<"0", "1", "2", "3", "4", "5", "6", "7", "8", "9">>
NatStr(n) == IF n < 10 THEN DigitStr[n + 1] ELSE DigitStr[(n \div 10) + 1] \o DigitStr[(n % 10) + 1]

(* property read by name; null-safe: anything without such a property gives undefined *)
GetS(v, name) ==
    CASE v.k = "obj" -> LET i == FindKey(v.kv, name, Len(v.kv)) IN IF i = 0 THEN VU ELSE v.kv[i][2]
      [] v.k = "arr" -> IF name = "length" THEN VI(Len(v.xs)) ELSE VU
      [] v.k = "str" -> IF name = "length" THEN VI(Len(v.s)) ELSE VU
      [] OTHER -> VU

(* property read by computed key *)
GetI(v, key) ==
    CASE key.k = "str" -> GetS(v, key.s)
      [] key.k = "int" /\ v.k = "arr" ->
            IF key.i >= 0 /\ key.i < Len(v.xs)
            THEN (IF v.xs[key.i + 1].k = "hole" THEN VU ELSE v.xs[key.i + 1]) ELSE VU
      [] key.k = "int" /\ v.k = "str" ->
            IF key.i >= 0 /\ key.i < Len(v.s) THEN VS(SubSeq(v.s, key.i + 1, key.i + 1)) ELSE VU
      [] key.k = "int" /\ v.k = "obj" /\ key.i >= 0 /\ key.i < 100 -> GetS(v, NatStr(key.i))
      [] OTHER -> VU

StrictEq(a, b) == IF a.k \in {"arr", "obj", "fn", "app"} \/ b.k \in {"arr", "obj", "fn", "app"} THEN FALSE ELSE a = b

-----------------------------------------------------------------------------
(* Scopes.  A scope entry is [n |-> name, v |-> value, lp |-> l-value path or <<>>].
   env = [data |-> VO, scopes |-> Seq(entry)], innermost scope last. *)
RECURSIVE FindScope(_, _, _)
FindScope(scopes, name, i) ==
    IF i = 0 THEN 0 ELSE IF scopes[i].n = name THEN i ELSE FindScope(scopes, name, i - 1)

Resolve(name, env) ==
    LET i == FindScope(env.scopes, name, Len(env.scopes))
    IN IF i = 0 THEN GetS(env.data, name) ELSE env.scopes[i].v

(* which scope a name denotes: 0 = the data field *)
ResolveIndex(name, env) == FindScope(env.scopes, name, Len(env.scopes))

LitValue(v) ==
    CASE v = "true" -> VB(TRUE) [] v = "false" -> VB(FALSE) [] v = "null" -> VN [] v = "undefined" -> VU
      [] v = "0" -> VI(0) [] v = "1" -> VI(1) [] v = "2" -> VI(2) [] v = "3" -> VI(3)
      [] v = "''" -> VS("") [] v = "'x'" -> VS("x") [] v = "'y'" -> VS("y") [] v = "'1'" -> VS("1")
      [] v = "'a'" -> VS("a") [] v = "'b'" -> VS("b") [] v = "'t1'" -> VS("t1") [] v = "'t2'" -> VS("t2")
      [] v = "'t'" -> VS("t") [] v = "'k'" -> VS("k") [] v = "'p'" -> VS("p") [] v = "'q'" -> VS("q")
      [] Len(v) >= 2 /\ SubSeq(v, 1, 1) = "'" -> VS(SubSeq(v, 2, Len(v) - 1))     \* escape-free string literal
      [] OTHER -> VApp("lit", <<VS(v)>>)

(* operators the specification decides itself (control flow); everything else is deferred *)
RECURSIVE Eval(_, _), EvalItems(_, _, _, _), EvalFields(_, _, _, _), EvalArgs(_, _, _, _)

Eval(e, env) ==
    CASE e.k = "id"   -> Resolve(e.n, env)
      [] e.k = "lit"  -> LitValue(e.v)
      [] e.k = "un"   -> IF e.o = "!" THEN LET x == Eval(e.x, env) IN
                              IF x.k = "app" THEN VApp("!", <<x>>) ELSE VB(~Truthy(x))
                         ELSE VApp(e.o, <<Eval(e.x, env)>>)
      [] e.k = "bin"  -> LET l == Eval(e.l, env) IN
                         CASE e.o = "&&" /\ l.k # "app" -> IF Truthy(l) THEN Eval(e.r, env) ELSE l
                           [] e.o = "||" /\ l.k # "app" -> IF Truthy(l) THEN l ELSE Eval(e.r, env)
                           [] e.o = "??" /\ l.k # "app" -> IF l.k \in {"undef", "null"} THEN Eval(e.r, env) ELSE l
                           [] e.o = "===" /\ l.k # "app" ->
                                LET r == Eval(e.r, env) IN
                                IF r.k = "app" THEN VApp("===", <<l, r>>) ELSE VB(StrictEq(l, r))
                           [] OTHER -> VApp(e.o, <<l, Eval(e.r, env)>>)
      [] e.k = "cond" -> IF Truthy(Eval(e.c, env)) THEN Eval(e.a, env) ELSE Eval(e.b, env)
      [] e.k = "mem"  -> GetS(Eval(e.e, env), e.n)
      [] e.k = "idx"  -> GetI(Eval(e.e, env), Eval(e.i, env))
      [] e.k = "call" -> LET f == Eval(e.f, env) IN
                         IF f.k = "fn" THEN VApp("call", <<f>> \o EvalArgs(e.as, 1, env, <<>>)) ELSE VU
      [] e.k = "arr"  -> VA(EvalItems(e.xs, 1, env, <<>>))
      [] e.k = "obj"  -> VO(EvalFields(e.fs, 1, env, <<>>))

EvalArgs(as, i, env, acc) ==
    IF i > Len(as) THEN acc ELSE EvalArgs(as, i + 1, env, Append(acc, Eval(as[i], env)))

EvalItems(xs, i, env, acc) ==
    IF i > Len(xs) THEN acc
    ELSE LET x == xs[i] IN
         CASE x.t = "hole"   -> EvalItems(xs, i + 1, env, Append(acc, VHole))
           [] x.t = "spread" -> LET v == Eval(x.e, env) IN
                                EvalItems(xs, i + 1, env, acc \o (IF v.k = "arr" THEN v.xs ELSE <<VApp("spread", <<v>>)>>))
           [] OTHER          -> EvalItems(xs, i + 1, env, Append(acc, Eval(x.e, env)))

(* object literal: later fields overwrite earlier ones in place (JavaScript keeps first insertion order) *)
PutKV(kv, key, val) ==
    LET i == FindKey(kv, key, Len(kv))
    IN IF i = 0 THEN Append(kv, <<key, val>>) ELSE [kv EXCEPT ![i] = <<key, val>>]

RECURSIVE PutAll(_, _, _)
PutAll(kv, src, i) == IF i > Len(src) THEN kv ELSE PutAll(PutKV(kv, src[i][1], src[i][2]), src, i + 1)

EvalFields(fs, i, env, acc) ==
    IF i > Len(fs) THEN acc
    ELSE LET f == fs[i] IN
         CASE f.t = "spread" -> LET v == Eval(f.e, env) IN
                                EvalFields(fs, i + 1, env, IF v.k = "obj" THEN PutAll(acc, v.kv, 1) ELSE acc)
           [] f.t = "short"  -> EvalFields(fs, i + 1, env, PutKV(acc, f.n, Resolve(f.n, env)))
           [] OTHER          -> EvalFields(fs, i + 1, env, PutKV(acc, f.n, Eval(f.e, env)))


-----------------------------------------------------------------------------
(* L-value paths (C11).  The path of an access chain names the location the expression reads:
   [ok |-> TRUE, root |-> "data", keys]                      a data path
   [ok |-> TRUE, root |-> "script", abs |-> path, keys]      a member of an external script module
   [ok |-> TRUE, root |-> "inline", path, mod, keys]         a member of an inline script module
   NoLP for anything that is not a pure access chain (arithmetic, literals, calls, loop indices, items
   of lists that have no path); a conditional yields the path of the branch actually taken. *)
NoLP == [ok |-> FALSE]
DataLP(keys) == [ok |-> TRUE, root |-> "data", keys |-> keys]
ExtendLP(p, key) == IF p.ok THEN [p EXCEPT !.keys = Append(@, key)] ELSE NoLP

RECURSIVE LPath(_, _)
LPath(e, env) ==
    CASE e.k = "id"   -> LET i == FindScope(env.scopes, e.n, Len(env.scopes))
                         IN IF i = 0 THEN DataLP(<<VS(e.n)>>) ELSE env.scopes[i].lp
      [] e.k = "mem"  -> ExtendLP(LPath(e.e, env), VS(e.n))
      [] e.k = "idx"  -> ExtendLP(LPath(e.e, env), Eval(e.i, env))
      [] e.k = "cond" -> IF Truthy(Eval(e.c, env)) THEN LPath(e.a, env) ELSE LPath(e.b, env)
      [] OTHER        -> NoLP

ValueLP(v, env) == IF v.t = "e" THEN LPath(v.e, env) ELSE NoLP

(* get-put: writing w at a data path and reading the expression again yields w *)
RECURSIVE SetAt(_, _, _, _)
KeyStr(kv) == CASE kv.k = "str" -> kv.s [] kv.k = "int" /\ kv.i >= 0 -> NatStr(kv.i) [] OTHER -> "?"
SetAt(v, keys, i, w) ==
    IF i > Len(keys) THEN w
    ELSE LET key == keys[i] IN
         CASE v.k = "obj" -> LET j == FindKey(v.kv, KeyStr(key), Len(v.kv)) IN
                             IF j = 0 THEN VO(Append(v.kv, <<KeyStr(key), SetAt(VU, keys, i + 1, w)>>))
                             ELSE VO([v.kv EXCEPT ![j] = <<KeyStr(key), SetAt(v.kv[j][2], keys, i + 1, w)>>])
           [] v.k = "arr" /\ key.k = "int" /\ key.i >= 0 /\ key.i < Len(v.xs) ->
                             VA([v.xs EXCEPT ![key.i + 1] = SetAt(v.xs[key.i + 1], keys, i + 1, w)])
           [] OTHER -> v                        \* nothing to write into: the path does not exist in D

-----------------------------------------------------------------------------
(* Template syntax (abstract).
   value  : [t |-> "none"] | [t |-> "s", s |-> string] | [t |-> "e", e |-> expr]
          | [t |-> "m", ps |-> Seq(piece)]             piece: [t |-> "s", s] | [t |-> "e", e]
   attr   : [f |-> family, n |-> name, v |-> value]
   node   : Text | Elem | If | For | Block | BlockSlot | TmplIs | Include | Slot | Comment *)
None      == [t |-> "none"]
SV(s)     == [t |-> "s", s |-> s]
EV(e)     == [t |-> "e", e |-> e]
MV(ps)    == [t |-> "m", ps |-> ps]
Attr(f, n, v) == [f |-> f, n |-> n, v |-> v]

Text(ps)             == [t |-> "text", ps |-> ps]
Elem(tag, at, ch)    == [t |-> "elem", tag |-> tag, at |-> at, ch |-> ch]
If(brs, hasElse, els) == [t |-> "if", brs |-> brs, hasElse |-> hasElse, els |-> els]   \* brs: Seq([c |-> value, ch])
For(list, item, index, key, ch) == [t |-> "for", list |-> list, item |-> item, index |-> index, key |-> key, ch |-> ch]
Block(ch)            == [t |-> "block", ch |-> ch]
BlockSlot(slot, ch)  == [t |-> "blockslot", slot |-> slot, ch |-> ch]
TmplIs(target, data) == [t |-> "tmplis", target |-> target, data |-> data]            \* data: value (object inner) or None
Include(path)        == [t |-> "include", path |-> path]
SlotEl(name, at)     == [t |-> "slot", name |-> name, at |-> at]
Comment(s)           == [t |-> "comment", s |-> s]

(* a file: [path, imports : Seq(path), wxs : Seq([n, members : Seq(<<name, value>>)]),
            defs : Seq([n, ch]), root : Seq(node)];  a group maps paths to files *)

-----------------------------------------------------------------------------
(* Name normalisation of attribute families (documented in the guide) *)
Upper(c) == CASE c = "a" -> "A" [] c = "b" -> "B" [] c = "c" -> "C" [] c = "d" -> "D" [] c = "e" -> "E"
              [] c = "k" -> "K" [] c = "p" -> "P" [] c = "q" -> "Q" [] c = "t" -> "T" [] c = "v" -> "V"
              [] c = "x" -> "X" [] c = "y" -> "Y" [] OTHER -> c
RECURSIVE CamelFrom(_, _, _, _)
CamelFrom(s, i, up, acc) ==
    IF i > Len(s) THEN acc
    ELSE LET c == SubSeq(s, i, i) IN
         IF c = "-" THEN CamelFrom(s, i + 1, TRUE, acc)
         ELSE CamelFrom(s, i + 1, FALSE, acc \o (IF up THEN Upper(c) ELSE c))
Camel(s) == CamelFrom(s, 1, FALSE, "")

-----------------------------------------------------------------------------
(* Rendering.  The rendered tree:
   [t |-> "text", ps |-> Seq(piece)]   piece: [t |-> "s", s] | [t |-> "v", v |-> value]   (harness joins with
                                        String(), null/undefined as "")
   [t |-> "elem", tag, at |-> Seq([ch |-> channel, n |-> name, v |-> rendered value, ...]), slot, ch]
   [t |-> "slot", name, at, slot]      [t |-> "block", slot, ch]
   rendered value: [t |-> "raw", v |-> value] | [t |-> "str", ps |-> Seq(piece)] *)
RECURSIVE RenderSeq(_, _, _), RenderNode(_, _, _), RenderFor(_, _, _, _, _, _), RenderPieces(_, _, _, _),
          RenderAttrs(_, _, _, _, _), FirstBranch(_, _, _)

Raw(v)   == [t |-> "raw", v |-> v]
Str(ps)  == [t |-> "str", ps |-> ps]

RenderPieces(ps, i, env, acc) ==
    IF i > Len(ps) THEN acc
    ELSE LET p == ps[i] IN
         RenderPieces(ps, i + 1, env,
            Append(acc, IF p.t = "s" THEN [t |-> "s", s |-> p.s] ELSE [t |-> "v", v |-> Eval(p.e, env)]))

(* value of an attribute: absent -> `dflt`; static -> the string; single binding -> the raw value;
   mixed text -> a string *)
RenderValue(v, env, dflt) ==
    CASE v.t = "none" -> Raw(dflt)
      [] v.t = "s"    -> Raw(VS(v.s))
      [] v.t = "e"    -> Raw(Eval(v.e, env))
      [] v.t = "m"    -> Str(RenderPieces(v.ps, 1, env, <<>>))

EventFlags(f) == CASE f = "bind" -> "000" [] f = "mut-bind" -> "010" [] f = "catch" -> "100"
                   [] f = "capture-bind" -> "001" [] f = "capture-mut-bind" -> "011" [] f = "capture-catch" -> "101"
EventFams == {"bind", "mut-bind", "catch", "capture-bind", "capture-mut-bind", "capture-catch"}

(* one attribute -> zero or one channel entries (slot is handled by the element itself); in "marks" mode
   (C11) each entry also carries the l-value path of its expression, model = the attribute is model: *)
WithLP(entries, a, env) ==
    IF env.marks /\ entries # <<>>
    THEN <<[x \in {"lp", "model"} \cup DOMAIN entries[1] |->
              IF x = "lp" THEN ValueLP(a.v, env) ELSE IF x = "model" THEN a.f = "model:" ELSE entries[1][x]]>>
    ELSE entries

RenderAttr0(a, env, isSlotEl) ==
    CASE a.f = "plain"  -> <<[ch |-> IF isSlotEl THEN "l" ELSE "r", n |-> IF isSlotEl THEN Camel(a.n) ELSE a.n,
                              v |-> RenderValue(a.v, env, IF isSlotEl THEN VS("") ELSE VB(TRUE))]>>
      [] a.f = "class"  -> <<[ch |-> "c", n |-> "", v |-> RenderValue(a.v, env, VS(""))]>>
      [] a.f = "style"  -> <<[ch |-> "y", n |-> "", v |-> RenderValue(a.v, env, VS(""))]>>
      [] a.f = "id"     -> <<[ch |-> "i", n |-> "", v |-> RenderValue(a.v, env, VS(""))]>>
      [] a.f = "data:"  -> <<[ch |-> "d", n |-> a.n, v |-> RenderValue(a.v, env, VB(TRUE))]>>
      [] a.f = "data-"  -> <<[ch |-> "d", n |-> Camel(a.n), v |-> RenderValue(a.v, env, VB(TRUE))]>>
      [] a.f = "mark:"  -> <<[ch |-> "m", n |-> a.n, v |-> RenderValue(a.v, env, VB(TRUE))]>>
      [] a.f \in EventFams ->
            <<[ch |-> "v", n |-> a.n \o "|" \o EventFlags(a.f), v |-> RenderValue(a.v, env, VS("")),
               dyn |-> a.v.t \in {"e", "m"}]>>
      [] a.f = "model:" -> <<[ch |-> "r", n |-> Camel(a.n), v |-> RenderValue(a.v, env, VB(TRUE))]>>
      [] a.f = "change:" -> IF a.v.t \in {"e", "m"} THEN <<[ch |-> "p", n |-> Camel(a.n), v |-> RenderValue(a.v, env, VU)]>> ELSE <<>>
      [] a.f = "worklet:" -> <<[ch |-> "wl", n |-> Camel(a.n), v |-> RenderValue(a.v, env, VS(""))]>>
      [] a.f = "generic:" -> <<[ch |-> "g", n |-> a.n, v |-> RenderValue(a.v, env, VS(""))]>>
      [] a.f = "extra-attr:" -> <<[ch |-> "a", n |-> a.n, v |-> RenderValue(a.v, env, VS(""))]>>
      [] OTHER -> <<>>          \* slot, slot:x handled elsewhere

(* dev mode: the generated code announces, per element and per <slot>, the names of the attributes the template writes
   on it - id / slot / class / style (/ name) as `:id` .., then properties (two-way bound ones under their camelCase
   name), change listeners, `data:` and `mark:` entries - in this order of kinds, source order within a kind *)
RECURSIVE NamesOfKind(_, _, _, _)
NamesOfKind(at, i, fams, isSlotEl) ==
    IF i > Len(at) THEN <<>>
    ELSE LET a == at[i]
             nm == CASE a.f = "plain"   -> IF isSlotEl THEN Camel(a.n) ELSE a.n
                     [] a.f = "model:"  -> Camel(a.n)
                     [] a.f = "change:" -> Camel(a.n)
                     [] a.f = "data:"   -> "data:" \o a.n
                     [] a.f = "data-"   -> "data:" \o Camel(a.n)
                     [] a.f = "mark:"   -> "mark:" \o a.n
                     [] OTHER           -> ":" \o a.f
         IN (IF a.f \in fams THEN <<nm>> ELSE <<>>) \o NamesOfKind(at, i + 1, fams, isSlotEl)
DevNames(at, isSlotEl, named) ==
    NamesOfKind(at, 1, {"id"}, isSlotEl) \o NamesOfKind(at, 1, {"slot"}, isSlotEl)
    \o (IF isSlotEl THEN (IF named THEN <<":name">> ELSE <<>>)
        ELSE NamesOfKind(at, 1, {"class"}, isSlotEl) \o NamesOfKind(at, 1, {"style"}, isSlotEl))
    \o NamesOfKind(at, 1, IF isSlotEl THEN {"plain"} ELSE {"plain", "model:"}, isSlotEl)
    \o (IF isSlotEl THEN <<>> ELSE NamesOfKind(at, 1, {"change:"}, isSlotEl))
    \o NamesOfKind(at, 1, {"data:", "data-"}, isSlotEl) \o NamesOfKind(at, 1, {"mark:"}, isSlotEl)

RenderAttr(a, env, isSlotEl) == WithLP(RenderAttr0(a, env, isSlotEl), a, env)

RenderAttrs(at, i, env, isSlotEl, acc) ==
    IF i > Len(at) THEN acc ELSE RenderAttrs(at, i + 1, env, isSlotEl, acc \o RenderAttr(at[i], env, isSlotEl))

RECURSIVE FindAttr(_, _, _)
FindAttr(at, fam, i) == IF i > Len(at) THEN 0 ELSE IF at[i].f = fam THEN i ELSE FindAttr(at, fam, i + 1)

SlotOf(at, env) == LET i == FindAttr(at, "slot", 1) IN
                   IF i = 0 THEN [t |-> "absent"] ELSE RenderValue(at[i].v, env, VS(""))

(* scopes an element introduces for its own attributes and its subtree: `slot:name[=alias]` *)
RECURSIVE SlotScopes(_, _, _, _)
SlotScopes(at, i, sv, acc) ==
    IF i > Len(at) THEN acc
    ELSE IF at[i].f = "slot:"
         THEN SlotScopes(at, i + 1, sv,
                Append(acc, [n |-> IF at[i].v.t = "s" /\ at[i].v.s # "" THEN at[i].v.s ELSE Camel(at[i].n),
                             v |-> GetS(sv, Camel(at[i].n)), lp |-> NoLP]))
         ELSE SlotScopes(at, i + 1, sv, acc)

(* a rendered value as a value: mixed text is the (deferred) concatenation of its pieces *)
ValueOf(rv) == IF rv.t = "raw" THEN rv.v
               ELSE VApp("strcat", [i \in 1..Len(rv.ps) |-> IF rv.ps[i].t = "s" THEN VS(rv.ps[i].s) ELSE rv.ps[i].v])
IsDyn(tag) == Len(tag) > 4 /\ SubSeq(tag, 1, 4) = "dyn-"
RECURSIVE SlotValuesOf(_, _, _)
SlotValuesOf(at, i, acc) ==
    IF i > Len(at) THEN VO(acc)
    ELSE IF at[i].ch = "r" /\ Len(at[i].n) > 3 /\ SubSeq(at[i].n, 1, 3) = "sv-"
         THEN SlotValuesOf(at, i + 1, Append(acc, <<Camel(SubSeq(at[i].n, 4, Len(at[i].n))), ValueOf(at[i].v)>>))
         ELSE SlotValuesOf(at, i + 1, acc)

IsWs(s) == \A i \in 1..Len(s) : SubSeq(s, i, i) \in {" ", "\n", "\t"}

FirstBranch(brs, i, env) ==
    IF i > Len(brs) THEN 0
    ELSE LET c == brs[i].c
             v == IF c.t = "s" THEN VS(c.s) ELSE IF c.t = "e" THEN Eval(c.e, env) ELSE VS("")
             tv == IF c.t = "m" THEN TRUE ELSE Truthy(v)     \* mixed text is a non-empty string here
         IN IF tv THEN i ELSE FirstBranch(brs, i + 1, env)

(* how a list value unfolds: sequence of <<item, index>> *)
Items(v) == CASE v.k = "arr" -> [i \in 1..Len(v.xs) |-> <<IF v.xs[i].k = "hole" THEN VU ELSE v.xs[i], VI(i - 1)>>]
              [] v.k = "obj" -> [i \in 1..Len(v.kv) |-> <<v.kv[i][2], VS(v.kv[i][1])>>]
              [] v.k = "str" -> [i \in 1..Len(v.s) |-> <<VS(SubSeq(v.s, i, i)), VI(i - 1)>>]
              [] v.k = "int" -> IF v.i >= 0 THEN [i \in 1..v.i |-> <<VI(i - 1), VI(i - 1)>>] ELSE <<>>
              [] OTHER -> <<>>

RenderFor(n, its, i, env, g, acc) ==
    IF i > Len(its) THEN acc
    ELSE LET llp  == ValueLP(n.list, env)          \* the list is evaluated outside the scopes it introduces
             env2 == [env EXCEPT !.scopes = @ \o <<[n |-> n.item, v |-> its[i][1], lp |-> ExtendLP(llp, its[i][2])],
                                                     [n |-> n.index, v |-> its[i][2], lp |-> NoLP]>>]
         IN RenderFor(n, its, i + 1, env, g, acc \o RenderSeq(n.ch, env2, g))

(* g: the group context [files : path -> file, cur : path] for template-is / include *)
RECURSIVE FindDef(_, _, _), LookupTmpl(_, _, _)
FindDef(defs, name, i) == IF i = 0 THEN 0 ELSE IF defs[i].n = name THEN i ELSE FindDef(defs, name, i - 1)

(* local definitions first, then imports from the last to the first *)
LookupTmpl(g, name, k) ==
    LET f == g.files[g.cur] IN
    IF k > Len(f.imports)
    THEN LET i == FindDef(f.defs, name, Len(f.defs)) IN
         IF i # 0 THEN [found |-> TRUE, file |-> g.cur, ch |-> f.defs[i].ch] ELSE LookupTmpl(g, name, 0 - 1)
    ELSE IF k < 0
         THEN LET j == Len(f.imports) + k + 1 IN                  \* k = -1 : last import
              IF j < 1 THEN [found |-> FALSE]
              ELSE LET p == f.imports[j] IN
                   IF p \in DOMAIN g.files
                   THEN LET d == g.files[p].defs  i == FindDef(d, name, Len(d)) IN
                        IF i # 0 THEN [found |-> TRUE, file |-> p, ch |-> d[i].ch] ELSE LookupTmpl(g, name, k - 1)
                   ELSE LookupTmpl(g, name, k - 1)
         ELSE [found |-> FALSE]

(* a module flagged `late` is set through the group API after the file was parsed (set_inline_script_content with a
   new name): no identifier of the parsed template refers to it, and every scope keeps its meaning *)
IsEarly(w) == "late" \notin DOMAIN w
WxsScopes(file0) == LET file == [file0 EXCEPT !.wxs = SelectSeq(file0.wxs, IsEarly)] IN [i \in 1..Len(file.wxs) |->
    [n |-> file.wxs[i].n, v |-> VO(file.wxs[i].members),
     lp |-> IF "src" \in DOMAIN file.wxs[i]
            THEN [ok |-> TRUE, root |-> "script", keys |-> <<>>,     \* `src` is the spelling, `key` (if given) the path it resolves to
                  abs |-> IF "key" \in DOMAIN file.wxs[i] THEN file.wxs[i].key ELSE file.wxs[i].src]
            ELSE [ok |-> TRUE, root |-> "inline", path |-> file.path, mod |-> file.wxs[i].n, keys |-> <<>>]]]

(* `env.sm` ("slot mode"): the nodes being rendered are slot content of a dynamic-slot component,
   whose only slot is the unnamed one.  Content addressed to another slot is not materialised; an
   element's / block's own `slot` then selects the slot and is not a property of the node.  The
   mode passes through virtual nodes (if / for / block) and ends at elements. *)
SlotMatches(v) == \* `v`: a rendered value; the unnamed slot is addressed by a falsy / empty name
    CASE v.t = "absent" -> TRUE
      [] v.t = "raw"    -> v.v.k \in {"undef", "null"} \/ (v.v.k = "str" /\ v.v.s = "")   \* the name is Y(value)
      [] OTHER          -> FALSE
BlockSlotMatches(v) == CASE v.t = "raw" -> v.v.k \in {"undef", "null"} \/ (v.v.k = "str" /\ v.v.s = "")
                         [] OTHER -> FALSE

RenderNode(n, env, g) ==
    CASE n.t = "text" -> << [t |-> "text", ps |-> RenderPieces(n.ps, 1, env, <<>>)] >>
      [] n.t = "comment" -> <<>>
      [] n.t = "elem" ->
            LET env2 == [env EXCEPT !.scopes = @ \o SlotScopes(n.at, 1, env.sv, <<>>)]
                at == RenderAttrs(n.at, 1, env2, FALSE, <<>>)
                \* a `dyn-*` element is a dynamic-slot component: its direct children receive, as slot
                \* values, every property named `sv-<name>` (the harness's component emulation)
                sv2 == IF IsDyn(n.tag) THEN SlotValuesOf(at, 1, <<>>) ELSE VO(<<>>)
                sl == SlotOf(n.at, env2)
            IN IF env.sm /\ ~SlotMatches(sl) THEN <<>>
               ELSE << [t |-> "elem", tag |-> n.tag, at |-> at, dev |-> DevNames(n.at, FALSE, FALSE),
                        slot |-> IF env.sm THEN [t |-> "absent"] ELSE sl,
                        ch |-> RenderSeq(n.ch, [env2 EXCEPT !.sv = sv2, !.sm = IsDyn(n.tag)], g)] >>
      [] n.t = "if" ->
            LET b == FirstBranch(n.brs, 1, env)
                e0 == [env EXCEPT !.sv = VO(<<>>)]
            IN IF b > 0 THEN RenderSeq(n.brs[b].ch, e0, g)
               ELSE IF n.hasElse THEN RenderSeq(n.els, e0, g) ELSE <<>>
      [] n.t = "for" ->
            LET lv == IF n.list.t = "e" THEN Eval(n.list.e, env) ELSE IF n.list.t = "s" THEN VS(n.list.s) ELSE VS("")
            IN (IF env.marks THEN << [t |-> "formark", lp |-> ValueLP(n.list, env)] >> ELSE <<>>)
               \o RenderFor(n, Items(lv), 1, [env EXCEPT !.sv = VO(<<>>)], g, <<>>)
      [] n.t = "block" -> RenderSeq(n.ch, env, g)
      [] n.t = "blockslot" ->
            LET sl == RenderValue(n.slot, env, VS(""))
                inner == RenderSeq(n.ch, [env EXCEPT !.sv = VO(<<>>), !.sm = FALSE], g)
            IN IF env.sm THEN (IF BlockSlotMatches(sl) THEN inner ELSE <<>>)
               ELSE << [t |-> "block", slot |-> sl, ch |-> inner] >>
      [] n.t = "tmplis" ->
            LET tv == IF n.target.t = "s" THEN VS(n.target.s) ELSE Eval(n.target.e, env)
            IN IF tv.k # "str" \/ tv.s = "" THEN <<>>
               ELSE LET r == LookupTmpl(g, tv.s, Len(g.files[g.cur].imports) + 1)
                    IN IF ~r.found THEN <<>>
                       ELSE LET d == IF n.data.t = "e" THEN Eval(n.data.e, env) ELSE VO(<<>>)
                            IN RenderSeq(r.ch, [data |-> IF d.k = "obj" THEN d ELSE VO(<<>>),
                                                scopes |-> WxsScopes(g.files[r.file]), sv |-> VO(<<>>), sm |-> env.sm, marks |-> env.marks],
                                         [g EXCEPT !.cur = r.file])
      [] n.t = "include" ->
            IF n.path \in DOMAIN g.files
            THEN RenderSeq(g.files[n.path].root,
                           [data |-> env.data, scopes |-> WxsScopes(g.files[n.path]), sv |-> VO(<<>>), sm |-> env.sm, marks |-> env.marks],
                           [g EXCEPT !.cur = n.path])
            ELSE <<>>
      [] n.t = "slot" ->
            \* (a <slot> that receives slot values itself - a forwarding slot - sees them in its own attributes, like any element)
            LET env2 == [env EXCEPT !.scopes = @ \o SlotScopes(n.at, 1, env.sv, <<>>)] IN
            << [t |-> "slot", name |-> RenderValue(n.name, env2, VS("")), at |-> RenderAttrs(n.at, 1, env2, TRUE, <<>>),
                \* (a <slot> that carries nothing but its name announces nothing)
                dev |-> IF Len(n.at) = 0 THEN <<>> ELSE DevNames(n.at, TRUE, n.name.t # "none"),
                slot |-> IF env.sm THEN [t |-> "absent"] ELSE SlotOf(n.at, env2)] >>

RenderSeq(ns, env, g) ==
    IF ns = <<>> THEN <<>> ELSE RenderNode(ns[1], env, g) \o RenderSeq(Tail(ns), env, g)

(* env0: rendering the root of file `p` of group `files` with data `dat`; `sv`: the slot values supplied
   by an enclosing dynamic-slot component (none at the root) *)
Env0(files, p, dat) == [data |-> dat, scopes |-> WxsScopes(files[p]), sv |-> VO(<<>>), sm |-> FALSE, marks |-> FALSE]
RenderFileMarked(files, p, dat) == RenderSeq(files[p].root, [Env0(files, p, dat) EXCEPT !.marks = TRUE], [files |-> files, cur |-> p])
RenderFile(files, p, dat) == RenderSeq(files[p].root, Env0(files, p, dat), [files |-> files, cur |-> p])

SingleFile(root) == [path |-> "a", imports |-> <<>>, wxs |-> <<>>, defs |-> <<>>, root |-> root]
RenderRoot(root, dat) == LET f == SingleFile(root) IN RenderFile([p \in {"a"} |-> f], "a", dat)

-----------------------------------------------------------------------------
(* Binding-map eligibility (C07).  `FreeIds(e, bound)`: data fields an expression reads (identifiers
   not bound by an enclosing scope).  A field is *ineligible* for the binding-map fast path when it
   is read anywhere the map cannot reach: inside wx:if / wx:for / template-is / include / slot
   subtrees (their own conditions, lists, targets, data, names and values included), in the slot
   attribute of a virtual node, or anywhere at all when the file contains an <include>. *)
RECURSIVE FreeIds(_, _), FreeIdsItems(_, _, _), FreeIdsFields(_, _, _), FreeIdsArgs(_, _, _)
FreeIds(e, bound) ==
    CASE e.k = "id"   -> IF e.n \in bound THEN {} ELSE {e.n}
      [] e.k = "lit"  -> {}
      [] e.k = "un"   -> FreeIds(e.x, bound)
      [] e.k = "bin"  -> FreeIds(e.l, bound) \cup FreeIds(e.r, bound)
      [] e.k = "cond" -> FreeIds(e.c, bound) \cup FreeIds(e.a, bound) \cup FreeIds(e.b, bound)
      [] e.k = "mem"  -> FreeIds(e.e, bound)
      [] e.k = "idx"  -> FreeIds(e.e, bound) \cup FreeIds(e.i, bound)
      [] e.k = "call" -> FreeIds(e.f, bound) \cup FreeIdsArgs(e.as, 1, bound)
      [] e.k = "arr"  -> FreeIdsItems(e.xs, 1, bound)
      [] e.k = "obj"  -> FreeIdsFields(e.fs, 1, bound)
FreeIdsArgs(as, i, bound) == IF i > Len(as) THEN {} ELSE FreeIds(as[i], bound) \cup FreeIdsArgs(as, i + 1, bound)
FreeIdsItems(xs, i, bound) ==
    IF i > Len(xs) THEN {} ELSE (IF xs[i].t = "hole" THEN {} ELSE FreeIds(xs[i].e, bound)) \cup FreeIdsItems(xs, i + 1, bound)
FreeIdsFields(fs, i, bound) ==
    IF i > Len(fs) THEN {}
    ELSE (IF fs[i].t = "short" THEN (IF fs[i].n \in bound THEN {} ELSE {fs[i].n}) ELSE FreeIds(fs[i].e, bound))
         \cup FreeIdsFields(fs, i + 1, bound)

RECURSIVE PiecesIds(_, _, _)
PiecesIds(ps, i, bound) ==
    IF i > Len(ps) THEN {} ELSE (IF ps[i].t = "e" THEN FreeIds(ps[i].e, bound) ELSE {}) \cup PiecesIds(ps, i + 1, bound)
ValueIds(v, bound) == CASE v.t = "e" -> FreeIds(v.e, bound) [] v.t = "m" -> PiecesIds(v.ps, 1, bound) [] OTHER -> {}

RECURSIVE AttrsIds(_, _, _), SlotScopeNames(_, _)
AttrsIds(at, i, bound) == IF i > Len(at) THEN {} ELSE ValueIds(at[i].v, bound) \cup AttrsIds(at, i + 1, bound)
SlotScopeNames(at, i) ==
    IF i > Len(at) THEN {}
    ELSE (IF at[i].f = "slot:" THEN {IF at[i].v.t = "s" /\ at[i].v.s # "" THEN at[i].v.s ELSE Camel(at[i].n)} ELSE {})
         \cup SlotScopeNames(at, i + 1)

(* <<all, dyn>>: fields read at all / read in unreachable positions, in a node sequence *)
RECURSIVE UsesSeq(_, _, _), UsesNode(_, _, _)
Both(x) == [all |-> x, dyn |-> x]
Join(a, b) == [all |-> a.all \cup b.all, dyn |-> a.dyn \cup b.dyn]
Gate(x, inDyn) == IF inDyn THEN Both(x) ELSE [all |-> x, dyn |-> {}]
RECURSIVE BranchUses(_, _, _)
BranchUses(brs, i, bound) ==
    IF i > Len(brs) THEN Both({})
    ELSE Join(Join(Both(ValueIds(brs[i].c, bound)), UsesSeq(brs[i].ch, bound, TRUE)), BranchUses(brs, i + 1, bound))
UsesNode(n, bound, inDyn) ==
    CASE n.t = "text"    -> Gate(PiecesIds(n.ps, 1, bound), inDyn)
      [] n.t = "comment" -> Both({})
      [] n.t = "elem"    -> LET b2 == bound \cup SlotScopeNames(n.at, 1)
                            IN Join(Gate(AttrsIds(n.at, 1, b2), inDyn), UsesSeq(n.ch, b2, inDyn))
      [] n.t = "if"      -> Join(BranchUses(n.brs, 1, bound), UsesSeq(n.els, bound, TRUE))
      [] n.t = "for"     -> Join(Both(ValueIds(n.list, bound)), UsesSeq(n.ch, bound \cup {n.item, n.index}, TRUE))
      [] n.t = "block"   -> UsesSeq(n.ch, bound, inDyn)
      [] n.t = "blockslot" -> Join(Both(ValueIds(n.slot, bound)), UsesSeq(n.ch, bound, inDyn))
      [] n.t = "tmplis"  -> Both(ValueIds(n.target, bound) \cup ValueIds(n.data, bound))
      [] n.t = "include" -> Both({})
      [] n.t = "slot"    -> LET b2 == bound \cup SlotScopeNames(n.at, 1) IN Both(ValueIds(n.name, b2) \cup AttrsIds(n.at, 1, b2))
UsesSeq(ns, bound, inDyn) ==
    IF ns = <<>> THEN Both({}) ELSE Join(UsesNode(ns[1], bound, inDyn), UsesSeq(Tail(ns), bound, inDyn))

RECURSIVE HasInclude(_), HasIncludeN(_)
HasIncludeN(n) == CASE n.t = "include" -> TRUE
                    [] n.t \in {"elem", "for", "block", "blockslot"} -> HasInclude(n.ch)
                    [] n.t = "if" -> (\E i \in 1..Len(n.brs) : HasInclude(n.brs[i].ch)) \/ HasInclude(n.els)
                    [] OTHER -> FALSE
HasInclude(ns) == \E i \in 1..Len(ns) : HasIncludeN(ns[i])

FileUses(f) == UsesSeq(f.root, {f.wxs[i].n : i \in 1..Len(f.wxs)}, FALSE)
(* the fields the fast path must not be offered for *)
Ineligible(f) == IF HasInclude(f.root) THEN FileUses(f).all ELSE FileUses(f).dyn
=============================================================================
