SPECIFICATION Spec
CONSTANTS
  Family = "tok"
  Scale = "quick"
INVARIANTS BalancedBoth Partition Emit
CHECK_DEADLOCK FALSE
