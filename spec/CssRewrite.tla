------------------------------ MODULE CssRewrite ------------------------------
(***************************************************************************)
(* Reference transducer of the stylesheet compiler (C08, C09, C10, C17,    *)
(* C18, C19), written from the documented rewrites over css-syntax-3       *)
(* tokens, not from the Rust code.                                         *)
(*                                                                         *)
(* Input: a stylesheet as a tree.                                          *)
(*   token  [k, v, w, id]            k: kind, v: value, w: whitespace      *)
(*                                   before the token in the source, id    *)
(*          [k |-> "func"|"paren"|"brack"|"curly", v, a |-> Seq(token),    *)
(*           w, id]     ("curly": a {..} block standing inside a value)    *)
(*          [k |-> "dim"|"num"|"pct", n, unit, w, id]   n: index into the  *)
(*                                   numeric pool (spelled by the harness) *)
(*   item   [t |-> "rule", sel, decls, id]                                 *)
(*          [t |-> "at", name, pre, kind, body, id]  kind: "rules"|"decls" *)
(*                                   |"keyframes"|"stmt"                   *)
(*          [t |-> "import", form, path, layer, sub, supports, media, id]  *)
(*   decl   [p, v |-> Seq(token), id]                                      *)
(* Output: two flat token sequences (normal, low priority); each token     *)
(*   [k, v, gap, prov, name]  gap: "req" whitespace must separate it from  *)
(*   its predecessor, "forbid" none may, "free" either; prov: id of the    *)
(*   input token it was copied / rewritten from (or that triggered it),    *)
(*   "raw" for the replayed at-rule wrappers of the low-priority output;   *)
(*   name: the original spelling for rewritten tokens (source-map name).   *)
(* Numbers are never computed here: a converted rpx dimension is           *)
(*   [k |-> "dim", n, unit |-> "vw", conv |-> TRUE] and the harness checks *)
(*   value*100/ratio with exact rationals.                                 *)
(***************************************************************************)
EXTENDS Naturals, Sequences, FiniteSets, TLC

(* options: [prefix : "none" | string, sign : "none" | string, host : BOOLEAN, hostIs : "none" | string,
             importSign : "none" | string] *)

IsBlock(t) == t.k \in {"func", "paren", "brack", "curly"}
Opener(t)  == CASE t.k = "func" -> [k |-> "func", v |-> t.v] [] t.k = "paren" -> [k |-> "("] [] t.k = "curly" -> [k |-> "{"] [] OTHER -> [k |-> "["]
Closer(t)  == CASE t.k = "brack" -> [k |-> "]"] [] t.k = "curly" -> [k |-> "}"] [] OTHER -> [k |-> ")"]

Out(tok, gap, prov)        == [tok |-> tok, gap |-> gap, prov |-> prov, name |-> "none", raw |-> FALSE]
OutN(tok, gap, prov, name) == [tok |-> tok, gap |-> gap, prov |-> prov, name |-> name, raw |-> FALSE]

Plain(t) == CASE t.k \in {"dim", "num", "pct"} -> [k |-> t.k, n |-> t.n, unit |-> t.unit, conv |-> FALSE]
              [] OTHER -> [k |-> t.k, v |-> t.v]

(* ---- selector context ------------------------------------------------------------------------- *)
CanEndCompound(t)   == t.k \in {"ident", "hash", "idhash", "brack", "func", "paren", "dim", "num", "pct"}
                        \/ (t.k = "delim" /\ t.v \in {"*", "&"})
CanStartCompound(t) == t.k \in {"ident", "hash", "idhash", "brack", "colon"}
                        \/ (t.k = "delim" /\ t.v \in {".", "*", "&"})
SelGap(ts, i) == IF i = 1 THEN "free"
                 ELSE IF CanEndCompound(ts[i - 1]) /\ CanStartCompound(ts[i])
                      THEN (IF ts[i].w THEN "req" ELSE "forbid")
                      ELSE "free"

IsClassName(ts, i) == i > 1 /\ ts[i].k = "ident" /\ ~ts[i].w /\ ts[i - 1].k = "delim" /\ ts[i - 1].v = "."

RECURSIVE SelToks(_, _, _, _), ValToks(_, _, _, _)
IsMath(t) == t.k = "func" /\ t.v \in {"calc", "CALC", "Calc", "min", "max", "clamp", "MIN", "Clamp"}

(* depth 0 = the prelude of a qualified rule itself; dimensions there are copied, inside blocks rpx converts *)
SelTok(ts, i, o, depth) ==
    LET t == ts[i]  g == SelGap(ts, i) IN
    CASE IsBlock(t) /\ ~IsMath(t) ->
            <<Out(Opener(t), g, t.id)>> \o SelToks(t.a, 1, o, depth + 1) \o <<Out(Closer(t), "free", t.id)>>
      (* a math function inside a prelude block (`@media (min-width: calc(100px + 2em))`, the supports() / media conditions of
         an import) is a calculation there too: + and - keep the white space on both sides *)
      [] IsBlock(t) /\ IsMath(t) ->
            <<Out(Opener(t), g, t.id)>> \o ValToks(t.a, 1, o, TRUE) \o <<Out(Closer(t), "free", t.id)>>
      [] IsClassName(ts, i) ->
            (IF o.sign # "none" THEN <<Out([k |-> "comment", v |-> o.sign], "forbid", t.id)>> ELSE <<>>)
            \o <<IF o.prefix # "none"
                 THEN OutN([k |-> "ident", v |-> o.prefix \o "--" \o t.v], "forbid", t.id, t.v)
                 ELSE Out(Plain(t), "forbid", t.id)>>
      [] t.k = "dim" /\ t.unit = "rpx" /\ depth > 0 ->
            <<OutN([k |-> "dim", n |-> t.n, unit |-> "vw", conv |-> TRUE], g, t.id, "rpx")>>
      [] OTHER -> <<Out(Plain(t), g, t.id)>>

SelToks(ts, i, o, depth) == IF i > Len(ts) THEN <<>> ELSE SelTok(ts, i, o, depth) \o SelToks(ts, i + 1, o, depth)

(* ---- value context ---------------------------------------------------------------------------- *)
(* the math functions: their arguments are calculations, in which + and - need white space on both sides
   (function names are ASCII case-insensitive) *)
MathFns == {"calc", "CALC", "Calc", "min", "max", "clamp", "MIN", "Clamp"}
IsPlusMinus(t) == t.k = "delim" /\ t.v \in {"+", "-"}
ValGap(ts, i, inCalc) ==
    IF i > 1 /\ inCalc /\ ts[i].w /\ (IsPlusMinus(ts[i]) \/ IsPlusMinus(ts[i - 1])) THEN "req" ELSE "free"

ValTok(ts, i, o, inCalc) ==
    LET t == ts[i]  g == ValGap(ts, i, inCalc) IN
    CASE IsBlock(t) ->
            <<Out(Opener(t), g, t.id)>>
            \o ValToks(t.a, 1, o, (t.k = "func" /\ t.v \in MathFns) \/ (inCalc /\ t.k \in {"paren", "func"}))
            \o <<Out(Closer(t), "free", t.id)>>
      [] t.k = "dim" /\ t.unit = "rpx" ->
            <<OutN([k |-> "dim", n |-> t.n, unit |-> "vw", conv |-> TRUE], g, t.id, "rpx")>>
      [] OTHER -> <<Out(Plain(t), g, t.id)>>

ValToks(ts, i, o, inCalc) == IF i > Len(ts) THEN <<>> ELSE ValTok(ts, i, o, inCalc) \o ValToks(ts, i + 1, o, inCalc)

RECURSIVE Decls(_, _, _)
Decls(ds, i, o) ==
    IF i > Len(ds) THEN <<>>
    ELSE LET d == ds[i] IN
         <<Out([k |-> "ident", v |-> d.p], "free", d.id), Out([k |-> "colon", v |-> ""], "free", d.id)>>
         \o ValToks(d.v, 1, o, FALSE)
         \o (IF d.semi THEN <<Out([k |-> "semi", v |-> ""], "free", d.id)>> ELSE <<>>)
         \o Decls(ds, i + 1, o)

(* ---- at-rule preludes: top level copied but for rpx, nested blocks in selector mode (class names, rpx) *)
RECURSIVE PreToks(_, _, _)
PreToks(ts, i, o) ==
    IF i > Len(ts) THEN <<>>
    ELSE LET t == ts[i] IN
         (IF IsBlock(t)
          THEN <<Out(Opener(t), "free", t.id)>> \o SelToks(t.a, 1, o, 1) \o <<Out(Closer(t), "free", t.id)>>
          ELSE IF t.k = "dim" /\ t.unit = "rpx"
          THEN (* C10 names at-rule preludes: a bare rpx length converts like any other ("bare" lets the
                  harness tell this site from the others when it reports) *)
               <<OutN([k |-> "dim", n |-> t.n, unit |-> "vw", conv |-> TRUE, bare |-> TRUE], "free", t.id, "rpx")>>
          ELSE <<Out(Plain(t), "free", t.id)>>)
         \o PreToks(ts, i + 1, o)

(* ---- rules ------------------------------------------------------------------------------------ *)
HostNames == {"host", "HOST", "Host"}       \* pseudo-class names, at-keywords and function names are ASCII case-insensitive
IsHostOnly(sel) == Len(sel) = 2 /\ sel[1].k = "colon" /\ sel[2].k = "ident" /\ sel[2].v \in HostNames /\ ~sel[2].w
StartsWithHost(sel) == Len(sel) >= 2 /\ sel[1].k = "colon" /\ ~sel[2].w
                       /\ ((sel[2].k = "ident" /\ sel[2].v \in HostNames) \/ (sel[2].k = "func" /\ sel[2].v \in HostNames))

(* `:host` further on in the selector list (`.a :host`, `.a, :host`) is a combination too; `::host` is not the pseudo-class *)
HostLater(sel) == \E i \in 2..(Len(sel) - 1) :
                     /\ sel[i].k = "colon" /\ sel[i - 1].k # "colon" /\ ~sel[i + 1].w
                     /\ sel[i + 1].k \in {"ident", "func"} /\ sel[i + 1].v \in HostNames

Open(id)  == Out([k |-> "{"], "free", id)
Close(id) == Out([k |-> "}"], "free", id)

AttrSel(name, value, id) ==
    <<Out([k |-> "["], "free", id), Out([k |-> "ident", v |-> name], "free", id), Out([k |-> "delim", v |-> "="], "free", id),
      Out([k |-> "string", v |-> value], "free", id), Out([k |-> "]"], "free", id)>>

(* wrappers: the enclosing at-rule chain, replayed raw in the low-priority output *)
RECURSIVE WrapOpen(_, _), WrapClose(_, _)
Raw(seq) == [i \in 1..Len(seq) |-> [seq[i] EXCEPT !.raw = TRUE]]
WrapOpen(chain, i) == IF i > Len(chain) THEN <<>> ELSE Raw(chain[i] \o <<Out([k |-> "{"], "free", <<>>)>>) \o WrapOpen(chain, i + 1)
WrapClose(chain, i) == IF i > Len(chain) THEN <<>> ELSE Raw(<<Out([k |-> "}"], "free", <<>>)>>) \o WrapClose(chain, i + 1)

RECURSIVE Items(_, _, _, _), Keyframes(_, _, _)
Both(n, l, w) == [normal |-> n, low |-> l, warn |-> w]
(* a diagnostic names the item it is about and where its (empty) location lies:
     "afterkeyword" - directly behind the at-keyword of item `from` (an import: the cursor has read `@import` and nothing else);
     "prelude"      - somewhere from the first character of token `from` (the rule's first selector token) up to the
                      opening brace of the item: the place of a :host combination is inside the selector that holds it *)
Warn(kind, id, where, from) == [kind |-> kind, id |-> id, where |-> where, from |-> from]
Cat(a, b) == [normal |-> a.normal \o b.normal, low |-> a.low \o b.low, warn |-> a.warn \o b.warn]

(* keywords and function names of an import are ASCII case-insensitive; the form "STRING" spells them in capitals
   (`@IMPORT "a" LAYER(x) SUPPORTS(..)`), and the output keeps the spelling *)
KW(it, w) == IF it.form = "STRING" THEN (CASE w = "layer" -> "LAYER" [] w = "supports" -> "SUPPORTS" [] w = "import" -> "IMPORT" [] OTHER -> w) ELSE w
(* a layer name may be dotted (`a.b`: the sub-layer b of a) - it is a name, not a selector: never prefixed *)
LayerName(it, id) == <<Out([k |-> "ident", v |-> it.layer], "free", id)>>
                     \o (IF it.sub = "" THEN <<>> ELSE <<Out([k |-> "delim", v |-> "."], "free", id), Out([k |-> "ident", v |-> it.sub], "forbid", id)>>)
ImportOut(it, o) ==
    LET id == it.id
        layer == IF it.layer = "none" THEN <<>>
                 ELSE <<Out([k |-> "at", v |-> KW(it, "layer")], "free", id)>>
                      \o (IF it.layer = "" THEN <<>> ELSE LayerName(it, id))
                      \o <<Open(id)>>
        supp  == IF it.supports = <<>> THEN <<>>
                 ELSE <<Out([k |-> "at", v |-> KW(it, "supports")], "free", id), Out([k |-> "("], "free", id)>>
                      \o SelToks(it.supports, 1, o, 1) \o <<Out([k |-> ")"], "free", id), Open(id)>>
        media == IF it.media = <<>> THEN <<>>
                 ELSE <<Out([k |-> "at", v |-> "media"], "free", id)>> \o PreToks(it.media, 1, o) \o <<Open(id)>>
        n == (IF it.layer = "none" THEN 0 ELSE 1) + (IF it.supports = <<>> THEN 0 ELSE 1) + (IF it.media = <<>> THEN 0 ELSE 1)
    IN layer \o supp \o media
       \o <<Out([k |-> "importcomment", sign |-> o.importSign, path |-> it.path], "free", id)>>
       \o [i \in 1..n |-> Close(id)]

ImportPlain(it, o) ==      \* no import sign: the rule passes through
    <<Out([k |-> "at", v |-> KW(it, "import")], "free", it.id)>>
    \o (IF it.form = "URLSTR"        \* `Url( "path" )`: the function form with a quoted argument, its name in another letter case
        THEN <<Out([k |-> "func", v |-> "Url"], "free", it.id), Out([k |-> "string", v |-> it.path], "free", it.id), Out([k |-> ")"], "free", it.id)>>
        ELSE <<Out([k |-> IF it.form = "url" THEN "url" ELSE "string", v |-> it.path], "free", it.id)>>)
    \o (IF it.layer = "none" THEN <<>>
        ELSE IF it.layer = "" THEN <<Out([k |-> "ident", v |-> KW(it, "layer")], "free", it.id)>>
        ELSE <<Out([k |-> "func", v |-> KW(it, "layer")], "free", it.id)>> \o LayerName(it, it.id) \o <<Out([k |-> ")"], "free", it.id)>>)
    \o (IF it.supports = <<>> THEN <<>>
        ELSE <<Out([k |-> "func", v |-> KW(it, "supports")], "free", it.id)>> \o SelToks(it.supports, 1, o, 1) \o <<Out([k |-> ")"], "free", it.id)>>)
    \o PreToks(it.media, 1, o)
    \o (IF it.semi THEN <<Out([k |-> "semi", v |-> ""], "free", it.id)>> ELSE <<>>)

(* chain: sequence of (rewritten) at-rule heads enclosing the current items; first: position class of the item (first / afterimports / late / nested) *)
Item(it, o, chain, first) ==
    CASE it.t = "rule" ->
            IF o.host /\ IsHostOnly(it.sel)
            THEN Both(<<>>,
                      WrapOpen(chain, 1)
                      \o AttrSel("wx-host", IF o.prefix = "none" THEN "" ELSE o.prefix, it.id)
                      \o (IF o.hostIs # "none" THEN <<Out([k |-> "comma", v |-> ""], "free", it.id)>> \o AttrSel("is", o.hostIs, it.id) ELSE <<>>)
                      \o <<Open(it.id)>> \o Decls(it.decls, 1, o) \o <<Close(it.id)>>
                      \o WrapClose(chain, 1),
                      <<>>)
            ELSE IF o.host /\ (StartsWithHost(it.sel) \/ HostLater(it.sel))
            THEN Both(<<>>, <<>>, <<Warn("HostSelectorCombination", it.id, "prelude", it.sel[1].id)>>)
            ELSE Both(SelToks(it.sel, 1, o, 0) \o <<Open(it.id)>> \o Decls(it.decls, 1, o) \o <<Close(it.id)>>, <<>>, <<>>)
      [] it.t = "at" ->
            LET head == <<Out([k |-> "at", v |-> it.name], "free", it.id)>> \o PreToks(it.pre, 1, o) IN
            CASE it.kind = "stmt"  -> Both(head \o <<Out([k |-> "semi", v |-> ""], "free", it.id)>>, <<>>, <<>>)
              [] it.kind = "decls" -> Both(head \o <<Open(it.id)>> \o Decls(it.body, 1, o) \o <<Close(it.id)>>, <<>>, <<>>)
              [] it.kind = "keyframes" ->
                    Both(head \o <<Open(it.id)>>
                         \o Keyframes(it.body, 1, o)
                         \o <<Close(it.id)>>, <<>>, <<>>)
              [] OTHER ->
                    LET inner == Items(it.body, 1, o, Append(chain, head)) IN
                    Both(head \o <<Open(it.id)>> \o inner.normal \o <<Close(it.id)>>, inner.low, inner.warn)
      [] it.t = "import" ->
            IF o.importSign = "none" THEN Both(ImportPlain(it, o), <<>>, <<>>)
            ELSE Both(ImportOut(it, o), <<>>,
                      CASE first = "first" -> <<>>
                        [] first = "late" -> <<Warn("IllegalImportPosition", it.id, "afterkeyword", it.id)>>
                        [] OTHER -> <<Warn("IllegalImportPosition?", it.id, "afterkeyword", it.id)>>)

Keyframes(fs, i, o) ==
    IF i > Len(fs) THEN <<>>
    ELSE ValToks(fs[i].sel, 1, o, FALSE) \o <<Open(fs[i].id)>> \o Decls(fs[i].decls, 1, o) \o <<Close(fs[i].id)>>
         \o Keyframes(fs, i + 1, o)

Items(its, i, o, chain) ==
    IF i > Len(its) THEN Both(<<>>, <<>>, <<>>)
    ELSE Cat(Item(its[i], o, chain,
                  (* an import is flagged when a rule precedes it; after other imports only, or nested in an at-rule
                     (where it is not valid CSS at all), the property does not say, and the flag is optional ("?") *)
                  IF chain # <<>> THEN "nested"
                  ELSE IF i = 1 THEN "first"
                  ELSE IF \A j \in 1..(i - 1) : its[j].t = "import" THEN "afterimports"
                  ELSE "late"),
             Items(its, i + 1, o, chain))

Rewrite(sheet, o) == Items(sheet, 1, o, <<>>)

(* ---- labelling: the id of a token is its path in the tree ----------------------------------------- *)
RECURSIVE LabelToks(_, _), LabelDecls(_, _), LabelItems(_, _), LabelFrames(_, _)
LabelToks(ts, pre) == [i \in 1..Len(ts) |->
    IF IsBlock(ts[i]) THEN [ts[i] EXCEPT !.id = Append(pre, i), !.a = LabelToks(ts[i].a, Append(pre, i))]
    ELSE [ts[i] EXCEPT !.id = Append(pre, i)]]
LabelDecls(ds, pre) == [i \in 1..Len(ds) |-> [ds[i] EXCEPT !.id = Append(pre, i), !.v = LabelToks(ds[i].v, Append(Append(pre, i), 9))]]
LabelFrames(fs, pre) == [i \in 1..Len(fs) |-> [fs[i] EXCEPT !.id = Append(pre, i), !.sel = LabelToks(fs[i].sel, Append(Append(pre, i), 7)),
                                                                !.decls = LabelDecls(fs[i].decls, Append(Append(pre, i), 8))]]
LabelItems(its, pre) == [i \in 1..Len(its) |->
    LET it == its[i]  me == Append(pre, i) IN
    CASE it.t = "rule" -> [it EXCEPT !.id = me, !.sel = LabelToks(it.sel, Append(me, 7)), !.decls = LabelDecls(it.decls, Append(me, 8))]
      [] it.t = "at" -> [it EXCEPT !.id = me, !.pre = LabelToks(it.pre, Append(me, 6)),
                                   !.body = CASE it.kind = "rules" -> LabelItems(it.body, me)
                                              [] it.kind = "decls" -> LabelDecls(it.body, Append(me, 8))
                                              [] it.kind = "keyframes" -> LabelFrames(it.body, me)
                                              [] OTHER -> it.body]
      [] OTHER -> [it EXCEPT !.id = me, !.supports = LabelToks(it.supports, Append(me, 5)), !.media = LabelToks(it.media, Append(me, 4))]]
Label(sheet) == LabelItems(sheet, <<>>)

(* ---- laws ------------------------------------------------------------------------------------- *)
(* brackets of each output are balanced (wrappers of the low-priority output included) *)
Balanced(out) == LET opens == Cardinality({i \in 1..Len(out) : out[i].tok.k \in {"{", "(", "[", "func"}})
                     closes == Cardinality({i \in 1..Len(out) : out[i].tok.k \in {"}", ")", "]"}})
                 IN opens = closes
=============================================================================
