SPECIFICATION Spec
CONSTANT Family = "F3"
INVARIANTS CommentInsensitive BlockInsensitive Emit
CHECK_DEADLOCK FALSE
