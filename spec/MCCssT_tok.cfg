SPECIFICATION Spec
CONSTANTS
  Family = "tok"
  Scale = "thorough"
INVARIANTS BalancedBoth Partition Emit
CHECK_DEADLOCK FALSE
