------------------------------ MODULE WxmlExpr ------------------------------
(***************************************************************************)
(* The expression language of WXML bindings, as the documented subset of   *)
(* ECMA-262 expressions: operator table (levels and associativity from     *)
(* ECMA-262 §13), abstract trees, a printer that emits the parentheses     *)
(* JavaScript needs (optionally redundant ones too), and a reference       *)
(* precedence-climbing parser.                                             *)
(*                                                                         *)
(* The trees enumerated here are replayed into the real compiler: the      *)
(* printed token sequence is the source text of a binding, the tree is     *)
(* what the oracle evaluates.  `RoundTrip` (checked by TLC for every tree  *)
(* and every parenthesisation variant) guarantees that the text fed to     *)
(* the compiler denotes exactly the tree handed to the oracle.             *)
(***************************************************************************)
EXTENDS Naturals, Sequences, FiniteSets, TLC

UnOps  == {"!", "~", "+", "-", "typeof", "void"}
MulOps == {"*", "/", "%"}
AddOps == {"+", "-"}
ShiftOps == {"<<", ">>", ">>>"}
RelOps == {"<", ">", "<=", ">=", "instanceof"}
EqOps  == {"==", "!=", "===", "!=="}
BinOps == MulOps \cup AddOps \cup ShiftOps \cup RelOps \cup EqOps
            \cup {"&", "^", "|", "&&", "||", "??"}

(* ECMA-262 levels; larger binds tighter *)
BinPrec(o) == CASE o \in MulOps -> 13 [] o \in AddOps -> 12 [] o \in ShiftOps -> 11
                [] o \in RelOps -> 10 [] o \in EqOps -> 9
                [] o = "&" -> 8 [] o = "^" -> 7 [] o = "|" -> 6
                [] o = "&&" -> 5 [] o = "||" -> 4 [] o = "??" -> 4

-----------------------------------------------------------------------------
(* Abstract trees *)
Id(n)          == [k |-> "id", n |-> n]
Lit(v)         == [k |-> "lit", v |-> v]              \* v: the source spelling of the literal
Un(o, x)       == [k |-> "un", o |-> o, x |-> x]
Bin(o, l, r)   == [k |-> "bin", o |-> o, l |-> l, r |-> r]
Cond(c, a, b)  == [k |-> "cond", c |-> c, a |-> a, b |-> b]
Mem(e, n)      == [k |-> "mem", e |-> e, n |-> n]
Idx(e, i)      == [k |-> "idx", e |-> e, i |-> i]
Call(f, as)    == [k |-> "call", f |-> f, as |-> as]
Arr(xs)        == [k |-> "arr", xs |-> xs]            \* xs: Seq of [t : {"item","hole","spread"}, e]
Obj(fs)        == [k |-> "obj", fs |-> fs]            \* fs: Seq of [t : {"named","short","spread"}, n, e]
Item(e)   == [t |-> "item", e |-> e]
Hole      == [t |-> "hole"]
Spread(e) == [t |-> "spread", e |-> e]
Named(n, e) == [t |-> "named", n |-> n, e |-> e]
Short(n)    == [t |-> "short", n |-> n]

Prec(e) == CASE e.k = "bin" -> BinPrec(e.o) [] e.k = "un" -> 15 [] e.k = "cond" -> 3 [] OTHER -> 18

IsNumLit(e) == e.k = "lit" /\ e.v \in {"0", "1", "2", "1.5", "0x1F", "017", "1e3"}

(* `??` may not be mixed with `||` / `&&` without parentheses (a SyntaxError in JavaScript) *)
Mixes(o, c) == c.k = "bin" /\ ((o = "??" /\ c.o \in {"||", "&&"}) \/ (o \in {"||", "&&"} /\ c.o = "??"))

-----------------------------------------------------------------------------
(* Printer: a sequence of tokens.  `extra` = TRUE puts redundant parentheses around every
   non-leaf operand ("source parentheses are honoured exactly"). *)
RECURSIVE Pr(_, _), Par(_, _, _, _), PrSeq(_, _, _), PrFields(_, _, _)

Leaf(e) == e.k \in {"id", "lit"}

Par(e, min, force, extra) ==
    IF Prec(e) < min \/ force \/ (extra /\ ~Leaf(e))
    THEN <<"(">> \o Pr(e, extra) \o <<")">>
    ELSE Pr(e, extra)

PrSeq(xs, i, extra) ==
    IF i > Len(xs) THEN <<>>
    ELSE LET x == xs[i]
             sep == IF i < Len(xs) THEN <<",">> ELSE <<>>
         IN CASE x.t = "hole"   -> (IF i = Len(xs) THEN <<",">> ELSE sep) \o PrSeq(xs, i + 1, extra)
              [] x.t = "spread" -> <<"...">> \o Par(x.e, 3, FALSE, extra) \o sep \o PrSeq(xs, i + 1, extra)
              [] OTHER          -> Par(x.e, 3, FALSE, extra) \o sep \o PrSeq(xs, i + 1, extra)

PrFields(fs, i, extra) ==
    IF i > Len(fs) THEN <<>>
    ELSE LET f == fs[i]
             sep == IF i < Len(fs) THEN <<",">> ELSE <<>>
         IN CASE f.t = "spread" -> <<"...">> \o Par(f.e, 3, FALSE, extra) \o sep \o PrFields(fs, i + 1, extra)
              [] f.t = "short"  -> <<f.n>> \o sep \o PrFields(fs, i + 1, extra)
              [] OTHER          -> <<f.n, ":">> \o Par(f.e, 3, FALSE, extra) \o sep \o PrFields(fs, i + 1, extra)

Pr(e, extra) ==
    CASE e.k = "id"   -> <<e.n>>
      [] e.k = "lit"  -> <<e.v>>
      [] e.k = "un"   -> <<e.o>> \o Par(e.x, 15, FALSE, extra)
      [] e.k = "bin"  -> Par(e.l, BinPrec(e.o), Mixes(e.o, e.l), extra) \o <<e.o>>
                           \o Par(e.r, BinPrec(e.o) + 1, Mixes(e.o, e.r), extra)
      [] e.k = "cond" -> Par(e.c, 4, FALSE, extra) \o <<"?">> \o Par(e.a, 3, FALSE, extra)
                           \o <<":">> \o Par(e.b, 3, FALSE, extra)
      [] e.k = "mem"  -> Par(e.e, 18, IsNumLit(e.e), extra) \o <<".", e.n>>
      [] e.k = "idx"  -> Par(e.e, 18, FALSE, extra) \o <<"[">> \o Par(e.i, 3, FALSE, extra) \o <<"]">>
      [] e.k = "call" -> Par(e.f, 18, FALSE, extra) \o <<"(">>
                           \o PrSeq([j \in 1..Len(e.as) |-> Item(e.as[j])], 1, extra) \o <<")">>
      [] e.k = "arr"  -> <<"[">> \o PrSeq(e.xs, 1, extra) \o <<"]">>
      [] e.k = "obj"  -> <<"{">> \o PrFields(e.fs, 1, extra) \o <<"}">>

-----------------------------------------------------------------------------
(* Reference parser (ECMA-262 §13 restricted to the supported forms).  Each P* returns
   [e |-> tree, r |-> remaining tokens]. *)
Punct == {"(", ")", "[", "]", "{", "}", ",", ":", "?", ".", "..."}
IsWord(t) == t \notin Punct /\ t \notin BinOps /\ t \notin UnOps
LitToks == {"0", "1", "2", "1.5", "0x1F", "017", "1e3", "''", "'x'", "'1'", "true", "false", "null", "undefined",
            "'q.p'", "'p-1'", "'p q'", "'p.length'", "'length '"}

RECURSIVE PCond(_), PBin(_, _), PBinLoop(_, _, _), PUnary(_), PPostfix(_), PPostLoop(_, _),
          PPrimary(_), PArgs(_, _), PElems(_, _), PFields(_, _)

PPrimary(ts) ==
    LET t == Head(ts) IN
    CASE t = "(" -> LET r == PCond(Tail(ts)) IN [e |-> r.e, r |-> Tail(r.r)]          \* skip ")"
      [] t = "[" -> PElems(Tail(ts), <<>>)
      [] t = "{" -> PFields(Tail(ts), <<>>)
      [] t \in LitToks -> [e |-> Lit(t), r |-> Tail(ts)]
      [] OTHER -> [e |-> Id(t), r |-> Tail(ts)]

PElems(ts, acc) ==
    LET t == Head(ts) IN
    CASE t = "]"   -> [e |-> Arr(acc), r |-> Tail(ts)]
      [] t = ","   -> PElems(Tail(ts), Append(acc, Hole))
      [] t = "..." -> LET r == PCond(Tail(ts)) IN
                      PElems(IF Head(r.r) = "," THEN Tail(r.r) ELSE r.r, Append(acc, Spread(r.e)))
      [] OTHER     -> LET r == PCond(ts) IN
                      PElems(IF Head(r.r) = "," THEN Tail(r.r) ELSE r.r, Append(acc, Item(r.e)))

PFields(ts, acc) ==
    LET t == Head(ts) IN
    CASE t = "}"   -> [e |-> Obj(acc), r |-> Tail(ts)]
      [] t = "..." -> LET r == PCond(Tail(ts)) IN
                      PFields(IF Head(r.r) = "," THEN Tail(r.r) ELSE r.r, Append(acc, Spread(r.e)))
      [] OTHER     -> IF Head(Tail(ts)) = ":"
                      THEN LET r == PCond(Tail(Tail(ts))) IN
                           PFields(IF Head(r.r) = "," THEN Tail(r.r) ELSE r.r, Append(acc, Named(t, r.e)))
                      ELSE LET rest == Tail(ts) IN
                           PFields(IF Head(rest) = "," THEN Tail(rest) ELSE rest, Append(acc, Short(t)))

PArgs(ts, acc) ==
    IF Head(ts) = ")" THEN [as |-> acc, r |-> Tail(ts)]
    ELSE LET r == PCond(ts) IN
         PArgs(IF Head(r.r) = "," THEN Tail(r.r) ELSE r.r, Append(acc, r.e))

PPostLoop(e, ts) ==
    IF ts = <<>> THEN [e |-> e, r |-> ts]
    ELSE LET t == Head(ts) IN
         CASE t = "." -> PPostLoop(Mem(e, Head(Tail(ts))), Tail(Tail(ts)))
           [] t = "[" -> LET r == PCond(Tail(ts)) IN PPostLoop(Idx(e, r.e), Tail(r.r))   \* skip "]"
           [] t = "(" -> LET a == PArgs(Tail(ts), <<>>) IN PPostLoop(Call(e, a.as), a.r)
           [] OTHER   -> [e |-> e, r |-> ts]

PPostfix(ts) == LET p == PPrimary(ts) IN PPostLoop(p.e, p.r)

PUnary(ts) ==
    IF Head(ts) \in UnOps
    THEN LET r == PUnary(Tail(ts)) IN [e |-> Un(Head(ts), r.e), r |-> r.r]
    ELSE PPostfix(ts)

PBinLoop(l, ts, min) ==
    IF ts # <<>> /\ Head(ts) \in BinOps /\ BinPrec(Head(ts)) >= min
    THEN LET o == Head(ts)
             rr == PBin(Tail(ts), BinPrec(o) + 1)
         IN PBinLoop(Bin(o, l, rr.e), rr.r, min)
    ELSE [e |-> l, r |-> ts]

PBin(ts, min) == LET u == PUnary(ts) IN PBinLoop(u.e, u.r, min)

PCond(ts) ==
    LET c == PBin(ts, 4) IN
    IF c.r # <<>> /\ Head(c.r) = "?"
    THEN LET a == PCond(Tail(c.r))
             b == PCond(Tail(a.r))                                         \* skip ":"
         IN [e |-> Cond(c.e, a.e, b.e), r |-> b.r]
    ELSE c

(* a unary operator directly followed by a binary-operator token of the same spelling needs no
   special care here: tokens are already separated *)
ParseRef(ts) == LET r == PCond(ts) IN IF r.r = <<>> THEN r.e ELSE [k |-> "trailing", r |-> r.r]

-----------------------------------------------------------------------------
(* The bounded tree space: every operator at every operand position of every operator. *)
A == Id("a")  B == Id("b")  C == Id("c")  D == Id("d")  E == Id("e")

Lits == {Lit("0"), Lit("1"), Lit("1.5"), Lit("''"), Lit("'x'"), Lit("'1'"), Lit("true"), Lit("false"),
         Lit("null"), Lit("undefined"), Lit("0x1F"), Lit("017"), Lit("1e3")}

(* all one-operator trees over the leaves x, y, z *)
Inner(x, y, z) ==
       {Un(o, x) : o \in UnOps}
  \cup {Bin(o, x, y) : o \in BinOps}
  \cup {Cond(x, y, z), Mem(x, "p"), Mem(x, "length"), Idx(x, y),
        Call(x, <<>>), Call(x, <<y>>), Call(x, <<y, z>>),
        Arr(<<>>), Arr(<<Item(x)>>), Arr(<<Item(x), Hole, Item(y)>>), Arr(<<Hole, Item(x)>>),
        Arr(<<Item(x), Hole>>), Arr(<<Spread(x), Item(y)>>), Arr(<<Item(x), Spread(y)>>),
        Arr(<<Spread(x)>>),
        Obj(<<>>), Obj(<<Named("p", x)>>), Obj(<<Short(x.n)>>), Obj(<<Named("p", x), Named("q", y)>>),
        Obj(<<Spread(x), Named("p", y)>>), Obj(<<Named("p", x), Spread(y)>>), Obj(<<Spread(x)>>),
        (* three members: a spread between two fields, a field between two spreads, holes next to spreads and at the end *)
        Obj(<<Named("p", x), Spread(y), Named("q", z)>>), Obj(<<Spread(x), Named("p", y), Spread(z)>>),
        Arr(<<Item(x), Spread(y), Item(z)>>), Arr(<<Spread(x), Item(y), Spread(z)>>), Arr(<<Item(x), Hole, Spread(y)>>),
        Arr(<<Item(x), Item(y), Hole>>), Arr(<<Spread(x), Hole, Item(y)>>), Arr(<<Item(x), Hole, Hole>>)}

(* every one-operator context around a hole h, other operands fresh leaves u, v *)
Outer(h, u, v) ==
       {Un(o, h) : o \in UnOps}
  \cup {Bin(o, h, u) : o \in BinOps} \cup {Bin(o, u, h) : o \in BinOps}
  \cup {Cond(h, u, v), Cond(u, h, v), Cond(u, v, h),
        Mem(h, "p"), Idx(h, u), Idx(u, h), Call(h, <<u>>), Call(u, <<h>>), Call(u, <<v, h>>),
        Arr(<<Item(h)>>), Arr(<<Hole, Item(h)>>), Arr(<<Spread(h), Item(u)>>), Arr(<<Item(u), Spread(h)>>),
        Obj(<<Named("p", h)>>), Obj(<<Spread(h), Named("p", u)>>), Obj(<<Named("p", u), Spread(h)>>)}

Trees1 == Inner(A, B, C)
Trees1Lit == {Un(o, l) : o \in UnOps, l \in Lits}
             \cup {Bin(o, l, A) : o \in BinOps, l \in Lits} \cup {Bin(o, A, l) : o \in BinOps, l \in Lits}
             \cup {Mem(l, "length") : l \in Lits} \cup {Idx(l, A) : l \in Lits} \cup {Idx(A, l) : l \in Lits}
             \cup {Cond(l, A, B) : l \in Lits}
Trees2 == UNION {Outer(h, D, E) : h \in Trees1}
Leaves == {A} \cup Lits

(* JavaScript rejects some of these combinations outright; they have no reference value *)
Legal(e) == ~(e.k = "obj" /\ \E i \in 1..Len(e.fs) : e.fs[i].t = "short" /\ e.fs[i].n \notin {"a", "b", "c", "d", "e"})

(* an index whose expression is a call, standing where JavaScript evaluates it only sometimes: the branches of a
   conditional, the right operand of && / || / ??.  (Depth 3: the call must not run when its branch is not taken.) *)
Lazy == LET ix == Idx(A, Call(B, <<D>>)) IN
        {Cond(C, ix, E), Cond(C, E, ix), Bin("&&", C, ix), Bin("||", C, ix), Bin("??", C, ix),
         Cond(C, Mem(ix, "p"), E), Bin("&&", C, Idx(A, Idx(B, Call(D, <<E>>))))}

(* string-literal keys that are not identifier names although they begin like one: `a['q.p']` reads the property named
   "q.p" - not a.q.p, and `a['p-1']` not a.p - 1 (the environments hold objects with these keys AND with q.p and p) *)
KeyLits == {Lit("'q.p'"), Lit("'p-1'"), Lit("'p q'"), Lit("'p.length'"), Lit("'length '")}
KeyTrees == UNION {{Idx(A, l), Mem(Idx(A, l), "p"), Idx(Mem(A, "q"), l), Call(Idx(A, l), <<B>>), Idx(Idx(A, l), B),
                    Bin("+", Idx(A, l), B), Cond(B, Idx(A, l), C)} : l \in KeyLits}

Trees == {e \in Leaves \cup Trees1 \cup Trees1Lit \cup Trees2 \cup Lazy \cup KeyTrees : Legal(e)}

(* Identifier spellings.  The trees above name their leaves a..e; to JavaScript an identifier is a maximal run of
   identifier characters (letters, digits, `_`, `$`), so a name that BEGINS with a word the expression language writes
   in letters - an operator (typeof, void, instanceof) or a literal (true, false, null, undefined, NaN, Infinity) - and
   goes on with `_`, `$`, a digit or a letter is one identifier, as are `_` and `$` alone.  Every tree is also replayed
   with its leaves renamed into this set (the check reads the set from here); the tree's shape, and so its reference
   value under the renamed environment, is unchanged. *)
TrickyNames == {"typeof_x", "typeofx", "typeof1", "void$", "void_0", "voided", "instanceof_", "instanceofx",
                "true_", "false1", "null_", "nullx", "undefined1", "undefined_", "NaNx", "Infinity_",
                "_", "$", "$a", "_1", "a$b", "x1_", "in_", "newx"}

RoundTripOf(e, extra) == ParseRef(Pr(e, extra)) = e
=============================================================================
