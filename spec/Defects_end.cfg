SPECIFICATION DSpec
CONSTANT DFamily = "end"
INVARIANTS ExpectSane DEmit
CHECK_DEADLOCK FALSE
