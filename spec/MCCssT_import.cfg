SPECIFICATION Spec
CONSTANTS
  Family = "import"
  Scale = "thorough"
INVARIANTS BalancedBoth Partition Emit
CHECK_DEADLOCK FALSE
