------------------------------ MODULE MCCursor ------------------------------
(* Exhaustive model of Cursor: every source over the five character kinds up to
   MaxLen, every interleaving of consume / try / commit / rollback / warn up to MaxSteps. *)
EXTENDS Cursor, TLC

CONSTANTS MaxLen, MaxDepth, MaxSteps

Srcs == UNION {[1..n -> CharKinds] : n \in 0..MaxLen}

Init == /\ src \in Srcs
        /\ ci = 0 /\ idx = 0 /\ line = 0 /\ col = 0
        /\ saved = <<>> /\ warns = 0 /\ steps = 0 /\ done = FALSE

WarnHere == Warn(line, col, line, col)
WarnSpan == saved # <<>> /\ LET t == saved[Len(saved)] IN
              PosLe(t[3], t[4], line, col) /\ Warn(t[3], t[4], line, col)

Next == \/ \E k \in 0..MaxLen : Consume(k)
        \/ (Len(saved) < MaxDepth /\ TryEnter)
        \/ TryCommit
        \/ TryRollback
        \/ WarnHere
        \/ WarnSpan
        \/ Finish

Spec == Init /\ [][Next]_cvars

Bound == steps <= MaxSteps

(* Mono as an action property: outside a rollback the cursor never moves backwards *)
Mono == [][(saved' = saved \/ Len(saved') > Len(saved) \/ ci' = ci) => ci' >= ci]_cvars
(* a warning at "here" or from a saved place to "here" is always enabled: locations the parser
   can name are in the text *)
WarnEnabled == ~done => ENABLED WarnHere
=============================================================================
