SPECIFICATION Spec
CONSTANT Family = "F2"
INVARIANTS CommentInsensitive BlockInsensitive Emit
CHECK_DEADLOCK FALSE
