SPECIFICATION Spec
CONSTANTS
  MaxLen = 5
INVARIANTS TypeOK Emit
CHECK_DEADLOCK FALSE
