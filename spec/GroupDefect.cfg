SPECIFICATION Spec
CONSTANTS
  Paths = {"a", "b", "c"}
  Contents = {"x", "y"}
  Canonical = FALSE
  MaxOps = 4
  PathRank <- RankDef
  ScriptPaths = {"u"}
  ScriptContents = {"x", "y"}
INVARIANT OrderIndependent
PROPERTY ImportIsAdd
CHECK_DEADLOCK FALSE
