SPECIFICATION Spec
CONSTANTS
  Family = "calc"
  Scale = "quick"
INVARIANTS BalancedBoth Partition Emit
CHECK_DEADLOCK FALSE
