SPECIFICATION Spec
CONSTANT Family = "F3"
INVARIANTS Stutter Idempotent Emit
CHECK_DEADLOCK FALSE
