SPECIFICATION Spec
CONSTANTS
  MaxBase = 2
  MaxRel = 3
  Segs = {"a", "b", ".", "..", ""}
INVARIANTS Laws Emit
CHECK_DEADLOCK FALSE
