SPECIFICATION Spec
CONSTANT Family = "F2"
INVARIANTS Stutter Idempotent Emit
CHECK_DEADLOCK FALSE
