------------------------------- MODULE Instance -------------------------------
(***************************************************************************)
(* A template instance under create / update / binding-map update.         *)
(*                                                                         *)
(* The reference layer is deliberately trivial — the property *is* "the    *)
(* instance equals a fresh render":                                        *)
(*   Create(D)      tree' = Render(tmpl, D)                                *)
(*   Update(D', U)  enabled only if U covers Diff(data, D');               *)
(*                  tree' = Render(tmpl, D')                               *)
(*   BMUpdate(f, v) data' = data with field f replaced; tree' likewise     *)
(* What this module adds is the space of *histories*: which data edits     *)
(* exist, which update-path trees cover them (exact, coarsened, `true`),   *)
(* and the check that every covering offered really covers the diff.       *)
(***************************************************************************)
EXTENDS WxmlSem

(* ---- paths and edits ---------------------------------------------------- *)
(* a path is a sequence of string keys: object fields, and array indices in decimal (as in the
   runtime's update-path trees) *)
IdxOf(key) == CASE key = "0" -> 0 [] key = "1" -> 1 [] key = "2" -> 2 [] key = "3" -> 3 [] key = "4" -> 4 [] OTHER -> 99

RECURSIVE SetPath(_, _, _)
SetPath(v, path, nv) ==
    IF path = <<>> THEN nv
    ELSE LET key == path[1]  rest == Tail(path) IN
         CASE v.k = "obj" ->
                 LET i == FindKey(v.kv, key, Len(v.kv)) IN
                 IF i = 0 THEN (IF rest = <<>> THEN VO(Append(v.kv, <<key, nv>>)) ELSE v)
                 ELSE VO([v.kv EXCEPT ![i] = <<key, SetPath(v.kv[i][2], rest, nv)>>])
           [] v.k = "arr" ->
                 LET j == IdxOf(key) IN
                 IF j < Len(v.xs) THEN VA([v.xs EXCEPT ![j + 1] = SetPath(v.xs[j + 1], rest, nv)]) ELSE v
           [] OTHER -> v

(* leaf paths at which two values differ; a change of kind or of length marks the node itself *)
RECURSIVE Diff(_, _, _), DiffKV(_, _, _, _), DiffXS(_, _, _, _)
KeySeq(v) == [i \in 1..Len(v.kv) |-> v.kv[i][1]]
Diff(a, b, pre) ==
    IF a = b THEN {}
    ELSE IF a.k = "obj" /\ b.k = "obj" /\ Len(a.kv) <= Len(b.kv) /\ SubSeq(KeySeq(b), 1, Len(a.kv)) = KeySeq(a)
         THEN DiffKV(a, b, pre, 1)         \* same keys, possibly with new ones appended
    ELSE IF a.k = "arr" /\ b.k = "arr" /\ Len(a.xs) = Len(b.xs)
         THEN DiffXS(a, b, pre, 1)
    ELSE {pre}
DiffKV(a, b, pre, i) ==
    IF i > Len(b.kv) THEN {}
    ELSE (IF i > Len(a.kv) THEN {Append(pre, b.kv[i][1])}
          ELSE Diff(a.kv[i][2], b.kv[i][2], Append(pre, a.kv[i][1]))) \cup DiffKV(a, b, pre, i + 1)
DiffXS(a, b, pre, i) ==
    IF i > Len(a.xs) THEN {}
    ELSE Diff(a.xs[i], b.xs[i], Append(pre, NatStr(i - 1))) \cup DiffXS(a, b, pre, i + 1)

IsPrefixOf(q, p) == Len(q) <= Len(p) /\ SubSeq(p, 1, Len(q)) = q
(* U (a set of paths marked `true`) covers a set of changed paths *)
Covers(U, ps) == \A p \in ps : \E q \in U : IsPrefixOf(q, p)

Parent(p) == IF p = <<>> THEN <<>> ELSE SubSeq(p, 1, Len(p) - 1)
Exact(ps)   == ps
Coarse(ps)  == {Parent(p) : p \in ps}
Whole      == {<<>>}

(* ---- the edit menu -------------------------------------------------------- *)
Flip(v) == CASE v.k = "int"  -> IF v.i = 0 THEN VI(1) ELSE IF v.i = 1 THEN VI(2) ELSE VI(0)
             [] v.k = "str"  -> IF v.s = "t1" THEN VS("t2") ELSE IF v.s = "" THEN VS("t1") ELSE IF v.s = "t2" THEN VS("") ELSE VS("t1")
             [] v.k = "bool" -> VB(~v.b)
             [] v.k \in {"undef", "null"} -> VS("t1")
             [] OTHER -> VN

ObjA == VO(<< <<"p", VS("op")>>, <<"q", VI(0)>> >>)
ObjB == VO(<< <<"p", VS("op2")>>, <<"q", VI(0)>>, <<"x", VS("ox")>> >>)
LstA == VA(<<VS("l0"), VS("l1")>>)
It(k, v) == VO(<< <<"k", VS(k)>>, <<"v", VI(v)>> >>)
LstKeyed == VA(<<It("k1", 1), It("k2", 2), It("k3", 3)>>)

EditsOn(d) ==
    LET a == GetS(d, "a")  b == GetS(d, "b")  o == GetS(d, "o")  l == GetS(d, "l")  s == GetS(d, "s")
        Ea == [p |-> <<"a">>, v |-> Flip(a)]
        Eb == [p |-> <<"b">>, v |-> Flip(b)]
        Es == [p |-> <<"s">>, v |-> Flip(s)]
        Eo == IF o.k = "obj" /\ FindKey(o.kv, "p", Len(o.kv)) # 0
              THEN [p |-> <<"o", "p">>, v |-> Flip(GetS(o, "p"))] ELSE [p |-> <<"o">>, v |-> ObjA]
        El == CASE l.k = "arr" /\ Len(l.xs) > 0 /\ l.xs[1].k = "obj" -> [p |-> <<"l", "0", "v">>, v |-> Flip(GetS(l.xs[1], "v"))]
                [] l.k = "arr" /\ Len(l.xs) > 0 -> [p |-> <<"l", "0">>, v |-> Flip(l.xs[1])]
                [] l.k = "obj" /\ Len(l.kv) > 0 -> [p |-> <<"l", l.kv[1][1]>>, v |-> Flip(l.kv[1][2])]
                [] OTHER -> [p |-> <<"l">>, v |-> LstA]
        leaf == {Ea, Eb, Eo, El}
        (* structural edits of the list and of the object *)
        grow == IF l.k = "arr" THEN {[p |-> <<"l">>, v |-> VA(Append(l.xs, IF Len(l.xs) > 0 /\ l.xs[1].k = "obj" THEN It("k9", 9) ELSE VS("l9")))]} ELSE {}
        shrink == IF l.k = "arr" /\ Len(l.xs) > 0 THEN {[p |-> <<"l">>, v |-> VA(SubSeq(l.xs, 1, Len(l.xs) - 1))],
                                                        [p |-> <<"l">>, v |-> VA(Tail(l.xs))]} ELSE {}
        rev == IF l.k = "arr" /\ Len(l.xs) > 1 THEN {[p |-> <<"l">>, v |-> VA([i \in 1..Len(l.xs) |-> l.xs[Len(l.xs) + 1 - i]])],
                                                      [p |-> <<"l">>, v |-> VA(<<l.xs[1]>> \o l.xs)]} ELSE {}   \* reversed; duplicated head (shared keys)
        kinds == {[p |-> <<"l">>, v |-> x] : x \in {LstA, LstKeyed, VO(<< <<"k1", VS("v1")>>, <<"k2", VS("v2")>> >>),
                                                     VS("ab"), VI(2), VU, VA(<<>>)} \ {l}}
        objs == {[p |-> <<"o">>, v |-> x] : x \in {VN, ObjA, ObjB, LstA} \ {o}}
    IN    {<<e>> : e \in leaf \cup {Es} \cup grow \cup shrink \cup rev \cup kinds \cup objs}
     \cup {<<e1, e2>> : e1 \in {Ea}, e2 \in {Eb, Eo, El} \cup grow \cup shrink \cup kinds}
     \cup {<<Ea, Eb, Eo, El>>, <<Eb, Eo>>, <<Eb, El>>, <<Eo, El>>, <<Ea, Eb, Eo>>, <<Eb, Eo, El>>}

RECURSIVE ApplyEdits(_, _, _)
ApplyEdits(d, es, i) == IF i > Len(es) THEN d ELSE ApplyEdits(SetPath(d, es[i].p, es[i].v), es, i + 1)
EditPaths(es) == {es[i].p : i \in 1..Len(es)}

Coverings(ps) == {Exact(ps), Coarse(ps), Whole}
=============================================================================
