------------------------------- MODULE MCPaths -------------------------------
EXTENDS Paths, TLC, Json
CONSTANTS MaxBase, MaxRel, Segs
VARIABLES base, rel, abs
vars == <<base, rel, abs>>

SeqsUpTo(n) == UNION {[1..k -> Segs] : k \in 1..n}
(* a relative reference cannot begin with an empty segment: that spelling *is* the absolute one *)
Init == base \in SeqsUpTo(MaxBase) /\ rel \in SeqsUpTo(MaxRel) /\ abs \in BOOLEAN /\ (abs \/ rel[1] # "")
Next == UNCHANGED vars
Spec == Init /\ [][Next]_vars

Laws == /\ PathIdempotent(base, rel, abs) /\ NeverAboveRoot(base, rel, abs)
        /\ AbsIgnoresBase(base, <<"q">>, rel) /\ DotIsIdentity(base, rel, abs)
Emit == PrintT(<<"CASE", ToJson([b |-> JoinPath(base), r |-> (IF abs THEN "/" ELSE "") \o JoinPath(rel), x |-> JoinPath(ResolvePath(base, rel, abs))])>>)
=============================================================================
