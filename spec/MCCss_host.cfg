SPECIFICATION Spec
CONSTANTS
  Family = "host"
  Scale = "quick"
INVARIANTS BalancedBoth Partition Emit
CHECK_DEADLOCK FALSE
