SPECIFICATION Spec
CONSTANTS
  Family = "sel"
  Scale = "thorough"
INVARIANTS BalancedBoth Partition Emit
CHECK_DEADLOCK FALSE
