-------------------------------- MODULE MCCss --------------------------------
(***************************************************************************)
(* Bounded stylesheet space and option sets for C08-C10, C17-C19: every    *)
(* case is a stylesheet tree, an option record and the two token sequences *)
(* the reference transducer CssRewrite says must come out.                 *)
(***************************************************************************)
EXTENDS CssRewrite, Json

CONSTANTS Family, Scale        \* Scale: "quick" | "thorough" (size of the selector family)
VARIABLES sheet, opt
vars == <<sheet, opt>>

(* token constructors; ids are filled in by Label *)
T(k, v, w) == [k |-> k, v |-> v, w |-> w, id |-> <<>>]
I(v, w)    == T("ident", v, w)
Dl(c, w)   == T("delim", c, w)
Hs(v, w)   == T("idhash", v, w)
Hx(v, w)   == T("hash", v, w)
Col(w)     == T("colon", "", w)
Com(w)     == T("comma", "", w)
Str(v, w)  == T("string", v, w)
Url(v, w)  == T("url", v, w)
Fn(n, a, w)  == [k |-> "func", v |-> n, a |-> a, w |-> w, id |-> <<>>]
Par(a, w)    == [k |-> "paren", v |-> "", a |-> a, w |-> w, id |-> <<>>]
Brk(a, w)    == [k |-> "brack", v |-> "", a |-> a, w |-> w, id |-> <<>>]
Cur(a, w)    == [k |-> "curly", v |-> "", a |-> a, w |-> w, id |-> <<>>]
Dim(n, u, w) == [k |-> "dim", n |-> n, unit |-> u, w |-> w, id |-> <<>>]
Num(n, w)    == [k |-> "num", n |-> n, unit |-> "", w |-> w, id |-> <<>>]
Pct(n, w)    == [k |-> "pct", n |-> n, unit |-> "%", w |-> w, id |-> <<>>]

Decl(p, v)  == [p |-> p, v |-> v, semi |-> TRUE, id |-> <<>>]
DeclL(p, v) == [p |-> p, v |-> v, semi |-> FALSE, id |-> <<>>]
Rule(sel, decls) == [t |-> "rule", sel |-> sel, decls |-> decls, id |-> <<>>]
At(name, pre, kind, body) == [t |-> "at", name |-> name, pre |-> pre, kind |-> kind, body |-> body, id |-> <<>>]
Import(form, path, layer, supp, media) ==
    [t |-> "import", form |-> form, path |-> path, layer |-> layer, sub |-> "", supports |-> supp, media |-> media, semi |-> TRUE, id |-> <<>>]
(* an import that is ended by the end of the sheet or of the enclosing block instead of a `;` (css-syntax: an at-rule ends there too) *)
ImportEnd(form, path, layer, supp, media) == [Import(form, path, layer, supp, media) EXCEPT !.semi = FALSE]
ImportSub(form, path, layer, sub, supp, media) == [Import(form, path, layer, supp, media) EXCEPT !.sub = sub]
Frame(sel, decls) == [sel |-> sel, decls |-> decls, id |-> <<>>]

Red == <<Decl("color", <<I("red", FALSE)>>)>>
NoOpt == [prefix |-> "none", sign |-> "none", host |-> FALSE, hostIs |-> "none", importSign |-> "none"]
PrefixOpts == {[NoOpt EXCEPT !.prefix = p, !.sign = s] : p \in {"none", "", "p", "~E~x"}, s \in {"none", "S"}}

-----------------------------------------------------------------------------
(* selectors.  (The big families take a dummy parameter so that TLC does not evaluate all of them as
   constants at start-up, whatever Family is.) *)
SetW(ts, w) == [ts EXCEPT ![1].w = w]
Compounds == { <<Dl(".", FALSE), I("a", FALSE)>>, <<I("div", FALSE)>>, <<Hs("i1", FALSE)>>, <<Dl("*", FALSE)>>,
               <<Brk(<<I("href", FALSE), Dl("=", FALSE), Str("x.y", FALSE)>>, FALSE)>>,
               <<Col(FALSE), I("hover", FALSE)>>, <<I("b", FALSE), Dl(".", FALSE), I("c", FALSE), Col(FALSE), I("focus", FALSE)>>,
               <<Dl(".", FALSE), I("a", FALSE), Dl(".", FALSE), I("b-c", FALSE)>>, <<Dl("&", FALSE)>> }
Join2(c1, c2) ==      \* every way two compounds can stand next to each other
    { c1 \o SetW(c2, TRUE) }                                                            \* descendant
    \cup { c1 \o <<Dl(x, w1)>> \o SetW(c2, w2) : x \in {">", "+", "~"}, w1 \in BOOLEAN, w2 \in BOOLEAN }
    \cup { c1 \o <<Com(w1)>> \o SetW(c2, w2) : w1 \in BOOLEAN, w2 \in BOOLEAN }
    \cup (IF c2[1].k \in {"delim", "colon", "brack", "idhash"} /\ ~(c2[1].k = "delim" /\ c2[1].v \in {"*", "&"}) /\ ~(c1[Len(c1)].k = "delim")
          THEN { c1 \o c2 } ELSE {})                                                    \* no gap: one compound
Sel2(lazy) == UNION { Join2(c1, c2) : c1 \in Compounds, c2 \in Compounds }
(* (the class `1` is written `\31 ` - an escape ending in the white space that terminates it - and serialised the same way) *)
SelFew == UNION { Join2(c1, c2) : c1 \in {<<Dl(".", FALSE), I("a", FALSE)>>, <<I("div", FALSE)>>, <<Col(FALSE), I("hover", FALSE)>>, <<Dl(".", FALSE), I("1", FALSE)>>},
                                  c2 \in {<<Dl(".", FALSE), I("b", FALSE)>>, <<Hs("i1", FALSE)>>, <<Brk(<<I("x", FALSE)>>, FALSE)>>,
                                          <<Dl(".", FALSE), I("A", FALSE)>>} }        \* (class names are case-sensitive: .a and .A are two classes)
(* a compound that starts with a type selector and a pseudo-class, then a class: as the argument of a selector function or
   in a prelude block its first two tokens look like `name:` of a declaration *)
SelTypePseudo == { <<I("li", FALSE), Col(FALSE), I("hover", FALSE), Dl(".", TRUE), I("tip", FALSE)>>,
                   <<I("li", FALSE), Col(TRUE), I("hover", FALSE), Dl(".", FALSE), I("tip", FALSE), Com(FALSE), Dl(".", TRUE), I("other", FALSE)>> }
RECURSIVE NestR(_, _)
NestR(fs, s) == IF fs = <<>> THEN s ELSE <<Col(FALSE), Fn(Head(fs), NestR(Tail(fs), s), FALSE)>>
FuncNests == IF Scale = "quick" THEN { <<"not">>, <<"is", "not">>, <<"where", "has", "not">> }
             ELSE { <<"not">>, <<"is">>, <<"where">>, <<"has">>, <<"host">>, <<"not", "is">>, <<"is", "not">>, <<"where", "has", "not">>,
                    <<"not", "is", "where">> }
(* "at any depth": chains of five, six and eight selector functions, with a sibling argument and a compound behind the
   outermost function (what follows a deep block is in selector context again) *)
DeepNests == { <<"not", "is", "where", "has", "not">>, <<"is", "not", "is", "not", "is", "where">>,
               <<"not", "not", "not", "not", "not", "not", "not", "not">> }
DeepInner == { <<Dl(".", FALSE), I("d", FALSE), Dl(">", TRUE), Dl(".", TRUE), I("e", FALSE)>>,
               <<Dl(".", FALSE), I("deep", FALSE), Com(FALSE), Dl(".", TRUE), I("deep2", FALSE)>>,
               <<I("li", FALSE), Dl(".", TRUE), I("a", FALSE)>> }
SelDeep == { <<Dl(".", FALSE), I("x", FALSE), Col(FALSE),
               Fn("is", NestR(fs, s) \o <<Com(FALSE), Dl(".", TRUE), I("shallow", FALSE)>>, FALSE), Dl(".", TRUE), I("tail", FALSE)>>
             : fs \in DeepNests, s \in DeepInner }
SelNested(lazy) == { <<Dl(".", FALSE), I("x", FALSE)>> \o NestR(fs, s) : fs \in FuncNests, s \in SelFew \cup SelTypePseudo }
             \cup SelDeep
             \cup { <<Col(FALSE), Col(FALSE), Fn("slotted", s, FALSE)>> : s \in SelFew }
             \cup { <<I("li", FALSE), Col(FALSE), Fn("nth-child", <<Dim(29, "n", FALSE), Num(30, FALSE), I("of", TRUE)>> \o SetW(s, TRUE), FALSE)>> : s \in SelFew }
             \cup { <<Col(FALSE), Fn("not", <<Dl(".", w), I("a", FALSE), Com(FALSE), Dl(".", TRUE), I("b", FALSE)>>, FALSE), Dl(".", w), I("c", FALSE)>> : w \in BOOLEAN }

WrappersQ(r) == { <<r>>, <<At("layer", <<I("base", TRUE)>>, "rules", <<r>>)>>, <<At("MEDIA", <<I("screen", TRUE)>>, "rules", <<r>>)>>,
                 <<At("container", <<I("card", TRUE), Par(<<I("min-width", FALSE), Col(FALSE), Dim(3, "rpx", TRUE)>>, TRUE)>>, "rules", <<r>>)>>,
                 <<At("media", <<I("screen", TRUE)>>, "rules", <<At("scope", <<Par(<<Dl(".", FALSE), I("s", FALSE)>>, TRUE)>>, "rules", <<r, Rule(<<I("p", FALSE)>>, Red)>>)>>)>> }
WrappersT(r) == { <<r>>, <<At("MEDIA", <<I("screen", TRUE)>>, "rules", <<r>>)>>, <<At("Supports", <<Par(<<I("a", FALSE), Col(FALSE), I("b", FALSE)>>, TRUE)>>, "rules", <<r>>)>>,
                 <<At("media", <<Par(<<I("min-width", FALSE), Col(FALSE), Dim(3, "px", TRUE)>>, TRUE)>>, "rules", <<r>>)>>,
                 <<At("supports", <<Par(<<I("display", FALSE), Col(FALSE), I("grid", TRUE)>>, TRUE)>>, "rules", <<r>>)>>,
                 <<At("layer", <<I("base", TRUE)>>, "rules", <<r>>)>>,
                 <<At("container", <<I("card", TRUE), Par(<<I("min-width", FALSE), Col(FALSE), Dim(3, "rpx", TRUE)>>, TRUE)>>, "rules", <<r>>)>>,
                 <<At("scope", <<Par(<<Dl(".", FALSE), I("s", FALSE)>>, TRUE)>>, "rules", <<r>>)>>,
                 <<At("media", <<I("screen", TRUE)>>, "rules", <<At("layer", <<I("l2", TRUE)>>, "rules", <<r, Rule(<<I("p", FALSE)>>, Red)>>)>>)>>,
                 <<At("layer", <<>>, "rules", <<At("supports", <<Par(<<I("a", FALSE), Col(FALSE), I("b", FALSE)>>, TRUE)>>, "rules",
                        <<At("media", <<I("print", TRUE)>>, "rules", <<r>>)>>)>>)>> }
(* the rule standing directly after a STATEMENT at-rule (one that ends at its `;` although its name may also open a
   block), at the top level and inside a rule-bearing at-rule *)
StmtLayer == At("layer", <<I("a", TRUE), Com(FALSE), I("b", TRUE)>>, "stmt", <<>>)
AfterStmt(r) == { <<StmtLayer, r>>, <<At("layer", <<I("a", TRUE)>>, "stmt", <<>>), r>>,
                  <<At("media", <<I("screen", TRUE)>>, "rules", <<StmtLayer, r, Rule(<<Dl(".", FALSE), I("t", FALSE)>>, Red)>>)>>,
                  <<At("charset", <<Str("utf-8", TRUE)>>, "stmt", <<>>), r>>,
                  <<At("unknown", <<I("x", TRUE)>>, "stmt", <<>>), r>> }
Wrappers(r) == IF Scale = "quick" THEN WrappersQ(r) ELSE WrappersT(r)

FSel(lazy) == UNION { Wrappers(Rule(s, Red)) : s \in SelFew \cup SelNested(0) } \cup { <<Rule(s, Red)>> : s \in Sel2(0) }
              (* a deep chain inside the prelude block of an at-rule: `@supports (selector(:not(:is(..(.s))))) { .y {} }` *)
              \cup { <<At("supports", <<Par(<<Fn("selector", NestR(fs, <<Dl(".", FALSE), I("s", FALSE)>>), FALSE)>>, TRUE)>>, "rules",
                         <<Rule(<<Dl(".", FALSE), I("y", FALSE)>>, Red)>>)>> : fs \in DeepNests \cup {<<"not">>} }
              \cup UNION { AfterStmt(Rule(s, Red)) : s \in IF Scale = "quick" THEN SelFew ELSE SelFew \cup SelNested(0) }

-----------------------------------------------------------------------------
(* values and numbers: n indexes the harness's numeric pool *)
Pool == (1..28) \cup {31, 32, 33, 34}       \* 34: an explicitly signed zero
ValShapes(d) == { <<d>>, <<Num(2, FALSE), [d EXCEPT !.w = TRUE]>>, <<d, Dim(3, "px", TRUE)>>,
                  <<Fn("calc", <<d, Dl("+", TRUE), Dim(3, "px", TRUE)>>, FALSE)>>,
                  <<Fn("calc", <<Dim(3, "px", FALSE), Dl("-", TRUE), [d EXCEPT !.w = TRUE]>>, FALSE)>>,
                  <<Fn("calc", <<d, Dl("*", FALSE), Num(2, FALSE)>>, FALSE)>>,
                  <<Fn("calc", <<Par(<<d, Dl("+", TRUE), Dim(3, "em", TRUE)>>, FALSE), Dl("/", TRUE), Num(2, TRUE)>>, FALSE)>>,
                  <<Fn("min", <<d, Com(FALSE), Fn("calc", <<Pct(4, FALSE), Dl("-", TRUE), [d EXCEPT !.w = TRUE]>>, TRUE)>>, FALSE)>>,
                  <<Fn("translate", <<d, Com(FALSE), [d EXCEPT !.w = TRUE]>>, FALSE)>>,
                  <<Fn("var", <<I("--x", FALSE), Com(FALSE), [d EXCEPT !.w = TRUE]>>, FALSE)>> }
NumToks(n) == { Dim(n, "rpx", FALSE), Dim(n, "px", FALSE), Num(n, FALSE), Pct(n, FALSE), Dim(n, "em", FALSE) }
FVal(lazy) == UNION { { <<Rule(<<Dl(".", FALSE), I("a", FALSE)>>, <<Decl(p, v)>>)>> : v \in ValShapes(d), p \in {"width", "--w"} } :
                d \in UNION { NumToks(n) : n \in Pool } }
        \cup { <<At("media", <<Par(<<I("min-width", FALSE), Col(FALSE), [d EXCEPT !.w = TRUE]>>, TRUE)>>, "rules",
                   <<Rule(<<I("p", FALSE)>>, <<Decl("margin", <<d, [d EXCEPT !.w = TRUE]>>)>>)>>)>> : d \in UNION { NumToks(n) : n \in Pool } }
        \cup { <<At("font-face", <<>>, "decls", <<Decl("font-family", <<Str("F", FALSE)>>), Decl("size-adjust", <<d>>)>>)>> : d \in UNION { NumToks(n) : n \in 1..6 } }
        \cup { <<At("keyframes", <<I("k", TRUE)>>, "keyframes", <<Frame(<<I("from", FALSE)>>, <<Decl("left", <<d>>)>>), Frame(<<Pct(4, FALSE)>>, <<Decl("left", <<d>>)>>)>>)>> :
                 d \in UNION { NumToks(n) : n \in 1..6 } }
        \cup { <<Rule(<<I("li", FALSE), Col(FALSE), Fn("nth-child", <<Dim(29, "n", FALSE), Num(b, FALSE)>>, FALSE)>>, <<Decl("z-index", <<Num(n, FALSE)>>)>>)>> :
                 n \in Pool, b \in {30, 34, 27} }      \* An+B with B spelled +1, +0, +26

(* calc(): every operand kind on either side of every operator, at the top of calc(), inside parentheses and inside
   functions nested in it, with the operator's white space present (where css-values requires it, around + and -)
   or absent (around * and /) *)
CalcOperands == { <<Dim(3, "px", FALSE)>>, <<Dim(2, "rpx", FALSE)>>, <<Pct(4, FALSE)>>, <<Num(2, FALSE)>>, <<I("pi", FALSE)>>,
                  <<Par(<<Dim(3, "px", FALSE), Dl("+", TRUE), Dim(3, "em", TRUE)>>, FALSE)>>,
                  <<Par(<<Dim(2, "rpx", FALSE), Dl("*", FALSE), Num(2, FALSE)>>, FALSE)>>,
                  <<Fn("var", <<I("--x", FALSE)>>, FALSE)>>,
                  <<Fn("min", <<Dim(3, "px", FALSE), Dl("-", TRUE), Dim(2, "rpx", TRUE), Com(FALSE), Pct(4, TRUE)>>, FALSE)>>,
                  <<Fn("calc", <<Num(1, FALSE), Dl("+", TRUE), Num(2, TRUE)>>, FALSE)>>,
                  <<Num(8, FALSE)>> }      \* pool entry 8: a negative number, so that `- -1` is met
CalcSums == { l \o <<Dl(op, TRUE)>> \o SetW(r, TRUE) : l \in CalcOperands, r \in CalcOperands, op \in {"+", "-"} }
       \cup { l \o <<Dl(op, w1)>> \o SetW(r, w2) : l \in CalcOperands, r \in CalcOperands, op \in {"*", "/"}, w1 \in BOOLEAN, w2 \in BOOLEAN }
(* (function names are ASCII case-insensitive; min / max / clamp are math functions like calc) *)
CalcWraps(e) == { <<Fn("calc", e, FALSE)>>, <<Fn("CALC", e, FALSE)>>,
                  <<Fn("calc", <<Par(e, FALSE), Dl("*", TRUE), Num(2, TRUE)>>, FALSE)>>,
                  <<Fn("min", e \o <<Com(FALSE), Dim(3, "px", TRUE)>>, FALSE)>>, <<Fn("MIN", e, FALSE)>>,
                  <<Fn("clamp", <<Dim(3, "px", FALSE), Com(FALSE)>> \o SetW(e, TRUE) \o <<Com(FALSE), Pct(4, TRUE)>>, FALSE)>>,
                  <<Fn("translate", <<Fn("max", e \o <<Com(FALSE), Num(2, TRUE)>>, FALSE)>>, FALSE)>>,
                  <<Fn("calc", <<Fn("max", e \o <<Com(FALSE), Dim(3, "px", TRUE)>>, FALSE)>>, FALSE)>>,
                  <<Fn("translate", <<Fn("calc", e, FALSE), Com(FALSE), Num(1, TRUE)>>, FALSE)>> }
FCalc(lazy) == { <<Rule(<<Dl(".", FALSE), I("a", FALSE)>>, <<Decl(p, v)>>)>> : v \in UNION { CalcWraps(e) : e \in CalcSums }, p \in {"width"} }
          \cup { <<At("media", <<Par(<<I("min-width", FALSE), Col(FALSE), Fn("calc", e, TRUE)>>, TRUE)>>, "rules",
                     <<Rule(<<I("p", FALSE)>>, Red)>>)>> : e \in {x \in CalcSums : x[2].v \in {"+", "-"}} }

(* spelling-sensitive values and every token kind *)
(* U+FEFF as the first character of the text handed to the compiler (it is given a decoded string: the character is an
   identifier code point like any other outside ASCII, and every position on the first line counts it) *)
FBom == { <<Rule(<<I("~B~div", FALSE), Dl(".", FALSE), I("a", FALSE)>>, <<Decl("width", <<Dim(2, "rpx", FALSE)>>)>>), Rule(<<Dl(".", FALSE), I("b", FALSE)>>, Red)>>,
          <<Rule(<<I("~B~", FALSE), Dl(".", FALSE), I("a", TRUE)>>, Red), Rule(<<I("p", FALSE)>>, <<Decl("width", <<Dim(3, "rpx", FALSE)>>)>>)>> }
FTok(lazy) == FBom \cup { <<Rule(<<Dl(".", FALSE), I("a", FALSE)>>, <<Decl(p[1], p[2])>>)>> : p \in {
            <<"color", <<Hx("0a0", FALSE)>>>>, <<"color", <<Hx("00FF00aa", FALSE)>>>>, <<"content", <<Str("a \"q\" \\ b", FALSE)>>>>,
            <<"content", <<Str("it's", FALSE)>>>>, <<"background", <<Url("a b.png", FALSE)>>>>, <<"background", <<Url("x(1).png", FALSE)>>>>,
            <<"font", <<Dim(3, "px", FALSE), Dl("/", FALSE), Num(2, FALSE), I("a", TRUE), Com(FALSE), Str("B c", TRUE)>>>>,
            <<"margin", <<Num(1, FALSE), I("auto", TRUE), Dl("!", TRUE), I("important", FALSE)>>>>,
            <<"grid-area", <<Num(2, FALSE), Dl("/", TRUE), Num(2, TRUE), Dl("/", TRUE), I("a", TRUE)>>>>,
            <<"transition", <<I("all", FALSE), Dim(5, "s", TRUE), I("ease", TRUE), Com(FALSE), I("color", TRUE), Dim(2, "s", TRUE)>>>>,
            <<"--custom", <<Brk(<<I("a", FALSE), Num(2, TRUE)>>, FALSE), Par(<<I("x", FALSE), Com(FALSE), I("y", TRUE)>>, TRUE), I("z", TRUE)>>>>,
            <<"width", <<Fn("calc", <<Fn("var", <<I("--a", FALSE)>>, FALSE), Dl("+", TRUE), Fn("min", <<Dim(3, "px", FALSE), Com(FALSE), Dim(3, "rpx", TRUE)>>, TRUE)>>, FALSE)>>>>,
            <<"ab", <<I("a", FALSE), Dl(".", FALSE), I("b", FALSE), Num(6, TRUE)>>>>,
            <<"--blk", <<Cur(<<I("a", FALSE), Col(FALSE), Dim(3, "rpx", TRUE), T("semi", "", FALSE), Dl(".", TRUE), I("c", FALSE)>>, TRUE), I("z", TRUE)>>>>,
            <<"quotes", <<Str("~L~", FALSE), Str("~R~", TRUE)>>>>,
            (* units that read like an exponent when pasted after the number: they need their escape kept *)
            <<"w1", <<Dim(3, "e5", FALSE)>>>>, <<"w2", <<Dim(11, "e5", FALSE)>>>>, <<"w3", <<Dim(3, "E-2", FALSE)>>>>, <<"w4", <<Dim(11, "e-2", FALSE)>>>>,
            <<"w5", <<Dim(3, "e", FALSE), Dim(11, "E", TRUE)>>>>, <<"w6", <<Dim(3, "ex", FALSE), Dim(3, "em", TRUE)>>>>,
            <<"filter", <<Fn("drop-shadow", <<Dim(2, "rpx", FALSE), Dim(2, "rpx", TRUE), Hx("000", TRUE)>>, FALSE)>>>> } }
        \cup { <<At("font-face", <<>>, "decls", <<Decl("unicode-range", <<I("U", FALSE), Num(27, FALSE)>>)>>)>>,
               <<At("font-face", <<>>, "decls", <<Decl("unicode-range", <<I("u", FALSE), Num(30, FALSE), Com(FALSE), I("U", TRUE), Num(27, FALSE)>>)>>)>>,
               <<At("charset", <<Str("utf-8", TRUE)>>, "stmt", <<>>), Rule(<<I("p", FALSE)>>, Red)>>,
               <<At("namespace", <<I("svg", TRUE), Url("http://x/y", TRUE)>>, "stmt", <<>>)>>,
               <<At("layer", <<I("a", TRUE), Com(FALSE), I("b", TRUE)>>, "stmt", <<>>), Rule(<<I("p", FALSE)>>, Red)>>,
               <<At("page", <<Col(TRUE), I("first", FALSE)>>, "decls", <<Decl("margin", <<Dim(3, "rpx", FALSE)>>)>>)>>,
               <<At("unknown", <<I("x", TRUE), Dim(3, "rpx", TRUE)>>, "stmt", <<>>)>>,
               (* class names that already look prefixed (for every prefix of PrefixOpts): they are class names like any other *)
               <<Rule(<<Dl(".", FALSE), I("p--a", FALSE), Dl(".", TRUE), I("--b", FALSE), Dl(".", FALSE), I("~E~x--c", FALSE), Col(FALSE),
                        Fn("not", <<Dl(".", FALSE), I("p--p--d", FALSE), Com(FALSE), Dl(".", TRUE), I("p-e", FALSE), Dl(".", TRUE), I("p", FALSE)>>, FALSE)>>, Red)>>,
               (* class names that need escapes in the source (utility-class spellings) *)
               <<Rule(<<Dl(".", FALSE), I("sm:flex", FALSE), Dl(".", TRUE), I("10px", FALSE), Com(FALSE), Dl(".", TRUE), I("w-1/2", FALSE), Dl(".", FALSE), I("-1a", FALSE),
                        Col(FALSE), Fn("is", <<Dl(".", FALSE), I("a.b", FALSE), Hs("i:d", TRUE)>>, FALSE)>>, <<Decl("width", <<Dim(3, "rpx", FALSE)>>)>>)>>,
               (* empty constructs *)
               <<Rule(<<Dl(".", FALSE), I("a", FALSE)>>, <<>>), Rule(<<Dl(".", FALSE), I("b", FALSE)>>, Red)>>,
               <<At("media", <<I("screen", TRUE)>>, "rules", <<>>), Rule(<<Dl(".", FALSE), I("b", FALSE)>>, Red)>>,
               <<At("media", <<I("screen", TRUE)>>, "rules", <<Rule(<<Dl(".", FALSE), I("a", FALSE), Dl(".", TRUE), I("c", FALSE)>>, <<>>)>>), Rule(<<I("p", FALSE)>>, <<>>)>>,
               <<At("font-face", <<>>, "decls", <<>>), At("keyframes", <<I("k", TRUE)>>, "keyframes", <<>>), At("layer", <<I("l", TRUE)>>, "rules", <<>>)>>,
               <<At("keyframes", <<I("k", TRUE)>>, "keyframes", <<Frame(<<I("from", FALSE)>>, <<>>), Frame(<<Pct(4, FALSE), Com(FALSE), I("to", TRUE)>>, <<Decl("left", <<Dim(3, "rpx", FALSE)>>)>>)>>)>>,
               <<Rule(<<Hs("i1", FALSE), Dl(".", TRUE), I("a", FALSE)>>, <<Decl("color", <<I("red", FALSE)>>), DeclL("top", <<Num(1, FALSE)>>)>>)>> }

-----------------------------------------------------------------------------
(* :host partition (C17) *)
(* block at-rules that hold no rules (declarations, keyframes), standing before the :host rule in the same chain *)
NoRules == { At("font-face", <<>>, "decls", <<Decl("font-family", <<Str("F", FALSE)>>)>>),
             At("keyframes", <<I("k", TRUE)>>, "keyframes", <<Frame(<<I("from", FALSE)>>, <<Decl("left", <<Dim(3, "rpx", FALSE)>>)>>)>>),
             At("page", <<Col(TRUE), I("first", FALSE)>>, "decls", <<Decl("margin", <<Dim(3, "px", FALSE)>>)>>),
             At("unknown", <<I("x", TRUE)>>, "decls", <<Decl("a", <<I("b", FALSE)>>)>>) }
HostSel == <<Col(FALSE), I("host", FALSE)>>
HD == <<Decl("color", <<I("pink", FALSE)>>), Decl("width", <<Dim(3, "rpx", FALSE)>>)>>
Ord(n) == Rule(<<Dl(".", FALSE), I(n, FALSE)>>, Red)
(* (an empty :host block is a rule too) *)
HostRules == { Rule(HostSel, HD), Rule(<<Col(FALSE), I("HOST", FALSE)>>, HD), Rule(HostSel, <<>>),
               Rule(<<Col(FALSE), Fn("host", <<Dl(".", FALSE), I("x", FALSE)>>, FALSE)>>, HD),
               Rule(HostSel \o <<Dl(".", TRUE), I("a", FALSE)>>, HD), Rule(HostSel \o <<Com(FALSE), Dl(".", FALSE), I("a", FALSE)>>, HD),
               Rule(HostSel \o <<Col(FALSE), I("hover", FALSE)>>, HD),
               (* :host further on in the selector list is a combination as well (dropped with a warning); ::host is not :host *)
               Rule(<<Dl(".", FALSE), I("a", FALSE), Col(TRUE), I("host", FALSE)>>, HD),
               Rule(<<Dl(".", FALSE), I("a", FALSE), Com(FALSE), Col(TRUE), I("host", FALSE)>>, HD),
               Rule(<<I("div", FALSE), Col(FALSE), I("HOST", FALSE)>>, HD),
               Rule(<<I("div", FALSE), Col(FALSE), Col(FALSE), I("host", FALSE)>>, HD),
               (* .. also right after another pseudo-class, a functional one, or an attribute selector of the same compound *)
               Rule(<<Dl(".", FALSE), I("b", FALSE), Col(FALSE), I("hover", FALSE), Col(FALSE), I("host", FALSE)>>, HD),
               Rule(<<Dl(".", FALSE), I("a", FALSE), Col(FALSE), Fn("not", <<Dl(".", FALSE), I("x", FALSE)>>, FALSE), Col(FALSE), I("host", FALSE)>>, HD),
               Rule(<<Col(FALSE), I("hover", FALSE), Brk(<<I("y", FALSE)>>, FALSE), Col(FALSE), I("HOST", FALSE)>>, HD),
               (* a {..} block inside the declarations of the :host rule: its `}` does not end the rule *)
               Rule(HostSel, <<Decl("--x", <<Cur(<<I("a", FALSE), Col(FALSE), I("b", TRUE)>>, TRUE)>>), Decl("width", <<Dim(3, "rpx", FALSE)>>)>>),
               Rule(HostSel, <<Decl("color", <<I("red", FALSE)>>), DeclL("--y", <<Cur(<<Cur(<<>>, FALSE), Dim(3, "rpx", TRUE)>>, FALSE)>>)>>) }
Chains(rs) == { rs, <<At("Media", <<I("screen", TRUE)>>, "rules", rs)>>,
                (* preludes with characters outside ASCII / outside the BMP: they are replayed as text in the low-priority output *)
                <<At("layer", <<I("~Z~~E~", TRUE)>>, "rules", rs)>>,
                <<At("supports", <<Par(<<I("font-family", FALSE), Col(FALSE), Str("~Z~ ~M~", TRUE)>>, TRUE)>>, "rules", <<Ord("k")>> \o rs)>>, <<At("media", <<Par(<<I("width", FALSE), Col(FALSE), Dim(3, "px", TRUE)>>, TRUE)>>, "rules", rs)>>,
                <<At("media", <<I("screen", TRUE)>>, "rules", <<Ord("m")>> \o <<At("supports", <<Par(<<I("color", FALSE), Col(FALSE), I("red", TRUE)>>, TRUE)>>, "rules", rs)>> \o <<Ord("n")>>)>>,
                <<At("supports", <<Par(<<I("a", FALSE), Col(FALSE), I("b", FALSE)>>, TRUE)>>, "rules",
                    <<At("media", <<I("print", TRUE)>>, "rules", <<At("media", <<Par(<<I("c", FALSE), Col(FALSE), Dim(3, "rpx", FALSE)>>, TRUE)>>, "rules", rs)>>)>>)>> }
FHost(lazy) == UNION { Chains(<<Ord("a"), h, Ord("b")>>) \cup Chains(<<h, h>>) \cup Chains(<<Ord("a"), h>>) : h \in HostRules }
          \cup UNION { Chains(<<n, h>>) \cup Chains(<<h, n, h, Ord("z")>>) : n \in NoRules, h \in {Rule(HostSel, HD)} }
          (* a :host rule BEHIND an inner at-rule that held one: leaving the inner block shortens the chain of wrappers again,
             level by level, down to no wrapper at all *)
          \cup (LET h == Rule(HostSel, HD)
                    sup(rs) == At("supports", <<Par(<<I("display", FALSE), Col(FALSE), I("grid", TRUE)>>, TRUE)>>, "rules", rs)
                    med(rs) == At("media", <<I("screen", TRUE)>>, "rules", rs)
                    lay(rs) == At("layer", <<I("x", TRUE)>>, "rules", rs)
                IN { <<med(<<Ord("a"), sup(<<h>>), h, Ord("b")>>)>>,
                     <<lay(<<med(<<sup(<<h>>), h>>), h>>), h>>,
                     <<med(<<sup(<<Ord("a")>>), h>>)>>,
                     <<med(<<sup(<<h>>), sup(<<h>>), h>>), med(<<h>>)>>,
                     <<lay(<<med(<<h>>), sup(<<h, Ord("c")>>), h>>), Ord("d"), h>>,
                     (* output that is not ASCII (not BMP) in FRONT of an all-ASCII at-rule holding a :host rule: the head of the
                        at-rule is replayed from the output written so far, wherever it begins *)
                     <<Ord("~E~"), med(<<Ord("c"), h>>)>>, <<Ord("~M~~Z~"), lay(<<sup(<<h>>), h>>)>> })
HostOpts == {[NoOpt EXCEPT !.host = hs, !.prefix = p, !.hostIs = hi] : hs \in BOOLEAN, p \in {"none", "p"}, hi \in {"none", "IS"}}

-----------------------------------------------------------------------------
(* @import placeholder (C18) *)
ImportPaths == {"a.wxss", "./a b", "../x/y.css", "a*/b", "q'r", "q\"r", "50%", "~E~/~Z~", "~M~", "a?b#c&d=e",
                "a%20b", "100%25off/%2A%2F", "%zz%2", "%", "%%41", "a+b c%2B", "a\\b",
                (* white space at either end of a path is part of the path (ASCII, no-break, ideographic, a tab) *)
                " a.wxss", "a.wxss ", " ", "~I~a.wxss", "a~N~", "~T~a b~T~"}
FImport(lazy) == { <<Import(f, p, l, s, m)>> : f \in {"string", "url"}, p \in ImportPaths, l \in {"none", "", "x"},
                                         s \in {<<>>, <<I("display", FALSE), Col(FALSE), I("grid", TRUE)>>},
                                         m \in {<<>>, <<I("screen", TRUE)>>, <<I("screen", TRUE), I("and", TRUE), Par(<<I("min-width", FALSE), Col(FALSE), Dim(3, "rpx", TRUE)>>, TRUE)>>} }
           (* media query lists in their other shapes: the media type all, a list, only / not, a bare feature query *)
           \cup { <<Import("string", "a", l, s, m)>> : l \in {"none", "x"}, s \in {<<>>, <<I("display", FALSE), Col(FALSE), I("grid", TRUE)>>},
                     m \in { <<I("all", TRUE)>>, <<I("all", TRUE), I("and", TRUE), Par(<<I("min-width", FALSE), Col(FALSE), Dim(3, "px", TRUE)>>, TRUE)>>,
                             <<I("all", TRUE), Com(FALSE), I("print", TRUE)>>, <<I("ALL", TRUE), I("and", TRUE), Par(<<I("color", FALSE)>>, TRUE)>>,
                             <<I("only", TRUE), I("screen", TRUE)>>, <<I("not", TRUE), I("all", TRUE)>>,
                             <<Par(<<I("min-width", FALSE), Col(FALSE), Dim(3, "rpx", TRUE)>>, TRUE)>>,
                             <<I("print", TRUE), Com(FALSE), I("screen", TRUE), I("and", TRUE), Par(<<I("orientation", FALSE), Col(FALSE), I("landscape", TRUE)>>, TRUE)>> } }
           \cup { <<Ord("a"), Import("string", p, "none", <<>>, <<>>)>> : p \in ImportPaths }
           \cup { <<Import("STRING", p, l, s, m)>> : p \in {"a.wxss", "a%20b"}, l \in {"none", "", "x"},      \* @IMPORT .. LAYER(x) SUPPORTS(..)
                     s \in {<<>>, <<I("display", FALSE), Col(FALSE), I("grid", TRUE)>>}, m \in {<<>>, <<I("screen", TRUE)>>} }
           \cup { <<Import("URLSTR", p, l, <<>>, m)>> : p \in {"a.wxss", "a%20b", "q'r"}, l \in {"none", "x"}, m \in {<<>>, <<I("screen", TRUE)>>} }
           (* dotted layer names (sub-layers) *)
           \cup { <<ImportSub(f, "a", "base", "comp", s, m)>> : f \in {"string", "url", "STRING"},
                     s \in {<<>>, <<Fn("selector", <<Dl(".", FALSE), I("k", FALSE)>>, FALSE)>>}, m \in {<<>>, <<I("screen", TRUE)>>} }
           (* an import after block at-rules only (no style rule before it) is "after other rules" too *)
           \cup { <<n, Import("string", "a", "none", <<>>, <<>>)>> : n \in NoRules }
           \cup { <<At("media", <<I("screen", TRUE)>>, "rules", <<Ord("m")>>), Import("url", "b", "x", <<>>, <<I("print", TRUE)>>)>>,
                  <<At("media", <<I("screen", TRUE)>>, "rules", <<At("supports", <<Par(<<I("a", FALSE), Col(FALSE), I("b", FALSE)>>, TRUE)>>, "rules", <<Ord("m")>>),
                                                                  Import("string", "c", "none", <<>>, <<>>)>>)>> }
           \cup { <<Import("string", "a", "none", <<>>, <<>>), Import("string", "b", "x", <<>>, <<I("print", TRUE)>>), Ord("z")>> }
           (* conditions that hold a calculation: the wrapper's condition is the import's, + and - keep their white space *)
           \cup { <<Import(f, "a", l, s, m)>> : f \in {"string", "url"}, l \in {"none", "x"},
                     s \in {<<>>, <<I("width", FALSE), Col(FALSE), Fn("calc", <<Dim(3, "px", FALSE), Dl("+", TRUE), Dim(3, "em", TRUE)>>, TRUE)>>},
                     m \in {<<Par(<<I("min-width", FALSE), Col(FALSE), Fn("calc", <<Dim(3, "px", FALSE), Dl(op, TRUE), Dim(2, "rpx", TRUE)>>, TRUE)>>, TRUE)>> : op \in {"+", "-"}} }
           (* imports ended by the end of the sheet / of their block, with and without conditions *)
           \cup { <<ImportEnd(f, p, l, s, m)>> : f \in {"string", "url"}, p \in {"a.wxss", "a b"}, l \in {"none", "x"},
                     s \in {<<>>, <<I("display", FALSE), Col(FALSE), I("grid", TRUE)>>},
                     m \in {<<>>, <<I("print", TRUE)>>, <<Par(<<I("min-width", FALSE), Col(FALSE), Dim(3, "px", TRUE)>>, TRUE)>>} }
           \cup { <<Import("string", "a", "none", <<>>, <<>>), ImportEnd("string", "b", l, <<>>, m)>> : l \in {"none", "x"}, m \in {<<>>, <<I("screen", TRUE)>>} }
           \cup { <<Ord("x"), At("layer", <<I("l", TRUE)>>, "rules", <<ImportEnd("string", "c", "none", <<>>, m)>>)>> :
                     m \in {<<>>, <<Par(<<I("min-width", FALSE), Col(FALSE), Dim(3, "px", TRUE)>>, TRUE)>>} }
           \cup { <<At("media", <<I("print", TRUE)>>, "rules", <<Ord("m"), ImportEnd("url", "c", "x", <<>>, <<I("screen", TRUE)>>)>>)>> }
           (* the same file imported more than once - under other conditions, in the other form, after another import: every
              occurrence is an import of its own (cascade order, layer and media differ) *)
           \cup { <<Import(f1, p, "none", <<>>, m1), Import(f2, p, l2, <<>>, m2), Ord("z")>> :
                     p \in {"a.wxss", "a%20b"}, f1 \in {"string"}, f2 \in {"string", "url"}, l2 \in {"none", "x"},
                     m1 \in {<<>>, <<I("screen", TRUE)>>}, m2 \in {<<>>, <<I("print", TRUE)>>} }
           \cup { <<Import("string", "a", "none", <<>>, <<>>), Import("string", "b", "none", <<>>, <<>>), Import("url", "a", "x", <<>>, <<>>)>>,
                  <<Import("string", "a", "none", <<>>, <<>>), Import("string", "a", "none", <<>>, <<>>), Import("string", "a", "none", <<>>, <<>>)>> }
           (* an import after a rule that leaves nothing in the normal output (a converted or dropped :host rule) is after a rule *)
           \cup { <<h, Import(f, "a", "none", <<>>, m)>> : f \in {"string", "url"}, m \in {<<>>, <<I("screen", TRUE)>>},
                     h \in { Rule(HostSel, HD), Rule(HostSel \o <<Dl(".", TRUE), I("a", FALSE)>>, HD),
                             Rule(<<Dl(".", FALSE), I("a", FALSE), Col(TRUE), I("host", FALSE)>>, HD) } }
ImportOpts == {[NoOpt EXCEPT !.importSign = s, !.prefix = p] : s \in {"none", "IMP"}, p \in {"none", "p"}}
              \cup {[NoOpt EXCEPT !.importSign = "IMP", !.host = TRUE], [NoOpt EXCEPT !.importSign = "IMP", !.host = TRUE, !.hostIs = "IS", !.prefix = "p"]}

-----------------------------------------------------------------------------
Sheets == CASE Family = "sel" -> FSel(0) [] Family = "val" -> FVal(0) [] Family = "tok" -> FTok(0) [] Family = "calc" -> FCalc(0)
            [] Family = "host" -> FHost(0) [] Family = "import" -> FImport(0)
SelOpts == {NoOpt, [NoOpt EXCEPT !.prefix = "p", !.sign = "S"], [NoOpt EXCEPT !.prefix = "~E~x"], [NoOpt EXCEPT !.prefix = ""]}
(* every option on at once: the rewrites must not disturb one another *)
AllOn == [prefix |-> "p", sign |-> "S", host |-> TRUE, hostIs |-> "IS", importSign |-> "IMP"]
FamilyOpts == CASE Family = "sel" -> (IF Scale = "quick" THEN SelOpts ELSE PrefixOpts) [] Family = "tok" -> PrefixOpts [] Family = "val" -> {NoOpt, [NoOpt EXCEPT !.prefix = "p"]}
          [] Family = "calc" -> {NoOpt}
          [] Family = "host" -> HostOpts [] Family = "import" -> ImportOpts
Opts == FamilyOpts \cup {AllOn}

Init == sheet \in {Label(s) : s \in Sheets} /\ opt \in Opts
Next == UNCHANGED vars
Spec == Init /\ [][Next]_vars

R == Rewrite(sheet, opt)

(* C17 at the level of the reference: brackets balance in both outputs; a rule is never in both *)
BalancedBoth == Balanced(R.normal) /\ Balanced(R.low)
RECURSIVE RuleIdsOf(_)
RuleIdsOf(its) == IF its = <<>> THEN {}
                  ELSE (IF its[1].t = "rule" THEN {its[1].id}
                        ELSE IF its[1].t = "at" /\ its[1].kind = "rules" THEN RuleIdsOf(its[1].body) ELSE {})
                       \cup RuleIdsOf(Tail(its))
OpenOf(out) == {out[i].prov : i \in {j \in 1..Len(out) : out[j].tok.k = "{" /\ ~out[j].raw}}
Partition == LET rn == OpenOf(R.normal) \cap RuleIdsOf(sheet)
                 rl == OpenOf(R.low) \cap RuleIdsOf(sheet)
                 dropped == {R.warn[i].id : i \in {j \in 1..Len(R.warn) : R.warn[j].kind = "HostSelectorCombination"}}
             IN rn \cap rl = {} /\ (rn \cup rl \cup dropped) = RuleIdsOf(sheet)
                /\ (~opt.host => rl = {})

Emit == PrintT(<<"CASE", ToJson([sheet |-> sheet, opt |-> opt, normal |-> R.normal, low |-> R.low, warn |-> R.warn])>>)
=============================================================================
