SPECIFICATION DSpec
CONSTANT DFamily = "struct"
INVARIANTS ExpectSane DEmit
CHECK_DEADLOCK FALSE
