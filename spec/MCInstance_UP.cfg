SPECIFICATION ISpec
CONSTANTS
  Family = "UP"
  MaxLen = 1
  CoverKinds = {"exact"}
INVARIANTS InstanceInv IEmit
CHECK_DEADLOCK FALSE
