------------------------------ MODULE MCInstance ------------------------------
(***************************************************************************)
(* Histories create(D0); update(D1, U1); ...; update(Dn, Un) over the      *)
(* template families, for C05 (shadowed fields), C06 (update soundness)    *)
(* and C14 (behaviour of re-printed templates).  A state is a behaviour    *)
(* prefix (hist); each complete behaviour is emitted with the tree the     *)
(* instance must show after every step.                                    *)
(***************************************************************************)
EXTENDS MCWxmlSem, Instance

CONSTANTS MaxLen,        \* number of updates per history
          CoverKinds     \* subset of {"exact", "coarse", "true"}

VARIABLES hist, d0
ivars == <<files, data, hist, d0>>

(* update families *)
UVals == {EV(e) : e \in Exprs} \cup {MV(<<S("x"), P(EA)>>), MV(<<P(EA), S(" "), P(Mem(Id("o"), "p"))>>)}
UA == {File1(<<Elem("v", <<Attr(fn[1], fn[2], v)>>, <<>>)>>) :
          fn \in {<<"plain", "p-a">>, <<"class", "">>, <<"style", "">>, <<"id", "">>, <<"data:", "k">>, <<"mark:", "k">>,
                  <<"bind", "tap">>, <<"mut-bind", "tap">>, <<"catch", "tap">>, <<"capture-bind", "tap">>, <<"capture-mut-bind", "tap">>,
                  <<"capture-catch", "tap">>, <<"model:", "v-x">>, <<"change:", "p-q">>, <<"slot", "">>}, v \in UVals}
      \cup {File1(<<SlotEl(v, <<Attr("plain", "p-a", w)>>)>>) : v \in {EV(EA), SV("n")}, w \in {EV(EB), EV(Mem(Id("o"), "p"))}}
UT == {File1(<<Text(ps)>>) : ps \in {x \in TextSeqs : GoodText(x) /\ \E i \in 1..Len(x) : x[i].t = "e"}}
(* template data, includes, slot values, wxs: contexts through which a marked path must travel *)
DefT == [n |-> "t", ch |-> <<Text(<<S("["), P(Id("y")), S("|"), P(Mem(Id("z"), "p")), S("]")>>),
                            Elem("v", <<Attr("plain", "p", EV(Id("y")))>>, <<>>)>>]
DefO == [n |-> "t2", ch |-> <<Text(<<S("<"), P(Mem(Id("o"), "p")), S(">")>>)>>]
FileD(root) == << [path |-> "a", imports |-> <<>>, wxs |-> <<>>, defs |-> <<DefT, DefO>>, root |-> root] >>
TData == {EV(Obj(<<Named("y", EA), Named("z", Id("o"))>>)), EV(Obj(<<Named("y", Mem(Id("o"), "p"))>>)),
          EV(Obj(<<Spread(Id("o")), Named("y", EB)>>)), EV(Obj(<<Named("y", Idx(Id("l"), Lit("0"))), Named("z", Obj(<<Named("p", EA)>>))>>)),
          EV(Obj(<<Short("o"), Named("y", Cond(EA, EB, Lit("'x'")))>>)), EV(Obj(<<Named("z", Id("o")), Named("y", Arr(<<Item(EA)>>))>>)),
          (* data that is not an object literal: an expression yielding the object (a lone identifier must be written in
             parentheses - `{{ o }}` is the literal `{o: o}`), a conditional, a string (no data at all) *)
          EV(Id("o")), EV(Cond(EA, Id("o"), Obj(<<Named("y", EB)>>))), EV(Lit("'abc'"))}
UD == {FileD(<<TmplIs(SV("t"), d)>>) : d \in TData}
      (* data that is ONE shorthand field (`data="{{ o }}"` is the object {o: o}, in every quoting of the attribute) *)
      \cup {FileD(<<TmplIs(SV("t2"), EV(Obj(<<Short("o")>>)))>>), FileD(<<TmplIs(SV("t2"), EV(Id("o")))>>)}
      \cup {FileD(<<TmplIs(EV(Cond(EA, Lit("'t'"), Lit("''"))), EV(Obj(<<Named("y", EB)>>)))>>),
            FileD(<<For(EV(Id("l")), "item", "index", "", <<TmplIs(SV("t"), EV(Obj(<<Named("y", Id("item")), Named("z", Id("o"))>>)))>>)>>),
            FileD(<<If(<<[c |-> EV(EA), ch |-> <<TmplIs(SV("t"), EV(Obj(<<Named("y", EB)>>)))>>]>>, FALSE, <<>>)>>)}
IncB == [path |-> "b", imports |-> <<>>, wxs |-> <<>>, defs |-> <<>>,
         root |-> <<Text(<<S("("), P(EA), S(","), P(Mem(Id("o"), "p")), S(")")>>), For(EV(Id("l")), "item", "index", "", <<Text(<<P(Id("item"))>>)>>)>>]
UI == { << [path |-> "a", imports |-> <<>>, wxs |-> <<>>, defs |-> <<>>, root |-> r], IncB >> :
          r \in { <<Include("b")>>, <<Elem("v", <<>>, <<Include("b")>>)>>,
                  <<If(<<[c |-> EV(EB), ch |-> <<Include("b")>>]>>, FALSE, <<>>)>>,
                  <<For(EV(Id("l")), "item", "index", "", <<Include("b")>>)>> } }
US == {File1(<<Elem("dyn-c", <<Attr("plain", "sv-x", v)>>,
                    <<Elem("c", <<Attr("slot:", "x", None), Attr("plain", "p", EV(Id("x")))>>,
                           <<Text(<<P(Id("x")), S("/"), P(EA)>>)>>)>>)>>) :
          v \in {EV(EA), EV(Mem(Id("o"), "p")), EV(Id("o")), EV(Id("l")), MV(<<S("x"), P(EB)>>)}}
      \cup {File1(<<Elem("dyn-c", <<Attr("plain", "sv-x", EV(Id("o")))>>,
                    <<Elem("c", <<Attr("slot:", "x", SV("y"))>>,
                           <<Text(<<P(Mem(Id("y"), "p"))>>), If(<<[c |-> EV(Mem(Id("y"), "p")), ch |-> <<Elem("t", <<>>, <<>>)>>]>>, FALSE, <<>>)>>)>>)>>)}

(* binding-map family: eligible bindings of every channel, and every unreachable position holding a field *)
BmEl(e1, e2) == Elem("v", <<Attr("plain", "p", EV(e1)), Attr("class", "", MV(<<S("c "), P(e2)>>))>>, <<Text(<<S("t"), P(e1)>>)>>)
Unreach(e) == { <<If(<<[c |-> EV(e), ch |-> <<Elem("x", <<>>, <<>>)>>]>>, FALSE, <<>>)>>,
                <<If(<<[c |-> SV("yes"), ch |-> <<Text(<<P(e)>>)>>]>>, FALSE, <<>>)>>,
                <<If(<<[c |-> EV(Id("s")), ch |-> <<Elem("x", <<>>, <<>>)>>], [c |-> EV(e), ch |-> <<Elem("y", <<>>, <<>>)>>]>>, TRUE, <<Text(<<P(e)>>)>>)>>,
                <<For(SV("ab"), "item", "index", "", <<Elem("v", <<Attr("plain", "p", EV(e))>>, <<>>)>>)>>,
                <<TmplIs(EV(e), None)>>, <<TmplIs(SV("t"), EV(Obj(<<Named("y", e)>>)))>>,
                <<SlotEl(EV(e), <<>>)>>, <<SlotEl(None, <<Attr("plain", "p", EV(e))>>)>>,
                <<BlockSlot(EV(e), <<Elem("x", <<>>, <<>>)>>)>>,
                <<Elem("w", <<>>, <<If(<<[c |-> SV("yes"), ch |-> <<Elem("x", <<Attr("id", "", EV(e))>>, <<>>)>>]>>, FALSE, <<>>)>>)>> }
              (* a binding that FOLLOWS a dynamic element nested in the dynamic subtree it stands in: leaving the inner
                 one does not leave the outer one *)
              \cup { <<For(SV("ab"), "item", "index", "", <<If(<<[c |-> SV("yes"), ch |-> <<Elem("x", <<>>, <<>>)>>]>>, FALSE, <<>>), Elem("v", <<Attr("plain", "p", EV(e))>>, <<>>)>>)>>,
                     <<If(<<[c |-> SV("yes"), ch |-> <<For(SV("ab"), "item", "index", "", <<Elem("x", <<>>, <<>>)>>), Text(<<P(e)>>)>>]>>, FALSE, <<>>)>>,
                     <<If(<<[c |-> SV("yes"), ch |-> <<SlotEl(None, <<>>), Text(<<P(e)>>)>>]>>, FALSE, <<>>)>>,
                     <<If(<<[c |-> SV("yes"), ch |-> <<TmplIs(SV("t"), None), Elem("v", <<Attr("id", "", EV(e))>>, <<>>)>>]>>, FALSE, <<>>)>>,
                     <<If(<<[c |-> SV("yes"), ch |-> <<If(<<[c |-> SV("yes"), ch |-> <<If(<<[c |-> SV("yes"), ch |-> <<Elem("x", <<>>, <<>>)>>]>>, FALSE, <<>>)>>]>>, FALSE, <<>>),
                                                      Text(<<P(e)>>)>>]>>, FALSE, <<>>)>>,
                     <<For(SV("ab"), "item", "index", "", <<Elem("w", <<>>, <<For(SV("a"), "x", "y", "", <<Elem("x", <<>>, <<>>)>>)>>), Elem("v", <<Attr("class", "", EV(e))>>, <<>>)>>)>> }
              \* a deferred call has no value the specification can unfold as a list
              \cup (IF e.k = "call" THEN {} ELSE {<<For(EV(e), "item", "index", "", <<Text(<<P(Id("item"))>>)>>)>>})
(* family UC (a part of UB that the quick tier replays in full instead of sampling): which function is CALLED depends on b *)
UC == {FileD(<<BmEl(e1, EB)>>) : e1 \in {Call(Cond(EB, Id("f"), Id("g")), <<EA>>), Call(Idx(Obj(<<Named("t1", Id("f"))>>), EB), <<EA>>),
                                         Call(Mem(Obj(<<Named("k", Cond(EB, Id("f"), Id("g")))>>), "k"), <<EA>>)}}
UB == {FileD(<<BmEl(EA, EB)>> \o u) : u \in UNION {Unreach(e) : e \in {EA, Mem(Id("o"), "p"), Idx(Id("l"), EB), Arr(<<Hole, Item(Id("s"))>>),
                                                                  Obj(<<Short("s")>>), Cond(Id("s"), EA, Lit("1")), Call(Id("f"), <<Id("s")>>)}}}
      (* ONE binding mentioning two fields, the first of which is used at an unreachable position LATER in the document
         (so it is withdrawn from the map after the binding was registered): the other field keeps its updaters *)
      \cup {FileD(<<Elem("v", <<Attr("class", "", MV(<<P(Cond(EA, Lit("'on'"), Lit("'off'"))), S(" "), P(EB)>>)),
                                  Attr("plain", "p", EV(Arr(<<Item(EA), Item(Id("s"))>>)))>>,
                          <<Text(<<P(EA), S("/"), P(Mem(Id("o"), "p"))>>)>>)>> \o u) : u \in Unreach(EA)}
      \cup {FileD(<<BmEl(e1, e2)>>) : e1 \in Exprs, e2 \in {EB, Mem(Id("o"), "p")}}
      (* a field read in the CALLEE of a call (which function is called depends on b), the same field also bound plainly:
         b stays advertised, and its updaters must include the call's bindings *)
      \cup UC
      \cup {FileD(<<Text(<<P(EA), S("-"), P(EB)>>), Block(<<Text(<<P(Mem(Id("o"), "p"))>>), Elem("j", <<Attr("data:", "k", EV(Id("s")))>>, <<>>)>>),
                    Elem("o", <<Attr("id", "", EV(EB))>>, <<Elem("i", <<Attr("style", "", EV(EA)), Attr("mark:", "m", EV(Id("l")))>>, <<>>)>>)>>)}
      \cup UA
      (* an <include> anywhere - at the top, in an element, in a branch, in a list body, in an else branch: the included
         file's bindings are out of the including file's map wherever the include stands, so nothing is advertised *)
      \cup { << [path |-> "a", imports |-> <<>>, wxs |-> <<>>, defs |-> <<>>, root |-> <<BmEl(EA, EB)>> \o r], IncB >> :
                r \in { <<Include("b")>>, <<Elem("w", <<>>, <<Include("b")>>)>>,
                        <<If(<<[c |-> EV(EB), ch |-> <<Include("b")>>]>>, FALSE, <<>>)>>,
                        <<If(<<[c |-> EV(Id("s")), ch |-> <<Elem("x", <<>>, <<>>)>>]>>, TRUE, <<Include("b")>>)>>,
                        <<For(EV(Id("l")), "item", "index", "", <<Include("b")>>)>>,
                        <<Elem("w", <<>>, <<If(<<[c |-> SV("yes"), ch |-> <<Block(<<Include("b")>>)>>]>>, FALSE, <<>>)>>)>> } }

(* fields named like members of Object.prototype, used where the map cannot reach: a map that is a plain object
   "has" them although it does not own them, and the runtime asks with `map[field]` *)
ProtoNames == {"constructor", "valueOf", "toString", "hasOwnProperty"}
UN == {FileD(<<BmEl(EA, EB)>> \o u) : u \in UNION {Unreach(Id(n)) : n \in ProtoNames}}
      \cup {FileD(<<BmEl(Id(n), EB)>>) : n \in ProtoNames}
      (* field names of which one is a part of another (s / xs, valueOf / value) read by ONE binding, the shorter one also
         bound somewhere else: each keeps the updaters of every binding that reads it *)
      \cup {FileD(<<Elem("v", <<Attr("class", "", MV(<<P(Id(n1)), S(" "), P(Id(n2))>>))>>, <<Text(<<P(Id(n1)), S(": "), P(Id(n2))>>)>>),
                    Elem("w", <<>>, <<Text(<<P(Id(n2))>>)>>)>>) : n1 \in {"valueOf", "constructor"}, n2 \in {"a", "s", "b"}}
      \cup {FileD(<<Elem("v", <<Attr("plain", "p", EV(Bin("+", Id("toString"), Id("s"))))>>, <<Text(<<P(Id("s")), P(Id("toString"))>>)>>), Text(<<P(Id("s"))>>)>>)}
DN == VO(<< <<"a", VI(1)>>, <<"b", VS("t1")>>, <<"s", VS("xy")>>, <<"constructor", VB(TRUE)>>, <<"valueOf", VS("v")>>, <<"toString", VB(FALSE)>>,
            <<"hasOwnProperty", VI(3)>> >>)

(* path-pair family: ONE binding reading TWO dependency paths, so that a change marked on either of them - and on
   each only - must refresh it.  The paths share roots, differ in static keys, differ in dynamic index expressions
   (l[a] vs l[b]: same shape, different temporaries) or are unrelated. *)
DepPaths == { EA, EB, Idx(Id("l"), EA), Idx(Id("l"), EB), Idx(Id("l"), Lit("0")), Idx(Id("l"), Lit("2")),
              Mem(Id("o"), "p"), Mem(Id("o"), "q"), Idx(Id("o"), Id("s")), Idx(Id("o"), Lit("'q'")),
              Mem(Idx(Id("m"), EA), "v"), Mem(Idx(Id("m"), EB), "v") }
PairForms(x, y) == { File1(<<Text(<<P(x), S(" / "), P(y)>>)>>),
                     File1(<<Elem("v", <<Attr("plain", "p", EV(Arr(<<Item(x), Item(y)>>)))>>, <<>>)>>),
                     File1(<<Elem("v", <<Attr("class", "", MV(<<S("c "), P(x), S(" "), P(y)>>))>>, <<>>)>>),
                     File1(<<If(<<[c |-> EV(Bin("===", x, y)), ch |-> <<Elem("y", <<>>, <<>>)>>]>>, TRUE, <<Elem("n", <<>>, <<>>)>>)>>),
                     File1(<<Text(<<P(Cond(Id("t"), x, y))>>)>>),
                     (* both paths inside an operand that is written in parentheses (lower or equal level on the right / under a
                        unary operator / under a member): `'<' + (x + y)`, `!(x && y)`, `(x ?? y) + '>'` *)
                     File1(<<Text(<<P(Bin("+", Lit("'<'"), Bin("+", x, y)))>>)>>),
                     File1(<<Elem("v", <<Attr("plain", "p", EV(Un("!", Bin("&&", x, y)))), Attr("data:", "k", EV(Bin("+", Bin("??", x, y), Lit("'>'"))))>>, <<>>)>>) }
(* object literals merging several spread sources: a change marked on ANY of them - as a whole or on one member - counts *)
DefS == [n |-> "s", ch |-> <<Text(<<S("["), P(Id("p")), S("|"), P(Id("q")), S("|"), P(Id("r")), S("|"), P(Id("k")), S("]")>>)>>]
SpreadObjs == { Obj(<<Spread(Id("o")), Spread(Id("o2"))>>), Obj(<<Spread(Id("o2")), Spread(Id("o"))>>),
                Obj(<<Spread(Id("o")), Spread(Id("o2")), Named("k", EA)>>), Obj(<<Named("k", EB), Spread(Id("o")), Spread(Id("o2"))>>),
                Obj(<<Spread(Id("o")), Named("k", EA), Spread(Id("o2"))>>) }
SpreadForms(e) == { << [path |-> "a", imports |-> <<>>, wxs |-> <<>>, defs |-> <<DefS>>, root |-> <<TmplIs(SV("s"), EV(e))>>] >>,
                    File1(<<Elem("v", <<Attr("plain", "obj", EV(Mem(e, "p"))), Attr("plain", "r", EV(Mem(e, "r")))>>, <<>>)>>),
                    File1(<<Text(<<P(Mem(e, "q")), S("/"), P(Mem(e, "r"))>>)>>) }
UP == UNION { PairForms(xy[1], xy[2]) : xy \in {z \in DepPaths \X DepPaths : z[1] # z[2]} }
      \cup UNION { SpreadForms(e) : e \in SpreadObjs }
DP == VO(<< <<"a", VI(0)>>, <<"b", VI(1)>>, <<"t", VB(TRUE)>>, <<"s", VS("p")>>,
            <<"o", VO(<< <<"p", VS("op")>>, <<"q", VS("oq")>> >>)>>, <<"o2", VO(<< <<"r", VS("o2r")>> >>)>>,
            <<"l", VA(<<VS("l0"), VS("l1"), VS("l2")>>)>>,
            <<"m", VA(<<VO(<< <<"v", VS("m0")>> >>), VO(<< <<"v", VS("m1")>> >>), VO(<< <<"v", VS("m2")>> >>)>>)>> >>)
Alt(cur, x, y) == IF cur = x THEN y ELSE x
UPEdits(d) ==
    LET l == GetS(d, "l")  o == GetS(d, "o")  m == GetS(d, "m")
        one == { [p |-> <<"l", "0">>, v |-> Alt(l.xs[1], VS("n0"), VS("k0"))], [p |-> <<"l", "1">>, v |-> Alt(l.xs[2], VS("n1"), VS("k1"))],
                 [p |-> <<"l", "2">>, v |-> Alt(l.xs[3], VS("n2"), VS("k2"))],
                 [p |-> <<"o", "p">>, v |-> Alt(GetS(o, "p"), VS("np"), VS("kp"))], [p |-> <<"o", "q">>, v |-> Alt(GetS(o, "q"), VS("nq"), VS("kq"))],
                 [p |-> <<"m", "0", "v">>, v |-> Alt(GetS(m.xs[1], "v"), VS("x0"), VS("y0"))],
                 [p |-> <<"m", "1", "v">>, v |-> Alt(GetS(m.xs[2], "v"), VS("x1"), VS("y1"))],
                 [p |-> <<"a">>, v |-> Alt(GetS(d, "a"), VI(2), VI(0))], [p |-> <<"b">>, v |-> Alt(GetS(d, "b"), VI(0), VI(1))],
                 [p |-> <<"s">>, v |-> Alt(GetS(d, "s"), VS("q"), VS("p"))], [p |-> <<"t">>, v |-> VB(~GetS(d, "t").b)],
                 (* whole objects replaced: the covering marks the object itself (`{o: true}`) *)
                 [p |-> <<"o">>, v |-> Alt(o, VO(<< <<"p", VS("P2")>>, <<"q", VS("Q2")>> >>), VO(<< <<"p", VS("P3")>> >>))],
                 [p |-> <<"o2">>, v |-> Alt(GetS(d, "o2"), VO(<< <<"r", VS("R2")>> >>), VO(<< <<"r", VS("R3")>>, <<"p", VS("P9")>> >>))],
                 [p |-> <<"o2", "r">>, v |-> Alt(GetS(GetS(d, "o2"), "r"), VS("nr"), VS("kr"))] }
    IN { <<e>> : e \in one }

(* l-value paths under update (C11): bindings whose path depends on data - a dynamic key, a conditional between data
   objects or between script modules - re-evaluated by a tree update or by the binding-map updaters of that field *)
ULExprsM == { Idx(Id("o"), Id("b")), Cond(Id("c"), Mem(Id("o"), "p"), Mem(Id("o2"), "p")), Mem(Cond(Id("c"), Id("o"), Id("o2")), "p"),
              Mem(Idx(Id("l"), Id("i")), "v"),
              (* a negated condition: the branch follows the condition's value, before and after c changes *)
              Cond(Un("!", Id("c")), Mem(Id("o"), "p"), Mem(Id("o2"), "p")), Mem(Cond(Un("!", Un("!", Id("c"))), Id("o"), Id("o2")), "p") }
ULExprsS == { Cond(Id("c"), Mem(Id("m"), "f"), Mem(Id("x"), "f")), Mem(Cond(Id("c"), Id("m"), Id("x")), "f"), Cond(Id("c"), Mem(Id("m"), "f"), Id("a")),
              Cond(Un("!", Id("c")), Mem(Id("m"), "f"), Mem(Id("x"), "f")) }
UL ==    {FileS(<<Elem("v", <<Attr("model:", "v", EV(e))>>, <<>>)>>) : e \in ULExprsM}
    \cup {FileS(<<Elem("v", <<Attr(f, "tap", EV(e))>>, <<>>)>>) : f \in {"bind", "catch"}, e \in ULExprsS}
    \cup {FileS(<<Elem("v", <<Attr("change:", "p", EV(e))>>, <<>>)>>) : e \in ULExprsS}
    \cup {FileS(<<Elem("w", <<>>, <<Elem("v", <<Attr("bind", "tap", EV(e)), Attr("plain", "q", EV(Id("a")))>>, <<>>)>>)>>) : e \in ULExprsS}
    \cup {FileS(<<For(EV(Cond(Id("c"), Id("l"), Id("ol"))), "item", "index", "", <<Elem("v", <<Attr("model:", "v", EV(Id("item")))>>, <<>>)>>)>>)}
ULEdits(d) == { <<[p |-> <<"c">>, v |-> VB(~GetS(d, "c").b)]>>,
                <<[p |-> <<"b">>, v |-> Alt(GetS(d, "b"), VS("q"), VS("p"))]>>,
                <<[p |-> <<"i">>, v |-> VI(0)]>>, <<[p |-> <<"a">>, v |-> Alt(GetS(d, "a"), VI(5), VI(1))]>> }

UCases == CASE Family = "UL" -> UL [] Family = "UP" -> UP [] Family = "UB" -> UB [] Family = "UC" -> UC [] Family = "UA" -> UA [] Family = "UT" -> UT [] Family = "UD" -> UD [] Family = "UI" -> UI
            [] Family = "US" -> US [] Family = "F2" -> F2 [] Family = "F4" -> F4 [] Family = "F5" -> F5 [] Family = "F6" -> F6

UDatas == IF Family = "F6" THEN {DS} ELSE IF Family = "UP" THEN {DP} ELSE IF Family = "UL" THEN {DL, DL2} ELSE {D1, D5, D3}

IGroup == [p \in {files[i].path : i \in 1..Len(files)} |-> CHOOSE f \in {files[i] : i \in 1..Len(files)} : f.path = p]
TreeOf(d) == IF Family = "UL" THEN RenderFileMarked(IGroup, "a", d) ELSE RenderFile(IGroup, "a", d)   \* UL: trees carry the l-value paths

(* edits for the scope family: every data field that a scope may shadow, one at a time and together *)
F6Edits == { <<[p |-> <<n>>, v |-> VS("N" \o n)]>> : n \in {"x", "y", "item", "index", "m"} }
            \cup { <<[p |-> <<"x">>, v |-> VS("Nx")], [p |-> <<"item">>, v |-> VS("Nitem")], [p |-> <<"index">>, v |-> VS("Nindex")]>>,
                   <<[p |-> <<"l", "0">>, v |-> VS("NI0")]>>, <<[p |-> <<"l">>, v |-> VA(<<VS("I1"), VS("I0"), VS("I2")>>)]>> }
EditMenu(d) == IF Family = "F6" THEN F6Edits ELSE IF Family = "UP" THEN UPEdits(d) ELSE IF Family = "UL" THEN ULEdits(d) ELSE EditsOn(d)

CoverOf(kind, ps) == CASE kind = "exact" -> Exact(ps) [] kind = "coarse" -> Coarse(ps) [] OTHER -> Whole

IInit == /\ \/ files \in UCases /\ data \in UDatas
            \/ Family = "UB" /\ files \in UN /\ data = DN         \* (data that owns the fields: the specification's objects have no prototype)
         /\ hist = <<>> /\ d0 = data

Update(es, kind) ==
    LET d2 == ApplyEdits(data, es, 1)
        U  == CoverOf(kind, EditPaths(es))
    IN /\ Len(hist) < MaxLen
       /\ d2 # data
       (* the covering offered must cover the diff: a tool-level assertion, never a silent skip *)
       /\ Assert(Covers(U, Diff(data, d2, <<>>)), <<"covering does not cover the diff", es, kind>>)
       /\ data' = d2
       /\ hist' = Append(hist, [op |-> "update", data |-> d2, u |-> U, kind |-> kind, tree |-> TreeOf(d2)])
       /\ UNCHANGED <<files, d0>>

(* binding-map update: exactly one top-level field replaced *)
BmValues == {VI(7), VS("nv"), VN, VU, VB(FALSE), ObjB, LstA, VS("")}
BMUpdate(f, v) ==
    LET d2 == SetPath(data, <<f>>, v)
    IN /\ Len(hist) < MaxLen
       /\ d2 # data
       /\ data' = d2
       /\ hist' = Append(hist, [op |-> "bm", field |-> f, data |-> d2, tree |-> TreeOf(d2)])
       /\ UNCHANGED <<files, d0>>

INext == IF Family \in {"UB", "UC"}
         THEN \E f \in {"a", "b", "o", "l", "s", "f"} \cup (IF files \in UN THEN ProtoNames ELSE {}), v \in BmValues : BMUpdate(f, v)
         ELSE IF Family = "UL"
         THEN \/ \E es \in EditMenu(data), kind \in CoverKinds : Update(es, kind)
              \/ \E es \in EditMenu(data) : BMUpdate(es[1].p[1], es[1].v)
         ELSE \E es \in EditMenu(data), kind \in CoverKinds : Update(es, kind)
ISpec == IInit /\ [][INext]_ivars

(* the reference instance: after any history the tree is the render of the current data *)
InstanceInv == hist # <<>> => hist[Len(hist)].tree = TreeOf(data)

IEmit == Len(hist) = MaxLen =>
           PrintT(<<"CASE", ToJson([files |-> files, data |-> d0, tree |-> TreeOf(d0), hist |-> hist,
                                    inel |-> IF Family \in {"UB", "UC"} THEN Ineligible(IGroup["a"]) ELSE {}])>>)
=============================================================================
