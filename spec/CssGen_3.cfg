SPECIFICATION Spec
CONSTANTS
  MaxLen = 3
INVARIANTS TypeOK Emit
CHECK_DEADLOCK FALSE
