SPECIFICATION ISpec
CONSTANTS
  Family = "UI"
  MaxLen = 1
  CoverKinds = {"exact", "coarse", "true"}
INVARIANTS InstanceInv IEmit
CHECK_DEADLOCK FALSE
