SPECIFICATION Spec
CONSTANTS
  Family = "calc"
  Scale = "thorough"
INVARIANTS BalancedBoth Partition Emit
CHECK_DEADLOCK FALSE
