------------------------------- MODULE OutMap -------------------------------
(***************************************************************************)
(* The output side of the stylesheet compiler (`StyleSheetOutput`): a      *)
(* writer that appends tokens to a text and, for tokens that go through    *)
(* the token path, records a source-map entry first.                       *)
(*                                                                         *)
(* One action per critical section of the implementation:                  *)
(*   Entry(dl, dc, sp, named)   source_map.add(..) inside append_token     *)
(*   Write(kind, nl, tail, ..)  the token's text is appended (write_str /  *)
(*                              append_token / append_raw), utf16_len      *)
(*                              advances                                   *)
(*   Close                      the output is handed out                   *)
(*                                                                         *)
(* State: the true write position (0-based line, UTF-16 column) as a fold  *)
(* of everything written so far; the entries recorded since the last token *)
(* (`pend`: they describe the token about to be written); the generated    *)
(* position of the last entry; and the stack of open brackets of the       *)
(* OUTPUT, each with the source positions its own entries pointed at (a     *)
(* closing bracket that has no place of its own in the source must point   *)
(* at the bracket it closes - not at some other block's).                  *)
(*                                                                         *)
(* What C19 states is, in these terms:                                     *)
(*   - an entry is recorded AT the write position (its generated column is *)
(*     the true UTF-16 column of the token that follows)     [AtCursor]    *)
(*   - entries are in non-decreasing generated order          [Ordered]    *)
(*   - every entry points at the start of a token of the source [SrcStart] *)
(*   - every non-white-space token of the token path has an entry, and one *)
(*     that points at its provenance                     [Mapped, Prov]    *)
(*   - rewritten tokens carry a name                          [Named]      *)
(* Source positions are numbers line * LineBase + column.                  *)
(***************************************************************************)
EXTENDS Naturals, Sequences, FiniteSets

LineBase == 100000

VARIABLES starts,   \* the source: sequence of token-start positions (the set SrcStart)
          oline,    \* lines written
          ocol,     \* UTF-16 units written on the current line
          pend,     \* entries recorded since the last token: sequence of <<sp, named>>
          lastDst,  \* generated position of the last entry, <<line, col>>
          stack,    \* open brackets of the output: sequence of sequences of source positions
          closed    \* the output has been handed out

ovars == <<starts, oline, ocol, pend, lastDst, stack, closed>>

Ws == 0  Open == 1  Shut == 2  Other == 3      \* token kinds

InSeq(x, s) == \E i \in 1..Len(s) : s[i] = x
PosLe2(a, b) == a[1] < b[1] \/ (a[1] = b[1] /\ a[2] <= b[2])

Begin(st) == /\ starts' = st
             /\ oline' = 0 /\ ocol' = 0
             /\ pend' = <<>> /\ lastDst' = <<0, 0>> /\ stack' = <<>>
             /\ closed' = FALSE

(* source_map.add: the entry describes the token about to be written *)
Entry(dl, dc, sp, named) ==
    /\ ~closed
    /\ dl = oline /\ dc = ocol                    \* AtCursor: the true column, in UTF-16 units
    /\ PosLe2(lastDst, <<dl, dc>>)                \* Ordered
    /\ InSeq(sp, starts)                          \* SrcStart
    /\ pend' = Append(pend, <<sp, named>>)
    /\ lastDst' = <<dl, dc>>
    /\ UNCHANGED <<starts, oline, ocol, stack, closed>>

PendSrcs == [i \in 1..Len(pend) |-> pend[i][1]]

(* the token's text is appended.
   kind        Ws / Open / Shut / Other
   nl, tail    line breaks inside the text, UTF-16 units after the last of them
   raw         written outside the token path (replayed wrapper): no entry is demanded
   mustName    the token is a rewrite of a source token: an entry must carry a name
   own         (closing brackets) the bracket has a place of its own in the source
   cands       source positions of the token's provenance (<<>>: nothing known - any source token)
   lo, hi      a source span every position of which is acceptable (synthesised by an import); lo > hi: none *)
Write(kind, nl, tail, raw, mustName, own, cands, lo, hi) ==
    /\ ~closed
    /\ kind = Ws => TRUE                                                   \* entries of white space are tolerated
    /\ (kind # Ws /\ ~raw) =>
          /\ pend # <<>>                                                   \* Mapped
          /\ (cands # <<>> \/ lo <= hi) =>
                \E i \in 1..Len(pend) : \/ InSeq(pend[i][1], cands)        \* Prov
                                        \/ (lo <= pend[i][1] /\ pend[i][1] <= hi)
          /\ mustName => \E i \in 1..Len(pend) : pend[i][2]                \* Named
          /\ (kind = Shut /\ ~own /\ stack # <<>> /\ stack[Len(stack)] # <<>>) =>
                \E i \in 1..Len(pend) : InSeq(pend[i][1], stack[Len(stack)])   \* its own opening bracket
    /\ stack' = CASE kind = Open -> Append(stack, IF raw THEN <<>> ELSE PendSrcs)
                  [] kind = Shut /\ stack # <<>> -> SubSeq(stack, 1, Len(stack) - 1)
                  [] OTHER -> stack
    /\ oline' = oline + nl
    /\ ocol' = IF nl = 0 THEN ocol + tail ELSE tail
    /\ pend' = <<>>
    /\ UNCHANGED <<starts, lastDst, closed>>

Close == /\ ~closed
         /\ pend = <<>>              \* no entry left describing nothing
         /\ closed' = TRUE
         /\ UNCHANGED <<starts, oline, ocol, pend, lastDst, stack>>

-----------------------------------------------------------------------------
(* Invariants of the machine itself (checked by MCOutMap over small alphabets) *)
OrderedInv == PosLe2(lastDst, <<oline, ocol>>)          \* no entry lies beyond the write position
PendHere == pend # <<>> => lastDst = <<oline, ocol>>    \* pending entries describe the next token
=============================================================================
