SPECIFICATION Spec
CONSTANT Family = "F7"
INVARIANTS GetPut Emit
CHECK_DEADLOCK FALSE
