SPECIFICATION Spec
CONSTANT MaxSteps = 4
INVARIANTS OrderedInv PendHere
CHECK_DEADLOCK FALSE
