SPECIFICATION Spec
CONSTANT Family = "F1"
INVARIANTS CommentInsensitive BlockInsensitive Emit
CHECK_DEADLOCK FALSE
