SPECIFICATION Spec
CONSTANTS
  MaxBase = 3
  MaxRel = 4
  Segs = {"a", "b", ".", "..", ""}
INVARIANTS Laws Emit
CHECK_DEADLOCK FALSE
