SPECIFICATION Spec
CONSTANT Family = "F8"
INVARIANTS Emit
CHECK_DEADLOCK FALSE
