SPECIFICATION TraceSpec
INVARIANTS TrPosInv TrSavedInv TrHere
POSTCONDITION Accepted
CHECK_DEADLOCK FALSE
