SPECIFICATION Spec
CONSTANTS
  MaxNum = 4
  MaxStr = 3
INVARIANTS Sane Emit
CHECK_DEADLOCK FALSE
