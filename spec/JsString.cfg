SPECIFICATION Spec
CONSTANT MaxLen = 2
INVARIANT RoundTrip
CHECK_DEADLOCK FALSE
