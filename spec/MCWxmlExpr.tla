----------------------------- MODULE MCWxmlExpr -----------------------------
(* Enumerates the bounded expression space, checks the print/parse round trip on every tree and
   parenthesisation variant, and emits each case (tree + token sequence) for replay. *)
EXTENDS WxmlExpr, Json

VARIABLES tree, extra
vars == <<tree, extra>>

Init == tree \in Trees /\ extra \in BOOLEAN
Next == UNCHANGED vars
Spec == Init /\ [][Next]_vars

RoundTrip == RoundTripOf(tree, extra)

(* redundant parentheses change the text, never the tree *)
ParenInsensitive == ParseRef(Pr(tree, TRUE)) = ParseRef(Pr(tree, FALSE))

Emit == PrintT(<<"CASE", ToJson([tree |-> tree, extra |-> extra, toks |-> Pr(tree, extra)])>>)
=============================================================================
