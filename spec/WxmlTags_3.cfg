SPECIFICATION Spec
CONSTANTS
  MaxDirs = 3
INVARIANTS TypeOK Emit
CHECK_DEADLOCK FALSE
