------------------------------ MODULE EmitSites ------------------------------
(***************************************************************************)
(* The places where the JavaScript emitter pastes text that comes from the *)
(* source (C02, C12).  Every site has a *form* — how the text is embedded  *)
(* — and the set of character classes the parser (or the API) can deliver  *)
(* there.  A form can hold only some classes; the invariant says every     *)
(* deliverable class is one the form can hold.  Each (site, class) pair is *)
(* also emitted as a case: the harness builds a template that puts a       *)
(* representative of the class at that site and node parses every artefact.*)
(***************************************************************************)
EXTENDS Naturals, Sequences, FiniteSets, TLC, Json

(* character / content classes *)
Plain == {"ident", "dash", "dot", "dotdigit", "digitstart", "unicode", "astral", "space"}
(* (U+0000 before a digit of each kind: `\0` followed by 0-7 would be a legacy octal escape, by 8 or 9 an escape that
   strict mode refuses as well) *)
Breaking == {"squote", "dquote", "backslash", "newline", "cr", "ls", "nul", "nuldigit", "nuldigit0", "nuldigit9", "hash", "lt"}
AllChars == Plain \cup Breaking
Words == {"reserved2", "reserved3", "reserved-long", "proto"}          \* if / for / class / __proto__
Bodies == {"plain-body", "line-comment-end", "no-semicolon", "closing-tag-like", "template-literal", "regex-star",
           "use-strict", "squote-body", "block-comment-end", "empty-body",
           (* Annex B HTML-like comments, legal in a script file: `-->` only at the start of a line *)
           "html-close-comment-first", "html-open-comment-first"}
Numbers == {"int", "bigfloat", "tinyfloat", "overflow"}

(* what each embedding form can hold *)
CanHold(form) ==
    CASE form = "dq-encoded"  -> AllChars \cup Words     \* through the string-literal encoder: anything
      [] form = "member"      -> {"ident"} \cup Words    \* `.name`: identifier names (reserved words are fine)
      [] form = "object-key"  -> {"ident"} \cup Words
      [] form = "script-body" -> Bodies                   \* body on lines of its own: a line break after the opening and before the closing brace
      [] form = "number"      -> Numbers
      [] OTHER -> {}

(* sites: form and what can be delivered there *)
Sites == {
  [s |-> "template-path",       form |-> "dq-encoded", del |-> AllChars],
  [s |-> "inline-module-path",  form |-> "dq-encoded", del |-> AllChars],           \* 'path#module'
  [s |-> "inline-module-name",  form |-> "dq-encoded", del |-> AllChars \ {"dquote", "lt"}],
  [s |-> "script-path",         form |-> "dq-encoded", del |-> AllChars],
  [s |-> "include-path",        form |-> "dq-encoded", del |-> AllChars \ {"dquote", "lt"}],
  [s |-> "import-path",         form |-> "dq-encoded", del |-> AllChars \ {"dquote", "lt"}],
  [s |-> "static-text",         form |-> "dq-encoded", del |-> AllChars],
  [s |-> "attr-value",          form |-> "dq-encoded", del |-> AllChars],
  [s |-> "tag-name",            form |-> "dq-encoded", del |-> {"ident", "dash", "dot", "dotdigit"}],
  [s |-> "attr-name",           form |-> "dq-encoded", del |-> {"ident", "dash", "dot", "dotdigit"}],
  [s |-> "event-name",          form |-> "dq-encoded", del |-> {"ident", "dash", "dot", "dotdigit"}],
  [s |-> "mark-name",           form |-> "dq-encoded", del |-> {"ident", "dash", "dot", "dotdigit"}],
  [s |-> "data-name",           form |-> "dq-encoded", del |-> {"ident", "dash", "dot", "dotdigit"}],
  [s |-> "slot-value-name",     form |-> "dq-encoded", del |-> {"ident", "dash", "dot", "dotdigit"}],    \* X(V)["name"]
  [s |-> "generic-name",        form |-> "dq-encoded", del |-> {"ident", "dash", "dot", "dotdigit"}],
  [s |-> "wx-key",              form |-> "dq-encoded", del |-> AllChars \ {"dquote", "lt"}],
  [s |-> "template-name",       form |-> "dq-encoded", del |-> AllChars \ {"dquote", "lt"}],
  [s |-> "string-literal",      form |-> "dq-encoded", del |-> AllChars],
  [s |-> "data-field",          form |-> "member",     del |-> {"ident"} \cup Words],
  [s |-> "member-name",         form |-> "member",     del |-> {"ident"} \cup Words],
  [s |-> "object-key",          form |-> "object-key", del |-> {"ident"} \cup Words],
  [s |-> "inline-script-body",  form |-> "script-body", del |-> Bodies],
  [s |-> "external-script-body", form |-> "script-body", del |-> Bodies],
  [s |-> "number-literal",      form |-> "number",     del |-> Numbers] }

VARIABLES site, cls
vars == <<site, cls>>
Init == site \in Sites /\ cls \in site.del
Next == UNCHANGED vars
Spec == Init /\ [][Next]_vars

SitesSafe == cls \in CanHold(site.form)
Emit == PrintT(<<"CASE", ToJson([site |-> site.s, form |-> site.form, cls |-> cls])>>)
=============================================================================
