------------------------------ MODULE MCWxmlSem ------------------------------
(***************************************************************************)
(* Bounded template space for creation-mode conformance (C04, C05, C14):   *)
(* families F1..F6 of DESIGN.md §4.3.  Each case is a file group, a main   *)
(* path and a data object; the specification attaches the tree `Render`    *)
(* says must be created.  One TLC run per family (CONSTANT Family).        *)
(***************************************************************************)
EXTENDS WxmlSem, Json, Paths

CONSTANT Family

VARIABLES files, data
vars == <<files, data>>

-----------------------------------------------------------------------------
(* data pool *)
Obj1 == VO(<< <<"p", VS("op")>>, <<"q", VI(0)>> >>)
Lst1 == VA(<<VS("l0"), VS("l1")>>)
LstK == VA(<< VO(<< <<"k", VS("k1")>>, <<"v", VI(1)>> >>), VO(<< <<"k", VS("k2")>>, <<"v", VI(2)>> >>) >>)
D1 == VO(<< <<"a", VI(1)>>, <<"b", VS("t1")>>, <<"o", Obj1>>, <<"l", Lst1>>, <<"s", VS("xy")>>, <<"f", VF("f1")>> >>)
D2 == VO(<< <<"a", VI(0)>>, <<"b", VS("")>>, <<"o", VN>>, <<"l", VA(<<>>)>>, <<"s", VS("")>> >>)
D3 == VO(<< <<"b", VN>>, <<"o", VO(<< <<"p", VN>> >>)>>, <<"l", VO(<< <<"k1", VS("v1")>>, <<"k2", VS("v2")>> >>)>>, <<"s", VI(2)>> >>)
D4 == VO(<< <<"a", VS("t2")>>, <<"b", VB(FALSE)>>, <<"o", Lst1>>, <<"l", VS("ab")>>, <<"s", VU>>, <<"f", VN>> >>)
D5 == VO(<< <<"a", VB(TRUE)>>, <<"b", VS("t2")>>, <<"o", Obj1>>, <<"l", LstK>>, <<"s", VI(0)>> >>)
Datas == {D1, D2, D3, D4, D5}

(* binding expressions used at leaves *)
EA == Id("a")   EB == Id("b")
Exprs == {EA, Mem(Id("o"), "p"), Idx(Id("l"), Lit("0")), Idx(Id("o"), Lit("'p'")), Cond(EA, EB, Lit("'x'")),
          Bin("+", EA, Lit("1")), Un("!", EA), Un("-", EA), Bin("&&", EA, EB), Bin("||", EA, EB),
          Bin("===", EA, Lit("1")), Arr(<<Item(EA), Item(EB)>>), Obj(<<Named("p", EA)>>), Lit("'x'"), Lit("1"),
          Call(Id("f"), <<EA>>), Mem(Mem(Id("o"), "p"), "q"),
          (* every dependency-carrying form applied to another one *)
          Idx(Id("l"), EA), Idx(Id("o"), EB), Mem(Obj(<<Named("x", EA)>>), "x"),
          Idx(Arr(<<Item(Lit("1")), Item(EA), Item(Lit("2")), Item(EB)>>), Lit("3")), Idx(Arr(<<Hole, Item(EA)>>), Lit("1")),
          Mem(Obj(<<Named("k", Lit("1")), Named("x", EA)>>), "x"),
          Mem(Obj(<<Spread(Id("o")), Named("x", EA)>>), "p"), Idx(Arr(<<Item(EA), Item(EB)>>), Lit("1")),
          Idx(Arr(<<Spread(Id("l")), Item(EA)>>), Lit("0")), Mem(Cond(EA, Id("o"), Obj(<<Named("p", EB)>>)), "p"),
          Cond(Mem(Id("o"), "p"), EA, EB), Un("!", Mem(Id("o"), "p")), Bin("+", Mem(Id("o"), "p"), Idx(Id("l"), Lit("0"))),
          Call(Id("f"), <<Mem(Id("o"), "p")>>), Obj(<<Named("k", Mem(Id("o"), "p"))>>),
          Idx(Mem(Obj(<<Named("x", Arr(<<Item(EB)>>))>>), "x"), Lit("0")), Arr(<<Hole, Item(EA)>>),
          Bin("??", Mem(Id("o"), "p"), EA), Bin("===", EB, Lit("'t1'")),
          (* a conditional whose branches are computed (not plain paths): each branch has dependencies of its own *)
          Cond(EA, EB, Bin("+", Mem(Id("o"), "p"), Lit("1"))), Cond(EA, Bin("+", EB, Lit("1")), Idx(Id("l"), Lit("0")))}
ExprsFew == {EA, Mem(Id("o"), "p"), Cond(EA, EB, Lit("'x'")), Bin("+", EA, Lit("1"))}

S(s) == [t |-> "s", s |-> s]
P(e) == [t |-> "e", e |-> e]

File1(root) == << [path |-> "a", imports |-> <<>>, wxs |-> <<>>, defs |-> <<>>, root |-> root] >>

-----------------------------------------------------------------------------
(* F1: every attribute family x every value kind, on a normal element and on <slot> *)
DynVals == {EV(e) : e \in Exprs} \cup {MV(<<S("x"), P(EA)>>), MV(<<P(EA), S(" "), P(EB)>>), MV(<<P(EA), P(EB)>>),
                                       MV(<<P(EA), S("y")>>)}
StaticVals == {None, SV("s1"), SV(""), SV("a<b&\"q'\t\nz")}      \* (tab and line feed: their references have one hex digit)
AllVals == DynVals \cup StaticVals

F1Attrs ==
       {Attr("plain", n, v) : n \in {"p-a", "hidden"}, v \in AllVals}
  \cup {Attr(f, "", v) : f \in {"class", "style", "id"}, v \in AllVals}
  \cup {Attr("data:", n, v) : n \in {"k", "ab-cd"}, v \in AllVals}
  \cup {Attr("data-", n, v) : n \in {"k", "ab-cd"}, v \in AllVals}
  \cup {Attr("mark:", "k", v) : v \in AllVals}
  \cup {Attr(f, "tap", v) : f \in EventFams, v \in AllVals}
  \cup {Attr("model:", n, v) : n \in {"v", "v-x"}, v \in AllVals}
  \cup {Attr("change:", "p-q", v) : v \in AllVals}
  \cup {Attr(f, "w-x", v) : f \in {"worklet:", "generic:", "extra-attr:"}, v \in {None, SV("s1")}}
  (* a dash followed by a digit, an underscore or a dash: only the character right after a dash is affected *)
  \cup {Attr(f, n, v) : f \in {"data-", "model:", "change:"}, n \in {"r-2nd-e", "v-2x", "p-_q", "a--b"}, v \in {EV(EA), SV("s1")}}
  \cup {Attr("worklet:", "on-3d", SV("s1"))}
  \cup {Attr("slot", "", v) : v \in {SV("s1"), EV(EA), MV(<<S("x"), P(EA)>>)}}

F1 == {File1(<<Elem("v", <<a>>, <<>>)>>) : a \in F1Attrs}
      \cup {File1(<<SlotEl(v, <<>>)>>) : v \in {None, SV("s1"), EV(EA), MV(<<S("x"), P(EA)>>)}}
      \cup {File1(<<SlotEl(None, <<Attr("plain", "p-a", v)>>)>>) : v \in AllVals}
      \cup {File1(<<SlotEl(SV("n"), <<a>>)>>) : a \in {Attr("id", "", EV(EA)), Attr("data:", "k", EV(EA)),
                                                       Attr("mark:", "k", EV(EA)), Attr("bind", "tap", EV(EA)),
                                                       Attr("slot", "", SV("s1"))}}
      \cup {File1(<<Elem("v", <<a1, a2>>, <<>>)>>) :
               a1 \in {Attr("plain", "p", EV(EA)), Attr("class", "", MV(<<S("c "), P(EA)>>))},
               a2 \in {Attr("id", "", EV(EB)), Attr("bind", "tap", SV("h")), Attr("data:", "k", EV(EB)),
                       Attr("style", "", SV("x:y")), Attr("mark:", "m", None)}}

-----------------------------------------------------------------------------
(* F3: text piece sequences *)
Pieces == {S("x"), S(" "), S(" y "), S("a<b&c"), P(EA), P(Mem(Id("o"), "p")), P(Bin("+", EA, Lit("1")))}
TextSeqs == {<<p>> : p \in Pieces \ {S(" ")}}
            \cup {<<p, q>> : p \in Pieces, q \in Pieces}
            \cup {<<p, q, r>> : p \in {S("x"), P(EA)}, q \in Pieces, r \in {S("z"), P(EB)}}
GoodText(ps) == /\ \E i \in 1..Len(ps) : ps[i].t = "e" \/ ~IsWs(ps[i].s)
                /\ \A i \in 1..(Len(ps) - 1) : ~(ps[i].t = "s" /\ ps[i + 1].t = "s")     \* adjacent statics are one piece
F3 == {File1(<<Text(ps)>>) : ps \in {x \in TextSeqs : GoodText(x)}}
      \cup {File1(<<Elem("v", <<>>, <<Text(ps)>>)>>) : ps \in {x \in TextSeqs : GoodText(x) /\ Len(x) <= 2}}
      \cup {File1(<<Text(<<S("x")>>), Comment("c"), Text(<<P(EA)>>)>>),
            File1(<<Text(<<P(EA)>>), Comment(" {{b}} "), Text(<<S("y")>>)>>),
            File1(<<Elem("v", <<>>, <<>>), Text(<<S("x")>>), Elem("w", <<>>, <<>>)>>)}

-----------------------------------------------------------------------------
(* F4: if-chains *)
Conds == {EV(EA), EV(EB), EV(Un("!", EA)), EV(Mem(Id("o"), "p")), SV("yes"), SV(""), EV(Bin("===", EA, Lit("1"))),
          (* conditions whose emitted code is itself of the lowest precedence levels *)
          EV(Bin("??", EA, EB)), EV(Bin("||", EA, EB)), EV(Bin("&&", EB, EA)), EV(Cond(EA, EB, Lit("0"))),
          (* a second condition with a temporary of its own (the chain's conditions are emitted into one statement) *)
          EV(Cond(EB, Lit("0"), Lit("1"))), EV(Idx(Id("o"), Lit("'p'")))}
Br(c, k) == [c |-> c, ch |-> <<Elem(k, <<>>, <<Text(<<P(EA)>>)>>)>>]
ElseCh == <<Elem("e", <<>>, <<>>)>>
NoNodes == { <<>>, <<Comment(" nothing here ")>> }
F4 == {File1(<<If(<<Br(c, "x")>>, FALSE, <<>>)>>) : c \in Conds}
      \cup {File1(<<If(<<Br(c, "x")>>, TRUE, ElseCh)>>) : c \in Conds}
      \cup {File1(<<If(<<Br(c1, "x"), Br(c2, "y")>>, he, IF he THEN ElseCh ELSE <<>>)>>) :
               c1 \in Conds, c2 \in Conds, he \in BOOLEAN}
      \cup {File1(<<If(<<Br(EV(EA), "x"), Br(EV(EB), "y"), Br(EV(Id("s")), "z")>>, he, IF he THEN ElseCh ELSE <<>>)>>) :
               he \in BOOLEAN}
      \cup {File1(<<Text(<<S("t")>>), If(<<Br(EV(EA), "x")>>, TRUE, ElseCh), Elem("after", <<>>, <<>>)>>)}
      (* branches that define no node at all - empty, or holding a comment only - at the start, in the middle and at the
         end of a chain, and a chain of nothing else *)
      \cup {File1(<<If(<<[c |-> c1, ch |-> e1], Br(c2, "y")>>, TRUE, ElseCh)>>) : c1 \in {EV(EA), EV(EB)}, c2 \in {EV(EA), EV(EB)}, e1 \in NoNodes}
      \cup {File1(<<If(<<Br(c1, "x"), [c |-> c2, ch |-> e1]>>, he, IF he THEN ElseCh ELSE <<>>)>>) : c1 \in {EV(EA), EV(EB)}, c2 \in {EV(EA), EV(EB)}, e1 \in NoNodes, he \in BOOLEAN}
      \cup {File1(<<If(<<Br(EV(EA), "x"), Br(EV(EB), "y")>>, TRUE, e1), Elem("after", <<>>, <<>>)>>) : e1 \in NoNodes}
      \cup {File1(<<If(<<[c |-> EV(EA), ch |-> e1]>>, TRUE, ElseCh)>>) : e1 \in NoNodes}
      \cup {File1(<<If(<<[c |-> EV(EA), ch |-> e1], [c |-> EV(EB), ch |-> e2]>>, TRUE, e1), Elem("after", <<>>, <<>>)>>) : e1 \in NoNodes, e2 \in NoNodes}

-----------------------------------------------------------------------------
(* F5: lists *)
Lists == {EV(Id("l")), EV(Id("o")), EV(Id("s")), EV(Id("a")), EV(Arr(<<Item(EA), Item(EB)>>)), SV("ab"),
          EV(Arr(<<Item(Lit("1")), Item(EA), Item(Lit("'x'")), Item(EB)>>)), EV(Arr(<<Item(EA), Hole, Item(EB)>>)),      \* constants and holes between the data items
          EV(Mem(Id("o"), "p")), EV(Lit("2"))}
Keys == {"", "*this", "k", "index"}
Bodies(it, ix) == { <<Text(<<P(Id(it))>>)>>, <<Text(<<P(Id(ix)), S(":"), P(Id(it))>>)>>,
                    <<Elem("v", <<Attr("plain", "p", EV(Id(it))), Attr("data:", "i", EV(Id(ix)))>>, <<>>)>>,
                    <<Text(<<P(Mem(Id(it), "v"))>>), Elem("sep", <<>>, <<>>), Text(<<P(EA)>>)>>,
                    <<Elem("v", <<>>, <<Text(<<P(Id(it)), P(Id("item")), P(Id("index"))>>)>>)>>,
                    (* an if-group / a template reference that is NOT the first node of the body (its declarations follow
                       another statement of the item function) *)
                    <<Elem("v", <<Attr("plain", "p", EV(Id(it)))>>, <<>>), If(<<[c |-> EV(Id(ix)), ch |-> <<Elem("m", <<>>, <<Text(<<P(Id(it))>>)>>)>>]>>, TRUE, <<Elem("n", <<>>, <<>>)>>)>>,
                    <<Text(<<P(Id(ix))>>), TmplIs(SV("t"), EV(Obj(<<Named("y", Id(it))>>))), Elem("z", <<>>, <<>>)>> }
F5 == {File1(<<For(l, "item", "index", k, b)>>) : l \in Lists, k \in Keys, b \in Bodies("item", "index")}
      \cup {File1(<<For(l, "x", "y", "", b)>>) : l \in {EV(Id("l")), EV(Id("o"))}, b \in Bodies("x", "y")}
      \cup {File1(<<For(EV(Id("l")), "x", "x", "", b)>>) : b \in Bodies("x", "x")}
      \cup {File1(<<For(EV(Id("l")), "item", "index", "", <<For(EV(Id("l")), "item", "j", "", <<Text(<<P(Id("item")), P(Id("index")), P(Id("j"))>>)>>)>>)>>)}

-----------------------------------------------------------------------------
(* F2: ordered pairs of structural kinds, nested *)
Inners == { <<Text(<<S("t"), P(EA)>>)>>,
            <<Elem("i", <<Attr("plain", "p", EV(EA))>>, <<>>)>>,
            <<If(<<Br(EV(EA), "x")>>, TRUE, ElseCh)>>,
            <<For(EV(Id("l")), "item", "index", "", <<Text(<<P(Id("item"))>>)>>)>>,
            <<Block(<<Text(<<P(EA)>>), Elem("j", <<>>, <<>>)>>)>>,
            <<BlockSlot(SV("s1"), <<Text(<<P(EA)>>)>>)>>,
            <<BlockSlot(EV(EB), <<Elem("j", <<>>, <<>>)>>)>>,
            <<SlotEl(None, <<>>)>>,
            <<SlotEl(EV(EB), <<Attr("plain", "p", EV(EA))>>)>>,
            <<Comment("c"), Elem("i", <<>>, <<>>), Comment("d")>>,
            <<Elem("i", <<>>, <<>>), Text(<<S(" x ")>>), Elem("j", <<>>, <<>>)>> }
Outers(ch) == { <<Elem("o", <<>>, ch)>>,
                <<Elem("o", <<Attr("plain", "p", EV(EB))>>, ch), Elem("o2", <<>>, <<>>)>>,
                <<If(<<[c |-> EV(EB), ch |-> ch]>>, FALSE, <<>>)>>,
                <<If(<<[c |-> EV(EB), ch |-> <<Elem("x", <<>>, <<>>)>>]>>, TRUE, ch)>>,
                <<For(EV(Id("o")), "item", "index", "", ch)>>,
                <<For(EV(Id("l")), "item", "index", "*this", <<If(<<[c |-> EV(Id("item")), ch |-> ch]>>, FALSE, <<>>)>>)>>,
                <<Block(ch)>>,
                <<BlockSlot(SV("s"), ch)>>,
                <<Elem("dyn-c", <<>>, ch)>> }
F2 == UNION { {File1(o) : o \in Outers(i)} : i \in Inners }

-----------------------------------------------------------------------------
(* F6: colliding names in nested scopes (C05).  Every scope and every data field holds a distinct
   sentinel; `x` is data, for-item, for-index, slot value and wxs module in turn. *)
DS == VO(<< <<"x", VS("Dx")>>, <<"y", VS("Dy")>>, <<"item", VS("Ditem")>>, <<"index", VS("Dindex")>>, <<"m", VS("Dm")>>,
            <<"l", VA(<<VS("I0"), VS("I1")>>)>>, <<"l2", VA(<<VS("J0")>>)>>, <<"o", VO(<< <<"x", VS("ox")>> >>)>> >>)
Names == {"x", "y", "item", "index", "m"}
(* identifier positions inside every expression form *)
Positions(n) == {Id(n), Mem(Id(n), "x"), Idx(Id("o"), Id(n)), Idx(Id(n), Lit("0")), Cond(Id(n), Id(n), Lit("1")),
                 Cond(Lit("0"), Lit("1"), Id(n)), Un("!", Id(n)), Bin("+", Lit("1"), Id(n)), Bin("||", Lit("0"), Id(n)),
                 Call(Id("f"), <<Id(n)>>), Call(Id("f"), <<Lit("1"), Id(n)>>),
                 Arr(<<Item(Id(n))>>), Arr(<<Hole, Item(Id(n))>>), Arr(<<Item(Lit("1")), Hole, Item(Id(n))>>),
                 Arr(<<Spread(Arr(<<Item(Id(n))>>))>>), Arr(<<Spread(Id("l")), Item(Id(n))>>),
                 Obj(<<Named("k", Id(n))>>), Obj(<<Short(n)>>), Obj(<<Spread(Obj(<<Named("k", Id(n))>>))>>),
                 Obj(<<Named("a", Lit("1")), Named("k", Id(n))>>)}
Probe(n)  == Text(<<S("["), P(Id(n)), S("]")>>)
ProbeAll  == <<Text(<<S("["), P(Id("x")), S("|"), P(Id("y")), S("|"), P(Id("item")), S("|"), P(Id("index")), S("|"),
                      P(Mem(Id("m"), "k")), S("]")>>)>>
WxsM == [n |-> "m", members |-> << <<"k", VS("Mk")>> >>]
FileW(wxs, defs, root) == << [path |-> "a", imports |-> <<>>, wxs |-> wxs, defs |-> defs, root |-> root] >>
ScopeShapes(body) ==
    { <<For(EV(Id("l")), "item", "index", "", body)>>,
      <<For(EV(Id("l")), "x", "y", "", body)>>,
      <<For(EV(Id("l")), "x", "x", "", body)>>,
      <<For(EV(Id("l")), "item", "index", "", <<For(EV(Id("l2")), "item", "index", "", body)>>)>>,
      <<For(EV(Id("l")), "x", "index", "", <<For(EV(Id("l2")), "y", "x", "", body)>>)>>,
      <<For(EV(Id("l")), "x", "y", "", <<Elem("v", <<>>, body)>>), Elem("after", <<>>, body)>>,
      <<Elem("before", <<>>, body), For(EV(Id("l")), "x", "y", "", <<>>), Elem("after", <<>>, body)>>,
      <<For(EV(Arr(<<Item(Id("x")), Item(Id("item"))>>)), "x", "item", "", body)>>,
      (* the branches of an if-chain inside a scope: the if, the elif and the else body each refer to the scope's names
         (index 1 takes the first branch, index 0 the last) *)
      <<For(EV(Id("l")), "x", "index", "", <<If(<<[c |-> EV(Id("index")), ch |-> <<Elem("p", <<>>, body)>>],
                                                   [c |-> SV(""), ch |-> <<Elem("q", <<>>, body)>>]>>, TRUE, <<Elem("r", <<>>, body)>>)>>)>>,
      <<For(EV(Id("l")), "item", "y", "", <<If(<<[c |-> SV(""), ch |-> <<Elem("p", <<>>, body)>>],
                                                  [c |-> EV(Id("y")), ch |-> <<Elem("q", <<>>, body)>>]>>, TRUE, <<Block(body)>>)>>)>>,
      (* a <slot> element carrying a slot value itself (a forwarding slot), followed by siblings *)
      <<Elem("dyn-c", <<Attr("plain", "sv-x", SV("Sx"))>>,
             <<SlotEl(SV("inner"), <<Attr("slot:", "x", None)>>),
               For(EV(Id("l")), "item", "index", "", body),
               Elem("after", <<>>, body)>>)>>,
      (* a scope-introducing element WITHOUT children, followed by another one under other names: nothing of the first may
         stay behind (in the parser's scope stack, or in the printer's) *)
      <<For(EV(Id("l")), "x", "y", "", <<>>), For(EV(Id("l2")), "item", "index", "", body)>>,
      <<For(EV(Id("l")), "item", "index", "", <<>>), For(EV(Id("l2")), "y", "x", "", body), Elem("after", <<>>, body)>>,
      <<Elem("dyn-c", <<Attr("plain", "sv-x", SV("Sx")), Attr("plain", "sv-item", SV("Sitem"))>>,
             <<Elem("c", <<Attr("slot:", "x", None)>>, <<>>),
               Elem("d", <<Attr("slot:", "item", SV("y"))>>, body)>>),
        For(EV(Id("l")), "item", "index", "", body)>>,
      <<Elem("dyn-c", <<Attr("plain", "sv-x", SV("Sx")), Attr("plain", "sv-item", SV("Sitem"))>>,
             <<Elem("c", <<Attr("slot:", "x", None), Attr("plain", "p", EV(Id("x")))>>, body),
               Elem("d", <<Attr("slot:", "item", SV("y"))>>, body),
               Elem("e", <<>>, body)>>)>>,
      <<Elem("dyn-c", <<Attr("plain", "sv-x", SV("Sx"))>>,
             <<Elem("c", <<Attr("slot:", "x", None)>>, <<For(EV(Id("l")), "x", "index", "", body)>>)>>)>>,
      (* two siblings with slot values, the later one renaming ITS value to the name of the earlier one's *)
      <<Elem("dyn-c", <<Attr("plain", "sv-x", SV("Sx")), Attr("plain", "sv-y", SV("Sy"))>>,
             <<Elem("c", <<Attr("slot:", "x", None)>>, body),
               Elem("d", <<Attr("slot:", "y", SV("x"))>>, body),
               Elem("e", <<Attr("slot:", "x", SV("y")), Attr("slot:", "y", SV("x"))>>, body)>>)>>,
      <<For(EV(Id("l")), "x", "index", "", <<Elem("dyn-c", <<Attr("plain", "sv-x", EV(Id("x")))>>,
             <<Elem("c", <<Attr("slot:", "x", SV("index"))>>, body)>>)>>)>> }
WxsMReset == [n |-> WxsM.n, reset |-> TRUE, members |-> WxsM.members]
WxsLate == [n |-> "zz", late |-> TRUE, members |-> << <<"k", VS("Zk")>> >>]
(* a module referred to by path next to an inline one, in both orders of declaration: each name denotes ITS module, in
   the generated code and in the printed text *)
WxsX == [n |-> "xm", src |-> "s6", members |-> << <<"k", VS("Xk")>> >>]
ProbeTwo == <<Text(<<S("["), P(Mem(Id("m"), "k")), S("|"), P(Mem(Id("xm"), "k")), S("|"), P(Id("x")), S("]")>>)>>
TwoKinds == { FileW(w, <<>>, r) : w \in {<<WxsM, WxsX>>, <<WxsX, WxsM>>},
                r \in { ProbeTwo, <<For(EV(Id("l")), "x", "m", "", ProbeTwo)>>, <<For(EV(Id("l")), "xm", "index", "", <<Elem("v", <<Attr("plain", "p", EV(Mem(Id("m"), "k")))>>, ProbeTwo)>>)>> } }
F6 == {FileW(<<>>, <<>>, r) : r \in ScopeShapes(ProbeAll)} \cup TwoKinds
      (* a script module added after parsing, by name, through the group API: the scopes keep their meaning *)
      \cup {FileW(w, <<>>, r) : r \in ScopeShapes(ProbeAll), w \in {<<WxsLate>>, <<WxsM, WxsLate>>}}
      \cup {FileW(<<WxsM>>, <<>>, r) : r \in ScopeShapes(ProbeAll)}
      (* a scope variable - a script module, a list item under either name - as the WHOLE data of a template reference
         (written `data="{{ (x) }}"`: without the parentheses it would be the object literal {x: x}) *)
      \cup { FileW(<<WxsM>>, <<[n |-> "t", ch |-> <<Text(<<S("["), P(Id("k")), S("|"), P(Id("x")), S("]")>>)>>]>>, r) :
                r \in { <<TmplIs(SV("t"), EV(Id("m")))>>,
                        <<For(EV(Arr(<<Item(Id("o"))>>)), "x", "index", "", <<TmplIs(SV("t"), EV(Id("x")))>>)>>,
                        <<For(EV(Arr(<<Item(Id("o"))>>)), "item", "index", "", <<TmplIs(SV("t"), EV(Id("item")))>>)>> } }
      (* the content of an EXISTING inline module set again through the group API (a hot update of the script): no
         module is added, so no scope moves *)
      \cup {FileW(w, <<>>, r) : r \in ScopeShapes(ProbeAll), w \in {<<WxsMReset>>, <<WxsMReset, WxsLate>>}}
      (* the same scope shapes inside the body of a template definition (which sees script modules and its own
         data only), in a file with and without a script module *)
      \cup {FileW(w, <<[n |-> "t", ch |-> r]>>,
                  <<TmplIs(SV("t"), EV(Obj(<<Short("x"), Short("y"), Short("item"), Short("index"), Short("l"), Short("l2"), Short("o")>>)))>>) :
               r \in ScopeShapes(ProbeAll), w \in {<<>>, <<WxsM>>}}
      \cup {FileW(<<WxsM>>, <<[n |-> "t", ch |-> ProbeAll]>>,
                  <<For(EV(Id("l")), "x", "y", "", <<TmplIs(SV("t"), EV(Obj(<<Named("y", Id("x"))>>)))>>)>>)}
      \cup UNION { {FileW(<<>>, <<>>, <<For(EV(Id("l")), "x", "index", "", <<Text(<<S("["), P(e), S("]")>>)>>)>>) :
                       e \in Positions(n)} : n \in {"x", "index", "y"} }
      \cup UNION { {FileW(<<>>, <<>>, <<For(EV(Id("l")), "x", "index", "",
                       <<Elem("v", <<Attr("plain", "p", EV(e)), Attr("class", "", MV(<<S("c"), P(e)>>))>>, <<>>)>>)>>) :
                       e \in Positions(n)} : n \in {"x", "y"} }
      (* scope variables as the index expressions of the conditions of ONE if-chain (their temporaries live side by side) *)
      \cup { FileW(<<>>, <<>>, <<For(EV(Id("l")), "x", "index", "",
                       <<If(<<[c |-> EV(Idx(Id("l"), Id("index"))), ch |-> <<Elem("p", <<>>, ProbeAll)>>],
                              [c |-> EV(Idx(Id("o"), Id("x"))), ch |-> <<Elem("q", <<>>, ProbeAll)>>]>>, TRUE, <<Elem("r", <<>>, ProbeAll)>>)>>)>>),
              FileW(<<>>, <<>>, <<For(EV(Id("l")), "x", "index", "",
                       <<If(<<[c |-> EV(Idx(Id("o"), Id("x"))), ch |-> <<Elem("p", <<>>, ProbeAll)>>],
                              [c |-> EV(Cond(Id("index"), Lit("0"), Lit("1"))), ch |-> <<Elem("q", <<>>, ProbeAll)>>]>>, TRUE, <<Elem("r", <<>>, ProbeAll)>>)>>)>>) }
      (* the scope variable (and, next to it, a data field) as the value of every attribute family *)
      \cup { FileW(w, <<>>, <<For(EV(Id("l")), "x", "index", "",
                       <<Elem("v", <<Attr(fn[1], fn[2], EV(e)), Attr("plain", "q", EV(Id("y")))>>, <<>>)>>)>>) :
                 fn \in { <<"plain", "p">>, <<"class", "">>, <<"style", "">>, <<"id", "">>, <<"slot", "">>, <<"data:", "k">>, <<"data-", "k">>,
                          <<"mark:", "k">>, <<"model:", "v">>, <<"change:", "p">>, <<"bind", "tap">>, <<"catch", "tap">>, <<"capture-bind", "tap">> },
                 e \in {Id("x"), Id("index"), Mem(Id("m"), "k")}, w \in {<<WxsM>>} }
      \cup { FileW(<<>>, <<>>, <<Elem("dyn-c", <<Attr("plain", "sv-x", SV("Sx"))>>,
                       <<Elem("c", <<Attr("slot:", "x", None), Attr(fn[1], fn[2], EV(Id("x")))>>, <<>>),
                         SlotEl(EV(Id("x")), <<Attr("slot:", "x", None), Attr("plain", "p", EV(Id("x"))), Attr("mark:", "k", EV(Id("x")))>>)>>)>>) :
                 fn \in { <<"mark:", "k">>, <<"data:", "k">>, <<"id", "">>, <<"bind", "tap">> } }


-----------------------------------------------------------------------------
(* F7: l-value shapes (C11): model: / event / change: / list bindings over member chains, dynamic
   indices, for-items (nested), conditionals, script references, and every non-assignable form *)
DL == VO(<< <<"a", VI(1)>>, <<"b", VS("p")>>, <<"i", VI(1)>>, <<"c", VB(FALSE)>>,
            <<"o", VO(<< <<"p", VS("op")>>, <<"q", VO(<< <<"r", VS("oqr")>> >>)>> >>)>>,
            <<"o2", VO(<< <<"p", VS("o2p")>> >>)>>,
            <<"l", VA(<< VO(<< <<"v", VS("l0v")>>, <<"sub", VA(<<VS("s00"), VS("s01")>>)>> >>),
                         VO(<< <<"v", VS("l1v")>>, <<"sub", VA(<<VS("s10")>>)>> >>) >>)>>,
            <<"ol", VO(<< <<"k1", VS("v1")>>, <<"k2", VS("v2")>> >>)>> >>)
DL2 == VO(<< <<"a", VI(0)>>, <<"b", VS("q")>>, <<"i", VI(0)>>, <<"c", VB(TRUE)>>,
             <<"o", VO(<< <<"p", VS("op")>>, <<"q", VO(<< <<"r", VS("oqr")>> >>)>> >>)>>,
             <<"o2", VO(<< <<"p", VS("o2p")>> >>)>>,
             <<"l", VA(<< VO(<< <<"v", VS("l0v")>>, <<"sub", VA(<<VS("s00")>>)>> >>) >>)>>,
             <<"ol", VO(<< <<"k1", VS("v1")>> >>)>> >>)
LOk == {Id("a"), Mem(Id("o"), "p"), Mem(Mem(Id("o"), "q"), "r"), Idx(Id("l"), Lit("0")), Mem(Idx(Id("l"), Id("i")), "v"),
        Idx(Id("o"), Id("b")), Idx(Id("o"), Lit("'p'")), Cond(Id("c"), Mem(Id("o"), "p"), Mem(Id("o2"), "p")),
        Mem(Cond(Id("c"), Id("o"), Id("o2")), "p"), Idx(Mem(Idx(Id("l"), Lit("0")), "sub"), Id("i")),
        Cond(Id("c"), Id("a"), Bin("+", Id("a"), Lit("1"))), Cond(Id("c"), Lit("1"), Mem(Id("o"), "p")),
        (* a member chain continuing a conditional nested in a conditional: the tail belongs to every branch *)
        Mem(Cond(Id("c"), Cond(Id("a"), Id("o"), Id("o2")), Id("o2")), "p"),
        Mem(Cond(Id("c"), Id("o"), Cond(Id("a"), Id("o2"), Id("o"))), "p"),
        Mem(Mem(Cond(Id("c"), Cond(Id("a"), Id("o"), Id("o")), Id("o")), "q"), "r"),
        Mem(Cond(Id("c"), Cond(Id("a"), Id("o"), Lit("1")), Id("o2")), "p"),
        (* each conditional followed by its own member: the segments keep their order *)
        Mem(Cond(Id("c"), Mem(Cond(Id("a"), Id("o"), Id("o")), "q"), Mem(Id("o"), "q")), "r"),
        Idx(Cond(Id("c"), Mem(Idx(Cond(Id("a"), Id("l"), Id("l")), Lit("0")), "sub"), Mem(Idx(Id("l"), Lit("0")), "sub")), Id("i"))}
(* conditions that are computed - a negation, a double negation, a comparison, a conjunction: the path is that of the
   branch the CONDITION'S VALUE selects (the condition does not read the location the branch names: writing there
   would change the branch, and get-put is stated for the branch taken) *)
LCondOk == {Cond(Un("!", Id("c")), Mem(Id("o"), "p"), Mem(Id("o2"), "p")), Mem(Cond(Un("!", Un("!", Id("c"))), Id("o"), Id("o2")), "p"),
            Cond(Bin("===", Id("a"), Lit("1")), Mem(Id("o"), "p"), Mem(Id("o2"), "p")), Mem(Cond(Un("!", Id("a")), Id("o"), Id("o2")), "p"),
            Cond(Bin("&&", Id("c"), Id("b")), Mem(Id("o"), "p"), Id("a")), Cond(Un("!", Id("c")), Id("a"), Bin("+", Id("a"), Lit("1")))}
LBad == {Bin("+", Id("a"), Lit("1")), Un("!", Id("a")), Lit("'x'"), Lit("1"), Call(Id("f"), <<Id("a")>>),
         Idx(Arr(<<Item(Id("a"))>>), Lit("0")), Mem(Obj(<<Named("p", Id("a"))>>), "p"), Bin("||", Id("a"), Id("b")),
         Arr(<<Item(Id("a"))>>), Obj(<<Named("p", Id("a"))>>)}
LAll == LOk \cup LCondOk \cup LBad
WxsIn  == [n |-> "m", members |-> << <<"f", VF("f2")>>, <<"g", VO(<< <<"h", VF("f1")>> >>)>>, <<"list", VA(<< VO(<< <<"f", VF("f2")>> >>) >>)>> >>]
WxsExt == [n |-> "x", src |-> "s", members |-> << <<"f", VF("f2")>>, <<"g", VO(<< <<"h", VF("f1")>> >>)>> >>]
SExprs == {Mem(Id("m"), "f"), Mem(Mem(Id("m"), "g"), "h"), Mem(Id("x"), "f"), Mem(Mem(Id("x"), "g"), "h"), Id("m"),
           Cond(Id("c"), Mem(Id("m"), "f"), Mem(Id("x"), "f")), Cond(Id("c"), Mem(Id("m"), "f"), Id("a")),
           Idx(Id("m"), Id("b")), Call(Mem(Id("m"), "f"), <<Id("a")>>),
           Mem(Cond(Id("c"), Id("m"), Id("x")), "f"), Mem(Mem(Cond(Id("c"), Id("m"), Id("x")), "g"), "h"),
           Cond(Un("!", Id("c")), Mem(Id("m"), "f"), Mem(Id("x"), "f")), Mem(Cond(Un("!", Id("a")), Id("m"), Id("x")), "f")}
FileS(root) == << [path |-> "a", imports |-> <<>>, wxs |-> <<WxsIn, WxsExt>>, defs |-> <<>>, root |-> root] >>
F7 ==    {FileS(<<Elem("v", <<Attr("model:", "v", EV(e))>>, <<>>)>>) : e \in LAll \cup SExprs}
    (* the items of a list that lives in a script module (no location of the data under model:, a script location for a handler),
       alone and as a branch of a conditional *)
    \cup {FileS(<<For(EV(Mem(Id("m"), "list")), "item", "index", "", <<Elem("v", <<Attr(f, "v", EV(e))>>, <<>>)>>)>>) :
              f \in {"model:", "bind", "change:"}, e \in {Mem(Id("item"), "f"), Id("item"), Cond(Id("c"), Mem(Id("item"), "f"), Id("a"))}}
    \cup {FileS(<<Elem("v", <<Attr(f, "tap", EV(e))>>, <<>>)>>) : f \in {"bind", "catch", "capture-bind"}, e \in SExprs \cup LOk}
    \cup {FileS(<<Elem("v", <<Attr("change:", "p", EV(e))>>, <<>>)>>) : e \in SExprs \cup {Id("a"), Mem(Id("o"), "p")}}
    \cup {FileS(<<Elem("v", <<Attr("plain", n, EV(e))>>, <<>>)>>) : n \in {"bindtap", "catchtap", "ontap", "capture-bindtap", "p"},
                                                                    e \in SExprs \cup {Id("a")}}
    \cup {FileS(<<SlotEl(None, <<Attr("plain", n, EV(e))>>)>>) : n \in {"bindtap", "p"}, e \in {Mem(Id("m"), "f"), Mem(Id("x"), "f"), Id("a")}}
    \cup {FileS(<<For(EV(l), "item", "index", "", <<Elem("v", <<Attr("model:", "v", EV(e))>>, <<>>)>>)>>) :
             l \in {Id("l"), Id("ol"), Mem(Id("o"), "q"), Arr(<<Item(Id("a")), Item(Id("b"))>>), Cond(Id("c"), Id("l"), Id("ol")),
                    (* a conditional list with one branch that is no path: its items have a path only when the other branch is taken *)
                    Cond(Id("c"), Id("l"), Lit("2")), Cond(Id("c"), Lit("'ab'"), Id("l")),
                    (* one branch in the data, the other in a script module: whichever is taken decides what the items' paths are *)
                    Cond(Id("c"), Id("l"), Mem(Id("m"), "list")), Cond(Id("c"), Mem(Id("m"), "list"), Id("l")),
                    Mem(Idx(Id("l"), Lit("0")), "sub"), Bin("||", Id("l"), Id("ol")), Call(Id("f"), <<Id("l")>>),
                    Mem(Cond(Id("c"), Idx(Id("l"), Lit("0")), Idx(Id("l"), Lit("0"))), "sub"),
                    Mem(Cond(Id("c"), Cond(Id("a"), Idx(Id("l"), Lit("0")), Idx(Id("l"), Lit("0"))), Idx(Id("l"), Lit("0"))), "sub")},
             e \in {Id("item"), Mem(Id("item"), "v"), Id("index"), Idx(Id("item"), Lit("'v'")), Id("a"), Bin("+", Id("item"), Lit("1"))}}
    \cup {FileS(<<For(EV(Id("l")), "x", "y", "", <<For(EV(Mem(Id("x"), "sub")), "item", "index", "",
                    <<Elem("v", <<Attr("model:", "v", EV(e))>>, <<>>)>>)>>)>>) :
             e \in {Id("item"), Id("x"), Mem(Id("x"), "v"), Id("index"), Id("y")}}
    (* a two-way binding inside a template definition reads the template's own data (a copy): it names no location of the
       component's data, whatever expression the data came from *)
    \cup { << [path |-> "a", imports |-> <<>>, wxs |-> <<WxsIn, WxsExt>>,
               defs |-> <<[n |-> "t", ch |-> <<Elem("v", <<Attr("model:", "v", EV(e))>>, <<>>)>>]>>,
               root |-> <<TmplIs(SV("t"), EV(d))>>] >> :
              e \in {Id("y"), Mem(Id("y"), "p"), Mem(Id("z"), "p")},
              d \in {Obj(<<Named("y", Mem(Id("o"), "p")), Named("z", Id("o"))>>), Obj(<<Named("y", Id("o")), Short("o")>>)} }
    \cup {FileS(<<For(EV(l), "item", "index", "", <<Elem("v", <<Attr(f, "tap", EV(e))>>, <<>>)>>)>>) :
             l \in {Mem(Id("m"), "list"), Id("l")}, f \in {"bind"}, e \in {Mem(Id("item"), "f"), Id("item"), Mem(Id("m"), "f")}}


-----------------------------------------------------------------------------
(* F8: multi-file groups (C13).  References are written relative to the referring file and resolved
   by Paths!Resolve; `src` is the spelling the concretiser prints, `path`/imports the resolved key. *)
Ref(cur, relSegs, abs, suffix) == [src |-> (IF abs THEN "/" ELSE "") \o JoinPath(relSegs) \o suffix, key |-> JoinPath(ResolvePath(cur, relSegs, abs))]
IncludeR(r) == [t |-> "include", path |-> r.key, src |-> r.src]
DefM(name, marker) == [n |-> name, ch |-> <<Text(<<S("<" \o marker \o ":"), P(Id("y")), S(">")>>)>>]
GFile(segs, irefs, wxs, defs, root) == [path |-> JoinPath(segs), imports |-> [i \in 1..Len(irefs) |-> irefs[i].key],
                                         importSrcs |-> [i \in 1..Len(irefs) |-> irefs[i].src], wxs |-> wxs, defs |-> defs, root |-> root]
UseT == <<TmplIs(SV("t"), EV(Obj(<<Named("y", EA)>>))), TmplIs(SV("u"), EV(Obj(<<Named("y", EB)>>))), TmplIs(SV("nope"), None),
         (* names that no file defines but every plain JavaScript object answers to *)
         TmplIs(SV("constructor"), None), TmplIs(EV(Lit("'toString'")), None)>>
MainSegs == <<"d", "a">>
RefsTo(cur, target) ==      \* several spellings of a reference from `cur` to the file d/<target>
    { Ref(cur, <<target>>, FALSE, ""), Ref(cur, <<".", target>>, FALSE, ".wxml"), Ref(cur, <<"d", target>>, TRUE, ""),
      Ref(cur, <<"..", "d", target>>, FALSE, ""), Ref(cur, <<"x", "..", target>>, FALSE, ".wxml"), Ref(cur, <<"..", "..", "d", ".", target>>, TRUE, "") }
F8imports ==
    { << GFile(MainSegs, irefs, <<>>, IF mt THEN <<DefM("t", "main")>> ELSE <<>>, UseT),
         GFile(<<"d", "b">>, <<>>, <<>>, (IF bt THEN <<DefM("t", "b")>> ELSE <<>>) \o <<DefM("u", "b")>>, <<Text(<<S("B")>>)>>),
         GFile(<<"d", "c">>, <<>>, <<>>, (IF ct THEN <<DefM("t", "c")>> ELSE <<>>) \o <<DefM("u", "c")>>, <<Text(<<S("C")>>)>>) >> :
        mt \in BOOLEAN, bt \in BOOLEAN, ct \in BOOLEAN,
        irefs \in {<<>>} \cup {<<r>> : r \in RefsTo(MainSegs, "b")} \cup
                  {<<r1, r2>> : r1 \in {Ref(MainSegs, <<"b">>, FALSE, ""), Ref(MainSegs, <<"..", "d", "b">>, FALSE, ".wxml")},
                                r2 \in {Ref(MainSegs, <<"c">>, FALSE, ""), Ref(MainSegs, <<"d", "c">>, TRUE, "")}} \cup
                  (* the same file imported again, under another spelling, after a different file: the LAST import wins *)
                  {<<Ref(MainSegs, <<"b">>, FALSE, ""), Ref(MainSegs, <<"c">>, FALSE, ""), r3>> :
                       r3 \in {Ref(MainSegs, <<".", "b">>, FALSE, ".wxml"), Ref(MainSegs, <<"d", "b">>, TRUE, ""), Ref(MainSegs, <<"b">>, FALSE, ""),
                               Ref(MainSegs, <<"x", "..", "c">>, FALSE, "")}} \cup
                  {<<Ref(MainSegs, <<"c">>, FALSE, ".wxml"), Ref(MainSegs, <<"b">>, FALSE, ""), Ref(MainSegs, <<"..", "d", "c">>, FALSE, "")>>,
                   <<Ref(MainSegs, <<"b">>, FALSE, ""), Ref(MainSegs, <<".", "b">>, FALSE, "")>>} \cup
                  {<<Ref(MainSegs, <<"c">>, FALSE, ""), Ref(MainSegs, <<"b">>, FALSE, "")>>,
                   <<Ref(MainSegs, <<"missing">>, FALSE, ""), Ref(MainSegs, <<"b">>, FALSE, "")>>} }
F8includes ==
    { << GFile(MainSegs, <<>>, <<>>, <<>>, <<Text(<<S("A")>>), IncludeR(r), Elem("v", <<>>, <<IncludeR(r2)>>)>>),
         GFile(<<"d", "b">>, <<>>, <<>>, <<>>, <<Text(<<S("B"), P(EA)>>), IncludeR(Ref(<<"d", "b">>, <<"..", "g">>, FALSE, ""))>>),
         GFile(<<"g">>, <<>>, <<>>, <<>>, <<Text(<<S("G"), P(EB)>>)>>) >> :
        r \in RefsTo(MainSegs, "b"), r2 \in {Ref(MainSegs, <<"..", "g">>, FALSE, ""), Ref(MainSegs, <<"g">>, TRUE, ".wxml"),
                                             Ref(MainSegs, <<"nowhere">>, FALSE, "")} }
(* includes as the branches of an if-chain and as the body of a list: they are dependencies like any other *)
F8branches ==
    { << GFile(MainSegs, <<>>, <<>>, <<>>,
               <<If(<<[c |-> EV(EA), ch |-> <<IncludeR(r)>>], [c |-> EV(EB), ch |-> <<IncludeR(Ref(MainSegs, <<"..", "g">>, FALSE, ""))>>]>>, TRUE,
                    <<IncludeR(Ref(MainSegs, <<"d", "c">>, TRUE, ".wxml"))>>),
                 For(EV(Id("l")), "item", "index", "", <<IncludeR(Ref(MainSegs, <<"c">>, FALSE, ""))>>)>>),
         GFile(<<"d", "b">>, <<>>, <<>>, <<>>, <<Text(<<S("B"), P(EA)>>)>>),
         GFile(<<"d", "c">>, <<>>, <<>>, <<>>, <<Text(<<S("C")>>)>>),
         GFile(<<"g">>, <<>>, <<>>, <<>>, <<Text(<<S("G"), P(EB)>>)>>) >> : r \in RefsTo(MainSegs, "b") }
(* script modules referred to by path: the bundle must link the module to the script registered under the resolved
   path (the text shows a member of the module; the event handler carries the script's path) *)
WxsRef(n, r, marker) == [n |-> n, src |-> r.src, key |-> r.key, members |-> << <<"n", VS(marker)>>, <<"f", VF("f2")>> >>]
ScriptRefsTo(cur, target) ==
    { Ref(cur, <<target>>, FALSE, ""), Ref(cur, <<".", target>>, FALSE, ".wxs"), Ref(cur, <<"d", target>>, TRUE, ".wxs"),
      Ref(cur, <<"..", "d", target>>, FALSE, ""), Ref(cur, <<"x", "..", target>>, FALSE, ".wxs"), Ref(cur, <<"..", "..", "d", ".", target>>, TRUE, ""),
      Ref(cur, <<"lib", "..", "d", target>>, TRUE, ".wxs"), Ref(cur, <<".", "d", target>>, TRUE, "") }
F8scripts ==
    { << GFile(MainSegs, <<>>, <<WxsRef("x", r, "U"), WxsRef("z", r2, "W")>>, <<>>,
               <<Text(<<P(Mem(Id("x"), "n")), S("/"), P(Mem(Id("z"), "n"))>>),
                 Elem("v", <<Attr("bind", "tap", EV(Mem(Id("x"), "f"))), Attr("plain", "p", EV(Call(Mem(Id("z"), "f"), <<EA>>)))>>, <<>>)>>) >> :
        r \in ScriptRefsTo(MainSegs, "u"), r2 \in {Ref(MainSegs, <<"..", "w">>, FALSE, ".wxs"), Ref(MainSegs, <<".", "w">>, TRUE, "")} }
(* definitions WITHOUT children: a template that renders nothing is a definition all the same - it shadows an imported
   template of its name when it is local, and an earlier import's when it comes from a later import *)
DefE(name) == [n |-> name, ch |-> <<>>]
F8empty ==
    { << GFile(MainSegs, irefs, <<>>, mdefs, UseT),
         GFile(<<"d", "b">>, <<>>, <<>>, bdefs, <<Text(<<S("B")>>)>>),
         GFile(<<"d", "c">>, <<>>, <<>>, cdefs, <<Text(<<S("C")>>)>>) >> :
        irefs \in { <<Ref(MainSegs, <<"b">>, FALSE, "")>>, <<Ref(MainSegs, <<"b">>, FALSE, ""), Ref(MainSegs, <<"d", "c">>, TRUE, "")>>,
                    <<Ref(MainSegs, <<"c">>, FALSE, ".wxml"), Ref(MainSegs, <<"b">>, FALSE, "")>> },
        mdefs \in { <<>>, <<DefE("t")>>, <<DefE("t"), DefM("u", "main")>> },
        bdefs \in { <<DefM("t", "b"), DefM("u", "b")>>, <<DefE("t"), DefM("u", "b")>> },
        cdefs \in { <<DefM("t", "c"), DefE("u")>>, <<DefE("t"), DefM("u", "c")>> } }
F8 == F8imports \cup F8includes \cup F8branches \cup F8scripts \cup F8empty

-----------------------------------------------------------------------------
Cases == CASE Family = "F8" -> F8 [] Family = "F7" -> F7 [] Family = "F1" -> F1 [] Family = "F2" -> F2 [] Family = "F3" -> F3 [] Family = "F4" -> F4
           [] Family = "F5" -> F5 [] Family = "F6" -> F6

DataPool == IF Family = "F6" THEN {DS} ELSE IF Family = "F7" THEN {DL, DL2} ELSE Datas

Init == files \in Cases /\ data \in DataPool
Next == UNCHANGED vars
Spec == Init /\ [][Next]_vars

Group == [p \in {files[i].path : i \in 1..Len(files)} |-> CHOOSE f \in {files[i] : i \in 1..Len(files)} : f.path = p]
MainPath == IF Family = "F8" THEN "d/a" ELSE "a"
Tree == RenderFile(Group, MainPath, data)

(* laws of the reference semantics, checked on every case *)
(* comments never render *)
RECURSIVE StripComments(_), StripNode(_)
StripNode(n) == CASE n.t = "elem" -> <<[n EXCEPT !.ch = StripComments(n.ch)]>>
                  [] n.t = "comment" -> <<>>
                  [] n.t \in {"block", "blockslot", "for"} -> <<[n EXCEPT !.ch = StripComments(n.ch)]>>
                  [] OTHER -> <<n>>
StripComments(ns) == IF ns = <<>> THEN <<>> ELSE StripNode(ns[1]) \o StripComments(Tail(ns))
CommentInsensitive ==
    LET f == files[1]
        g2 == [p \in {"a"} |-> [f EXCEPT !.root = StripComments(f.root)]]
    IN Len(files) = 1 => RenderFile(g2, "a", data) = Tree
(* wrapping the root in a plain <block> changes nothing *)
BlockInsensitive ==
    LET f == files[1]
        g2 == [p \in {"a"} |-> [f EXCEPT !.root = <<Block(f.root)>>]]
    IN Len(files) = 1 => RenderFile(g2, "a", data) = Tree

(* C11: get-put on the specification: writing w at LPath(e) and reading e again yields w *)
Sentinel == VS("SENTINEL")
RECURSIVE GetPutAttrs(_, _, _), GetPutNodes(_, _)
GetPutOf(v, env) ==
    LET lp == ValueLP(v, env) IN
    (lp.ok /\ lp.root = "data") =>
        LET d2 == SetAt(env.data, lp.keys, 1, Sentinel)
        IN Eval(v.e, [env EXCEPT !.data = d2]) = Sentinel
GetPutAttrs(at, i, env) == i > Len(at) \/ (GetPutOf(at[i].v, env) /\ GetPutAttrs(at, i + 1, env))
GetPutNodes(ns, env) == \A i \in 1..Len(ns) :
    ns[i].t = "elem" => GetPutAttrs(ns[i].at, 1, env)
GetPut == Family = "F7" => GetPutNodes(files[1].root, Env0(Group, "a", data))

Emit == PrintT(<<"CASE", ToJson([files |-> files, data |-> data,
                                  tree |-> IF Family = "F7" THEN RenderFileMarked(Group, "a", data) ELSE Tree, main |-> MainPath])>>)
=============================================================================
