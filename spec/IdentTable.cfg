SPECIFICATION TSpec
CONSTANTS
  NChunks = 7
  ChunkSize = 30000
INVARIANTS Report
CHECK_DEADLOCK FALSE
