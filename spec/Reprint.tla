------------------------------- MODULE Reprint -------------------------------
(***************************************************************************)
(* The stringifier at the abstract level (C14).  Printing a parsed         *)
(* template and parsing the text again yields the *normal form* of the     *)
(* template: comments are dropped (so text nodes they separated become     *)
(* one), a plain <block> contributes its children, wx:if / wx:for sit on   *)
(* <block> wrappers.  The laws checked by TLC on every case of every       *)
(* family:                                                                 *)
(*   Stutter     Render(Norm(t), D) = Render(t, D)      for all D          *)
(*   Idempotent  Norm(Norm(t)) = Norm(t)                (a fix-point after *)
(*                                                       one round)        *)
(* The implementation is bound by replay: the re-printed text of every     *)
(* concretised case must satisfy the specification's tree and histories,   *)
(* and printing it again must give the same text.                          *)
(***************************************************************************)
EXTENDS MCWxmlSem

RECURSIVE Norm(_), NormNode(_), MergeText(_)

NormNode(n) ==
    CASE n.t = "comment" -> <<>>
      [] n.t = "block"   -> Norm(n.ch)
      [] n.t = "elem"    -> <<[n EXCEPT !.ch = Norm(n.ch)]>>
      [] n.t = "blockslot" -> <<[n EXCEPT !.ch = Norm(n.ch)]>>
      [] n.t = "for"     -> <<[n EXCEPT !.ch = Norm(n.ch)]>>
      [] n.t = "if"      -> <<[n EXCEPT !.brs = [i \in 1..Len(n.brs) |-> [n.brs[i] EXCEPT !.ch = Norm(n.brs[i].ch)]],
                                        !.els = Norm(n.els)]>>
      [] OTHER           -> <<n>>

RECURSIVE Flat(_)
Flat(ns) == IF ns = <<>> THEN <<>> ELSE NormNode(ns[1]) \o Flat(Tail(ns))

(* adjacent text nodes are one text node; adjacent static pieces one piece *)
RECURSIVE MergePieces(_)
MergePieces(ps) ==
    IF Len(ps) < 2 THEN ps
    ELSE IF ps[1].t = "s" /\ ps[2].t = "s"
         THEN MergePieces(<<[t |-> "s", s |-> ps[1].s \o ps[2].s]>> \o SubSeq(ps, 3, Len(ps)))
         ELSE <<ps[1]>> \o MergePieces(Tail(ps))
MergeText(ns) ==
    IF Len(ns) < 2 THEN ns
    ELSE IF ns[1].t = "text" /\ ns[2].t = "text"
         THEN MergeText(<<Text(MergePieces(ns[1].ps \o ns[2].ps))>> \o SubSeq(ns, 3, Len(ns)))
         ELSE <<ns[1]>> \o MergeText(Tail(ns))

Norm(ns) == MergeText(Flat(ns))

NormFile(f) == [f EXCEPT !.root = Norm(f.root),
                         !.defs = [i \in 1..Len(f.defs) |-> [f.defs[i] EXCEPT !.ch = Norm(f.defs[i].ch)]]]
NormGroup == [p \in DOMAIN Group |-> NormFile(Group[p])]

(* rendered text: concatenation of adjacent text nodes, the only thing merging can change *)
RECURSIVE JoinText(_)
JoinText(tree) ==
    IF Len(tree) < 2 THEN
        (IF Len(tree) = 1 /\ "ch" \in DOMAIN tree[1] THEN <<[tree[1] EXCEPT !.ch = JoinText(tree[1].ch)]>> ELSE tree)
    ELSE IF tree[1].t = "text" /\ tree[2].t = "text"
         THEN JoinText(<<[t |-> "text", ps |-> tree[1].ps \o tree[2].ps]>> \o SubSeq(tree, 3, Len(tree)))
         ELSE (IF "ch" \in DOMAIN tree[1] THEN <<[tree[1] EXCEPT !.ch = JoinText(tree[1].ch)]>> ELSE <<tree[1]>>)
              \o JoinText(Tail(tree))

RECURSIVE PiecesOnly(_)
PiecesOnly(tree) == [i \in 1..Len(tree) |->
    IF tree[i].t = "text" THEN [t |-> "text", ps |-> MergePieces([j \in 1..Len(tree[i].ps) |->
                                    IF tree[i].ps[j].t = "s" THEN tree[i].ps[j] ELSE tree[i].ps[j]])]
    ELSE IF "ch" \in DOMAIN tree[i] THEN [tree[i] EXCEPT !.ch = PiecesOnly(tree[i].ch)] ELSE tree[i]]

Stutter    == PiecesOnly(JoinText(RenderFile(NormGroup, "a", data))) = PiecesOnly(JoinText(Tree))
Idempotent == \A p \in DOMAIN Group : NormFile(NormFile(Group[p])) = NormFile(Group[p])
=============================================================================
