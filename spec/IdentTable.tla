------------------------------ MODULE IdentTable ------------------------------
(* The whole observed table id -> name against the requirements of IdentNames.  The table comes in chunks
   (TLC's sequences slow down sharply beyond ~10^5 elements): chunk c holds ids (c-1)*ChunkSize .. *)
EXTENDS IdentNames
CONSTANTS NChunks, ChunkSize
Chunk(c) == ndJsonDeserialize(IOEnv.VERIF_IDENT_DIR \o "/chunk" \o ToString(c) \o ".ndjson")

(* table check, one TLC state per chunk and mode:
     "ok"     chunk c of the table in id order: every name acceptable;
     "sorted" chunk c of the same names sorted by the harness (each chunk starts with the last name of the
              previous one): neighbours differ, i.e. the table is injective *)
VARIABLES c, mode
tvars == <<c, mode>>
TInit == c \in 1..NChunks /\ mode \in {"ok", "sorted"}
TNext == UNCHANGED tvars
TSpec == TInit /\ [][TNext]_tvars
Sorted(cc) == ndJsonDeserialize(IOEnv.VERIF_IDENT_DIR \o "/sorted" \o ToString(cc) \o ".ndjson")
Report ==
    IF mode = "ok"
    THEN LET T == Chunk(c)
             lo == IF c = 1 THEN First + 1 ELSE 1
             bad == {i \in lo..Len(T) : ~NameOK(T[i])}
         IN PrintT(<<"BADIDS", ToJson([c |-> c, mode |-> mode, n |-> Len(T), injective |-> TRUE, bad |-> [i \in bad |-> T[i]]])>>)
    ELSE LET T == Sorted(c)
         IN PrintT(<<"BADIDS", ToJson([c |-> c, mode |-> mode, n |-> Len(T), bad |-> <<>>,
                                       injective |-> \A i \in 1..(Len(T) - 1) : T[i] # T[i + 1]])>>)
=============================================================================
