SPECIFICATION DSpec
CONSTANT DFamily = "garbage"
INVARIANTS ExpectSane DEmit
CHECK_DEADLOCK FALSE
