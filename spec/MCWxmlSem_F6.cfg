SPECIFICATION Spec
CONSTANT Family = "F6"
INVARIANTS CommentInsensitive BlockInsensitive Emit
CHECK_DEADLOCK FALSE
