----------------------------- MODULE OutMapTrace -----------------------------
(***************************************************************************)
(* Trace validation of the stylesheet compiler's outputs against OutMap.   *)
(*                                                                         *)
(* VERIF_SRCS  ndjson, one source per line: the start positions of its     *)
(*             tokens (cssparser's tokenizer; a comment is not a token a   *)
(*             map entry may point at)                                     *)
(* VERIF_TRACE ndjson, one event per line, read off the REAL output (text  *)
(*             re-tokenised, source map decoded) in output order:          *)
(*   [1, k]                                  a new output, of source k     *)
(*   [2, dl, dc, sp, named]                  a source-map entry            *)
(*   [3, kind, nl, tail, raw, mustName, own, lo, hi, cands..]  a token     *)
(*   [4]                                     end of the output             *)
(* Entries are ordered as the map holds them; each stands in front of the  *)
(* first token that starts at or after its generated position, so an entry *)
(* whose generated column is not the true column of a token finds the      *)
(* write position somewhere else and is refused by OutMap!Entry.           *)
(***************************************************************************)
EXTENDS OutMap, TLC, Json, IOUtils

Srcs == ndJsonDeserialize(IOEnv.VERIF_SRCS)
Rec  == ndJsonDeserialize(IOEnv.VERIF_TRACE)

VARIABLE l
tvars == <<ovars, l>>

IsEv(op) == l <= Len(Rec) /\ Rec[l][1] = op /\ l' = l + 1

TrBegin == IsEv(1) /\ Begin(Srcs[Rec[l][2]])
TrEntry == IsEv(2) /\ LET e == Rec[l] IN Entry(e[2], e[3], e[4], e[5] = 1)
TrWrite == IsEv(3) /\ LET e == Rec[l]
                      IN Write(e[2], e[3], e[4], e[5] = 1, e[6] = 1, e[7] = 1, SubSeq(e, 10, Len(e)), e[8], e[9])
TrClose == IsEv(4) /\ Close

TraceInit == /\ l = 1
             /\ starts = <<>> /\ oline = 0 /\ ocol = 0 /\ pend = <<>> /\ lastDst = <<0, 0>> /\ stack = <<>>
             /\ closed = TRUE
TraceNext == TrBegin \/ TrEntry \/ TrWrite \/ TrClose
TraceSpec == TraceInit /\ [][TraceNext]_tvars

Accepted ==
    LET d == TLCGet("stats").diameter
    IN IF d - 1 = Len(Rec) THEN TRUE
       ELSE /\ PrintT(<<"REJECT", d, Rec[d]>>)
            /\ FALSE
=============================================================================
