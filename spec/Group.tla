-------------------------------- MODULE Group --------------------------------
(***************************************************************************)
(* The template group as a state machine (C20, C13): a map from paths to   *)
(* template sources and one from paths to scripts, built by any history    *)
(* of AddTmpl / AddScript / RemoveTmpl / SetInline / ImportGroup, with     *)
(* observations (Observe) anywhere in between, and emitted by              *)
(* walking the maps.  The walk order of a hash map is arbitrary: `Emit`    *)
(* takes it as a nondeterministic parameter.  The requirement (C20): the   *)
(* emitted artefact is a function of the *set* of files — independent of   *)
(* the iteration order and of the history that built the group; importing  *)
(* a group equals adding its files.                                        *)
(* `Canonical` = TRUE models an emitter that orders its walk by path (the  *)
(* repaired implementation); with FALSE TLC exhibits two iteration orders  *)
(* with different artefacts, which is the defect found in the pinned tree. *)
(***************************************************************************)
EXTENDS Naturals, Sequences, FiniteSets, TLC

CONSTANTS Paths, Contents, Canonical, MaxOps, PathRank,  \* PathRank: Paths -> Nat, injective (the ordering of path strings)
          ScriptPaths, ScriptContents                     \* scripts added on their own (a group may hold scripts only)

VARIABLES tmpls,     \* main group: path -> content (function on a subset of Paths)
          scripts,   \* main group: script path -> content
          sub,       \* a second group being filled: [open, m, s]
          nops

gvars == <<tmpls, scripts, sub, nops>>

Put(m, p, c) == [q \in DOMAIN m \cup {p} |-> IF q = p THEN c ELSE m[q]]
Merge(m, n)  == [q \in DOMAIN m \cup DOMAIN n |-> IF q \in DOMAIN n THEN n[q] ELSE m[q]]
Empty == [q \in {} |-> ""]

NoSub == [open |-> FALSE, m |-> Empty, s |-> Empty]
Init == tmpls = Empty /\ scripts = Empty /\ sub = NoSub /\ nops = 0

AddTmpl(p, c) == /\ nops < MaxOps
                 /\ IF ~sub.open THEN tmpls' = Put(tmpls, p, c) /\ sub' = sub
                    ELSE sub' = [sub EXCEPT !.m = Put(sub.m, p, c)] /\ tmpls' = tmpls
                 /\ nops' = nops + 1 /\ scripts' = scripts
AddScript(p, c) == /\ nops < MaxOps
                   /\ IF ~sub.open THEN scripts' = Put(scripts, p, c) /\ sub' = sub
                      ELSE sub' = [sub EXCEPT !.s = Put(sub.s, p, c)] /\ scripts' = scripts
                   /\ nops' = nops + 1 /\ tmpls' = tmpls
RemoveTmpl(p) == /\ nops < MaxOps /\ ~sub.open /\ p \in DOMAIN tmpls
                 /\ tmpls' = [q \in DOMAIN tmpls \ {p} |-> tmpls[q]] /\ nops' = nops + 1 /\ sub' = sub /\ scripts' = scripts
SubBegin      == /\ nops < MaxOps /\ ~sub.open /\ sub' = [open |-> TRUE, m |-> Empty, s |-> Empty] /\ nops' = nops + 1 /\ tmpls' = tmpls /\ scripts' = scripts
(* Emitting is an observation: it may happen at any point of a history and changes nothing (an emitter that keeps
   anything from one emission to the next must give it up when the maps change). *)
Observe       == /\ nops < MaxOps /\ nops' = nops + 1 /\ UNCHANGED <<tmpls, scripts, sub>>
(* The inline script of a template is replaced in place: the group then equals one to which the file was added with
   the new script ("x2" is content "x" with the other inline script). *)
SetInline(p)  == /\ nops < MaxOps /\ ~sub.open /\ p \in DOMAIN tmpls /\ tmpls[p] = "x"
                 /\ tmpls' = Put(tmpls, p, "x2") /\ nops' = nops + 1 /\ UNCHANGED <<scripts, sub>>
ImportGroup   == /\ sub.open /\ tmpls' = Merge(tmpls, sub.m) /\ scripts' = Merge(scripts, sub.s) /\ sub' = NoSub /\ nops' = nops

Next == \/ \E p \in Paths, c \in Contents : AddTmpl(p, c)
        \/ \E p \in ScriptPaths, c \in ScriptContents : AddScript(p, c)
        \/ \E p \in Paths : RemoveTmpl(p)
        \/ SubBegin \/ ImportGroup \/ Observe
        \/ \E p \in Paths : SetInline(p)
Spec == Init /\ [][Next]_gvars

(* all walk orders of the map *)
Perms(S) == {f \in [1..Cardinality(S) -> S] : \A i, j \in 1..Cardinality(S) : i # j => f[i] # f[j]}

RECURSIVE SortedSeq(_)
SortedSeq(S) == IF S = {} THEN <<>>
                ELSE LET m == CHOOSE x \in S : \A y \in S : PathRank[x] <= PathRank[y]
                     IN <<m>> \o SortedSeq(S \ {m})

(* the artefact: entries in walk order (canonical emitters ignore the walk order they are given) *)
Artefact(m, order) ==
    LET o == IF Canonical THEN SortedSeq(DOMAIN m) ELSE order
    IN [i \in 1..Len(o) |-> <<o[i], m[o[i]]>>]

RankDef == [p \in Paths |-> CASE p = "a" -> 1 [] p = "b" -> 2 [] p = "c" -> 3 [] OTHER -> 4]

(* importing a group is adding its files: the main map after ImportGroup is the merge *)
ImportIsAdd == [][sub.open /\ ~sub'.open => tmpls' = Merge(tmpls, sub.m) /\ scripts' = Merge(scripts, sub.s)]_gvars

(* C20 *)
OrderIndependent == \A o1, o2 \in Perms(DOMAIN tmpls) : Artefact(tmpls, o1) = Artefact(tmpls, o2)
=============================================================================
