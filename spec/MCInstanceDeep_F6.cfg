SPECIFICATION ISpec
CONSTANTS
  Family = "F6"
  MaxLen = 3
  CoverKinds = {"exact", "coarse", "true"}
INVARIANTS InstanceInv IEmit
CHECK_DEADLOCK FALSE
