SPECIFICATION Spec
CONSTANTS
  MaxDirs = 2
INVARIANTS TypeOK Emit
CHECK_DEADLOCK FALSE
