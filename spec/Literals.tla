------------------------------ MODULE Literals ------------------------------
(***************************************************************************)
(* Lexical grammar of the literals WXML expressions share with JavaScript, *)
(* as deterministic automata over a small alphabet, following ECMA-262     *)
(* §12.9.3 (numeric literals, sloppy mode: legacy octal and non-octal      *)
(* decimal integers included; no separators, BigInt, 0b/0o) and §12.9.4    *)
(* (string literals; legacy octal escapes are classified apart because     *)
(* they have no value in strict code).                                     *)
(* Every string over the alphabet up to a length bound is enumerated and   *)
(* classified; the classification is cross-checked against node and the    *)
(* valid spellings are replayed through the compiler (C03), all of them    *)
(* through the totality check (C01).                                       *)
(***************************************************************************)
EXTENDS Naturals, Sequences

NumAlphabet == <<"0", "1", "7", "8", "9", "a", "f", "x", "e", "-", ".">>
Dig  == {"0", "1", "7", "8", "9"}
Oct  == {"0", "1", "7"}
Hex  == Dig \cup {"a", "f", "e"}

(* numeric automaton; "X" is the dead state *)
NumStep(q, c) ==
    CASE q = "S"    -> IF c = "0" THEN "Z" ELSE IF c \in Dig THEN "INT" ELSE IF c = "." THEN "DOT0" ELSE "X"
      [] q = "Z"    -> IF c \in Oct THEN "OCT" ELSE IF c \in Dig THEN "NOD" ELSE IF c = "x" THEN "HX"
                       ELSE IF c = "." THEN "FRAC" ELSE IF c = "e" THEN "E" ELSE "X"
      [] q = "OCT"  -> IF c \in Oct THEN "OCT" ELSE IF c \in Dig THEN "NOD" ELSE "X"     \* 017 is octal; 018 decimal
      [] q = "NOD"  -> IF c \in Dig THEN "NOD" ELSE IF c = "." THEN "FRAC" ELSE IF c = "e" THEN "E" ELSE "X"
      [] q = "INT"  -> IF c \in Dig THEN "INT" ELSE IF c = "." THEN "FRAC" ELSE IF c = "e" THEN "E" ELSE "X"
      [] q = "DOT0" -> IF c \in Dig THEN "FRAC" ELSE "X"
      [] q = "FRAC" -> IF c \in Dig THEN "FRAC" ELSE IF c = "e" THEN "E" ELSE "X"
      [] q = "E"    -> IF c \in Dig THEN "EXP" ELSE IF c = "-" THEN "ES" ELSE "X"
      [] q = "ES"   -> IF c \in Dig THEN "EXP" ELSE "X"
      [] q = "EXP"  -> IF c \in Dig THEN "EXP" ELSE "X"
      [] q = "HX"   -> IF c \in Hex THEN "HEX" ELSE "X"
      [] q = "HEX"  -> IF c \in Hex THEN "HEX" ELSE "X"
      [] OTHER      -> "X"
NumAccept == {"Z", "OCT", "NOD", "INT", "FRAC", "EXP", "HEX"}

RECURSIVE RunNum(_, _, _)
RunNum(s, i, q) == IF i > Len(s) THEN q ELSE RunNum(s, i + 1, NumStep(q, s[i]))
NumValid(s) == s # <<>> /\ RunNum(s, 1, "S") \in NumAccept
NumKind(s)  == RunNum(s, 1, "S")

(* magnitudes around every boundary of the implementation's integer and float types; each is a
   valid JavaScript numeric literal (sloppy mode) *)
BigNums == {"9007199254740991", "9007199254740993", "2147483648", "4294967296",
            "9223372036854775807", "9223372036854775808", "18446744073709551616",
            "123456789012345678901234567890", "1e21", "1e22", "1e308", "1e309", "1e400", "1e-7", "1e-324",
            "5e-324", "1.7976931348623157e308", "0.1", "0.30000000000000004", "123456789.123456789",
            "0x7fffffffffffffff", "0x8000000000000000", "0xffffffffffffffff", "0x10000000000000000",
            "0777777777777777777777", "01000000000000000000000", "0999999999999999999999",
            "00", "000", "0.0", "0e0", "0.e1", ".0e1", "1.e1", "0x0", "0xA", "0XA", "1E3", "0b11", "0o17", "1_000"}

-----------------------------------------------------------------------------
(* string-literal bodies, to be wrapped in single quotes *)
StrAlphabet == <<"a", "4", "f", "0", "1", "9", "x", "u", "n", "\\", "'", "{", "}", "\n">>
HexS == {"a", "4", "f", "0", "1", "9"}

(* states: N normal, B after backslash, X1 X2 (\x), U1..U4 (\u), Z after \0 (a digit now makes it
   legacy octal), END after the closing quote (anything more is garbage); flags: "L" legacy seen *)
StrStep(q, c) ==
    CASE q = "N"  -> IF c = "\\" THEN "B" ELSE IF c = "'" THEN "END"
                     ELSE IF c = "\n" THEN "X"                     \* a bare line terminator ends nothing: not a literal
                     ELSE "N"
      [] q = "B"  -> IF c = "x" THEN "X1" ELSE IF c = "u" THEN "U1" ELSE IF c = "0" THEN "Z"
                     ELSE IF c \in {"1", "4"} THEN "LEG"            \* \1..\7: legacy octal escape
                     ELSE IF c = "9" THEN "LEG"                     \* \8 \9: sloppy-only
                     ELSE "N"                                       \* (incl. backslash + line terminator: a line continuation)
      [] q = "Z"  -> IF c \in {"0", "1", "4", "9"} THEN "LEG" ELSE IF c = "\\" THEN "B" ELSE IF c = "'" THEN "END"
                     ELSE IF c = "\n" THEN "X" ELSE "N"
      [] q = "X1" -> IF c \in HexS THEN "X2" ELSE "X"
      [] q = "X2" -> IF c \in HexS THEN "N" ELSE "X"
      [] q = "U1" -> IF c \in HexS THEN "U2" ELSE "X"               \* \u{...} is outside the WXML subset
      [] q = "U2" -> IF c \in HexS THEN "U3" ELSE "X"
      [] q = "U3" -> IF c \in HexS THEN "U4" ELSE "X"
      [] q = "U4" -> IF c \in HexS THEN "N" ELSE "X"
      [] q = "LEG" -> "LEG"
      [] OTHER    -> "X"

RECURSIVE RunStr(_, _, _)
RunStr(s, i, q) == IF i > Len(s) THEN q ELSE RunStr(s, i + 1, StrStep(q, s[i]))
(* a body is a complete literal when the automaton is back in N or Z at its end (the closing quote
   is appended by the concretiser) *)
StrKind(s)  == RunStr(s, 1, "N")
StrValid(s) == StrKind(s) \in {"N", "Z"}
=============================================================================
