SPECIFICATION HSpec
CONSTANTS
  Paths = {"a", "b", "c", "d"}
  Contents = {"x", "y", "z", "w"}
  Canonical = TRUE
  MaxOps = 5
  PathRank <- RankDef
  ScriptPaths = {"u"}
  ScriptContents = {"x", "y"}
INVARIANTS OrderIndependent HEmit
CHECK_DEADLOCK FALSE
