----------------------------- MODULE CursorTrace -----------------------------
(***************************************************************************)
(* Trace validation of the real parser against Cursor.                     *)
(*                                                                         *)
(* VERIF_SRCS  ndjson, one source per line as an array of character-kind   *)
(*             codes (1 Ascii, 2 LF, 3 two-byte, 4 three-byte, 5 astral)   *)
(* VERIF_TRACE ndjson, one event per line, recorded by the cfg-guarded     *)
(*             hook in ParseState after each state change:                 *)
(*   [0, idx, line, col]           adv   next/skip_bytes/skip_whitespace   *)
(*   [1]                           try   try_parse entered                 *)
(*   [2]                           ok    try_parse kept the result         *)
(*   [3, idx, line, col]           rb    try_parse restored the position   *)
(*   [4, kind, sl, sc, el, ec]     warn  add_warning                       *)
(*   [5, k]                        reset the harness starts parsing Srcs[k]*)
(*   [6]                           fin   parse() returned                  *)
(* Each trace action is  IsEv(op) /\ <Cursor action> /\ <logged fields =   *)
(* the spec's next state>.  Acceptance: every event consumed.              *)
(***************************************************************************)
EXTENDS Cursor, TLC, Json, IOUtils

Srcs == ndJsonDeserialize(IOEnv.VERIF_SRCS)
Rec  == ndJsonDeserialize(IOEnv.VERIF_TRACE)

VARIABLE l
tvars == <<cvars, l>>

KindOf == <<Ascii, LF, Two, Three, Astral>>
Decode(s) == [k \in 1..Len(s) |-> KindOf[s[k]]]

(* number of characters from ci whose bytes end exactly at byte `target`; -1 if there is none
   (target behind the cursor, inside a character, or past the end) *)
RECURSIVE CharsTo(_, _, _)
CharsTo(target, c, i) ==
    IF i = target THEN c - ci
    ELSE IF i > target \/ c >= Len(src) THEN 0 - 1
    ELSE CharsTo(target, c + 1, i + src[c + 1].b)

IsEv(op) == l <= Len(Rec) /\ Rec[l][1] = op /\ l' = l + 1

TrReset == IsEv(5) /\ Reset(Decode(Srcs[Rec[l][2]]))

TrAdv == /\ IsEv(0)
         /\ LET e == Rec[l]
            IN /\ e[2] >= idx                                   \* Mono
               /\ LET k == CharsTo(e[2], ci, idx)
                  IN /\ k >= 0                                  \* Boundary
                     /\ Consume(k)
               /\ idx' = e[2] /\ line' = e[3] /\ col' = e[4]    \* logged = spec (PosInv)

TrTry == IsEv(1) /\ TryEnter
TrOk  == IsEv(2) /\ TryCommit
TrRb  == /\ IsEv(3)
         /\ TryRollback
         /\ LET e == Rec[l] IN idx' = e[2] /\ line' = e[3] /\ col' = e[4]

TrWarn == IsEv(4) /\ LET e == Rec[l] IN Warn(e[3], e[4], e[5], e[6])

TrFin == IsEv(6) /\ Finish

TraceInit == /\ l = 1
             /\ src = <<>> /\ ci = 0 /\ idx = 0 /\ line = 0 /\ col = 0
             /\ saved = <<>> /\ warns = 0 /\ steps = 0 /\ done = TRUE

TraceNext == TrReset \/ TrAdv \/ TrTry \/ TrOk \/ TrRb \/ TrWarn \/ TrFin

TraceSpec == TraceInit /\ [][TraceNext]_tvars

(* invariants evaluated at every event; the O(n) ones only on short sources *)
Short == Len(src) <= 400
TrPosInv == Short => PosInv
TrSavedInv == Short => SavedInv
TrHere == Short => HereInText

Accepted ==
    LET d == TLCGet("stats").diameter
    IN IF d - 1 = Len(Rec) THEN TRUE
       ELSE /\ PrintT(<<"REJECT", d, Rec[d]>>)
            /\ FALSE
=============================================================================
