------------------------------- MODULE IdentGen -------------------------------
(* The allocator of generated identifiers as a machine over the observed name table (see IdentNames). *)
EXTENDS IdentNames
CONSTANTS MaxAlloc, MaxDepth
Tab == ndJsonDeserialize(IOEnv.VERIF_IDENT)        \* Tab[id + 1] = name of id (a prefix of the observed table)

-----------------------------------------------------------------------------
(* the allocator as a machine: a stack of open function scopes, each [next, names] *)
VARIABLES scopes, allocs
ivars == <<scopes, allocs>>
Init == scopes = <<[next |-> First, names |-> {}]>> /\ allocs = 0
Top == scopes[Len(scopes)]
Alloc == /\ allocs < MaxAlloc
         /\ LET n == Tab[Top.next + 1] IN
            scopes' = [scopes EXCEPT ![Len(scopes)] = [next |-> Top.next + 1, names |-> Top.names \cup {n}]]
         /\ allocs' = allocs + 1
EnterFn == Len(scopes) < MaxDepth /\ scopes' = Append(scopes, [next |-> Top.next, names |-> {}]) /\ UNCHANGED allocs
ExitFn  == Len(scopes) > 1 /\ scopes' = SubSeq(scopes, 1, Len(scopes) - 1) /\ UNCHANGED allocs
Next == Alloc \/ EnterFn \/ ExitFn
Spec == Init /\ [][Next]_ivars

(* a name allocated in a scope is different from every name of every enclosing open scope *)
Fresh == \A i, j \in 1..Len(scopes) : i < j => scopes[i].names \cap scopes[j].names = {}
AllOK == \A i \in 1..Len(scopes) : \A n \in scopes[i].names : NameOK(n)
=============================================================================
