------------------------------- MODULE BindMap -------------------------------
(* The binding-map collector as a machine over ONE collector, with the history its requirement speaks of.
   The collector's operations (and what they are in the implementation) are in BindMapOps. *)
EXTENDS BindMapOps
CONSTANT Fields
-----------------------------------------------------------------------------
(* The machine over one collector, with the history the requirement speaks of *)
VARIABLES col, added, withdrawn, handed     \* handed: the slots handed out, per field
bvars == <<col, added, withdrawn, handed>>

Init == col = NewCol /\ added = {} /\ withdrawn = {} /\ handed = [f \in Fields |-> {}]

Add(f) == /\ col' = AddCol(col, f)
          /\ added' = added \cup {f}
          /\ handed' = IF AddRet(col, f) = None THEN handed ELSE [handed EXCEPT ![f] = @ \cup {AddRet(col, f)}]
          /\ UNCHANGED withdrawn
Disable(f) == /\ col' = DisableCol(col, f) /\ withdrawn' = withdrawn \cup {f} /\ UNCHANGED <<added, handed>>
DisableAll == /\ col' = DisableAllCol(col) /\ UNCHANGED <<added, withdrawn, handed>>

Next == \E f \in Fields : Add(f) \/ Disable(f)
Spec == Init /\ [][Next \/ DisableAll]_bvars

(* what is advertised depends on the two sets only: every order of the same registrations and withdrawals agrees *)
OrderFree == Advertised(col) = IF col.off THEN {} ELSE added \ withdrawn
(* the slots of an advertised field are 0 .. n-1, each handed out once *)
Dense == \A f \in Advertised(col) : handed[f] = 0..(col.m[f] - 1)
(* once withdrawn, always withdrawn *)
Sticky == [][\A f \in Fields : (Has(col, f) /\ col.m[f] = Withdrawn) => (Has(col', f) /\ col'.m[f] = Withdrawn)]_bvars
=============================================================================
