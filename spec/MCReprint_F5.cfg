SPECIFICATION Spec
CONSTANT Family = "F5"
INVARIANTS Stutter Idempotent Emit
CHECK_DEADLOCK FALSE
