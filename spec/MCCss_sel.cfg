SPECIFICATION Spec
CONSTANTS
  Family = "sel"
  Scale = "quick"
INVARIANTS BalancedBoth Partition Emit
CHECK_DEADLOCK FALSE
