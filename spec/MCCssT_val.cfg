SPECIFICATION Spec
CONSTANTS
  Family = "val"
  Scale = "thorough"
INVARIANTS BalancedBoth Partition Emit
CHECK_DEADLOCK FALSE
