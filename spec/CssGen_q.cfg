SPECIFICATION Spec
CONSTANTS
  MaxLen = 4
INVARIANTS TypeOK Emit
CHECK_DEADLOCK FALSE
