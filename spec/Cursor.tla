------------------------------- MODULE Cursor -------------------------------
(***************************************************************************)
(* The position machine of the WXML parser (`ParseState`): a cursor over   *)
(* the source text that carries a byte index, a 0-based line and a UTF-16  *)
(* column, with a stack of saved positions for speculative parsing         *)
(* (`try_parse`) and a list of diagnostics.                                *)
(*                                                                         *)
(* One action per critical section of the implementation:                  *)
(*   Consume(k)   next / skip_bytes / skip_whitespace / skip_until_*       *)
(*   TryEnter     try_parse: position saved                                *)
(*   TryCommit    try_parse: closure returned Some                         *)
(*   TryRollback  try_parse: closure returned None, position restored      *)
(*   Warn(s, e)   add_warning                                              *)
(*   Finish       Template::parse returned                                 *)
(*                                                                         *)
(* The source is a sequence of character records [b, u, nl]: UTF-8 length, *)
(* UTF-16 length, is-line-feed.  `Pos(n)` is the reference meaning of      *)
(* "line and column after n characters" as a fold from the start of the    *)
(* text; the machine updates line/col incrementally, and the invariants    *)
(* say the two always agree (C16), also after any rollback, that every     *)
(* diagnostic location lies in the text (C15) and that the cursor only     *)
(* moves forward outside a rollback and ends at the end of the text (C01). *)
(***************************************************************************)
EXTENDS Naturals, Sequences, FiniteSets

VARIABLES src,    \* the source: Seq([b : 1..4, u : 1..2, nl : BOOLEAN])
          ci,     \* characters consumed
          idx,    \* bytes consumed
          line,   \* 0-based line
          col,    \* UTF-16 column
          saved,  \* stack of <<ci, idx, line, col>>
          warns,  \* number of diagnostics emitted
          steps,  \* number of actions taken on this source
          done    \* Finish taken

cvars == <<src, ci, idx, line, col, saved, warns, steps, done>>

Ascii  == [b |-> 1, u |-> 1, nl |-> FALSE]
LF     == [b |-> 1, u |-> 1, nl |-> TRUE]
Two    == [b |-> 2, u |-> 1, nl |-> FALSE]   \* U+0080..U+07FF
Three  == [b |-> 3, u |-> 1, nl |-> FALSE]   \* U+0800..U+FFFF
Astral == [b |-> 4, u |-> 2, nl |-> FALSE]   \* U+10000..
CharKinds == {Ascii, LF, Two, Three, Astral}

(* one character of incremental update, exactly what `next` does *)
StepLine(ln, ch) == IF ch.nl THEN ln + 1 ELSE ln
StepCol(c, ch)   == IF ch.nl THEN 0 ELSE c + ch.u

(* Reference: position after the first n characters, folded from the start *)
RECURSIVE PosFrom(_, _, _, _, _, _)
PosFrom(s, from, to, i, ln, c) ==
    IF from = to THEN [ci |-> to, idx |-> i, line |-> ln, col |-> c]
    ELSE LET ch == s[from + 1]
         IN PosFrom(s, from + 1, to, i + ch.b, StepLine(ln, ch), StepCol(c, ch))

Pos(s, n) == PosFrom(s, 0, n, 0, 0, 0)

(* UTF-16 length of every line of s (a trailing empty line after a final LF counts) *)
RECURSIVE LineLensFrom(_, _, _, _)
LineLensFrom(s, k, cur, acc) ==
    IF k > Len(s) THEN Append(acc, cur)
    ELSE IF s[k].nl THEN LineLensFrom(s, k + 1, 0, Append(acc, cur))
         ELSE LineLensFrom(s, k + 1, cur + s[k].u, acc)
LineLens(s) == LineLensFrom(s, 1, 0, <<>>)

(* a <<line, col>> pair names a place in the text *)
InText(lens, ln, c) == ln + 1 <= Len(lens) /\ c <= lens[ln + 1]

PosLe(l1, c1, l2, c2) == l1 < l2 \/ (l1 = l2 /\ c1 <= c2)

-----------------------------------------------------------------------------
Reset(s) == /\ src' = s
            /\ ci' = 0 /\ idx' = 0 /\ line' = 0 /\ col' = 0
            /\ saved' = <<>> /\ warns' = 0 /\ steps' = 0 /\ done' = FALSE

Consume(k) ==
    /\ ~done
    /\ ci + k <= Len(src)
    /\ LET p == PosFrom(src, ci, ci + k, idx, line, col)
       IN /\ ci' = p.ci /\ idx' = p.idx /\ line' = p.line /\ col' = p.col
    /\ steps' = steps + 1
    /\ UNCHANGED <<src, saved, warns, done>>

TryEnter ==
    /\ ~done
    /\ saved' = Append(saved, <<ci, idx, line, col>>)
    /\ steps' = steps + 1
    /\ UNCHANGED <<src, ci, idx, line, col, warns, done>>

TryCommit ==
    /\ ~done /\ saved # <<>>
    /\ saved' = SubSeq(saved, 1, Len(saved) - 1)
    /\ steps' = steps + 1
    /\ UNCHANGED <<src, ci, idx, line, col, warns, done>>

TryRollback ==
    /\ ~done /\ saved # <<>>
    /\ LET t == saved[Len(saved)]
       IN ci' = t[1] /\ idx' = t[2] /\ line' = t[3] /\ col' = t[4]
    /\ saved' = SubSeq(saved, 1, Len(saved) - 1)
    /\ steps' = steps + 1
    /\ UNCHANGED <<src, warns, done>>

(* a diagnostic spanning two places the cursor has been: start <= end, both in the text *)
Warn(sl, sc, el, ec) ==
    /\ ~done
    /\ PosLe(sl, sc, el, ec)
    /\ LET lens == LineLens(src) IN InText(lens, sl, sc) /\ InText(lens, el, ec)
    /\ warns' = warns + 1
    /\ steps' = steps + 1
    /\ UNCHANGED <<src, ci, idx, line, col, saved, done>>

Finish ==
    /\ ~done
    /\ ci = Len(src)          \* the whole input has been consumed
    /\ saved = <<>>           \* no speculation left open
    /\ done' = TRUE
    /\ UNCHANGED <<src, ci, idx, line, col, saved, warns, steps>>

-----------------------------------------------------------------------------
(* Invariants *)

PosInv ==   \* C16: the incremental line/col is the fold from the start of the text
    LET p == Pos(src, ci) IN idx = p.idx /\ line = p.line /\ col = p.col

SavedInv == \* every saved triple was a true position, so a rollback restores one
    \A k \in 1..Len(saved) :
        LET t == saved[k]  p == Pos(src, t[1])
        IN t[1] <= Len(src) /\ t[2] = p.idx /\ t[3] = p.line /\ t[4] = p.col

HereInText == InText(LineLens(src), line, col)   \* C15: "here" is always a legal location

DoneInv == done => (ci = Len(src) /\ idx = Pos(src, Len(src)).idx)

TypeOK == /\ ci \in 0..Len(src) /\ Len(saved) \in Nat /\ warns \in Nat
=============================================================================
